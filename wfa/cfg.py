"""CFG queries: reachability with removed nodes (must-pass-through), exit classification, guards.

Node model: every basic block b has two nodes, (b, 'S') = its statements and (b, 'T') = its
terminator.  Edges: (b,S) -> (b,T) -> (succ,S).  Only normal (non-unwind) edges are followed: a
panic is not an acceptance path.  A *site* is a node; call sites are (b,'T'), assignment sites are
(b,'S').
"""
from .ir import Fn, op_local, op_place, callee_name, strip_generics

S, T = "S", "T"


def node_succs(fn, node):
    b, k = node
    if k == S:
        return [(b, T)]
    return [(s, S) for s in fn.succ[b]]


def reach(fn, starts, avoid=frozenset(), include_starts=True):
    """Set of nodes reachable from `starts` without entering a node in `avoid`."""
    seen = set()
    st = []
    for n in starts:
        if include_starts:
            if n not in avoid and n not in seen:
                seen.add(n)
                st.append(n)
        else:
            for m in node_succs(fn, n):
                if m not in avoid and m not in seen:
                    seen.add(m)
                    st.append(m)
    while st:
        n = st.pop()
        for m in node_succs(fn, n):
            if m not in avoid and m not in seen:
                seen.add(m)
                st.append(m)
    return seen


ENTRY = (0, S)


def must_between(fn, A, B, C, after_a=True):
    """True iff every path from a node in A to a node in C passes through a node in B.

    A = None means function entry.  Returns (ok, witness) where witness is a path (list of nodes)
    avoiding B when not ok.
    """
    B = frozenset(B)
    C = set(C)
    if A is None:
        starts = [ENTRY]
        include = True
    else:
        starts = list(A)
        include = not after_a
    # BFS with parents for a witness
    parent = {}
    queue = []
    if include:
        for n in starts:
            if n not in B and n not in parent:
                parent[n] = None
                queue.append(n)
    else:
        for n in starts:
            for m in node_succs(fn, n):
                if m not in B and m not in parent:
                    parent[m] = n
                    queue.append(m)
    qi = 0
    while qi < len(queue):
        n = queue[qi]
        qi += 1
        if n in C:
            path = [n]
            guard = 0
            while parent.get(path[-1]) is not None and guard < 100000:
                p = parent[path[-1]]
                if isinstance(p, tuple) and p and p[0] == "START":
                    path.append(p[1])
                    break
                path.append(p)
                guard += 1
            path.reverse()
            return False, path
        for m in node_succs(fn, n):
            if m not in B and m not in parent:
                parent[m] = n
                queue.append(m)
    return True, None


def fmt_path(fn, path, maxn=14):
    """Readable witness: the distinct source lines along a node path."""
    lines = []
    for (b, k) in path:
        ln = fn.line(b, None if k == T else 0) if (k == T or fn.stmts(b)) else None
        if ln is not None and (not lines or lines[-1] != ln):
            lines.append(ln)
    if len(lines) > maxn:
        lines = lines[: maxn // 2] + ["..."] + lines[-maxn // 2:]
    return f"{fn.file}: lines " + " -> ".join(str(x) for x in lines)


# ---- exits -------------------------------------------------------------------------------------

RESULT = "core::result::Result"
OPTION = "core::option::Option"


class Exit:
    __slots__ = ("node", "kind", "variant", "callee", "line", "payload")

    def __init__(self, node, kind, variant=None, callee=None, line=None, payload=None):
        self.node = node
        self.kind = kind  # 'ok' | 'err' | 'call' | 'other'
        self.variant = variant
        self.callee = callee
        self.line = line
        self.payload = payload

    def __repr__(self):
        return f"Exit({self.kind},{self.variant or self.callee},{self.line})"


def _agg_of_local(fn, l, depth=0):
    """If local l is assigned exactly once by an ADT aggregate (possibly through moves), return rv."""
    if depth > 4:
        return None
    ds = [d for d in fn.defs.get(l, []) if d[1] != "T" and d[2]["k"] == "assign" and "p" not in d[2]["lhs"]]
    if len(ds) != 1:
        return None
    rv = ds[0][2]["rv"]
    if rv["k"] == "agg" and rv.get("agg") == "adt":
        return rv
    if rv["k"] == "use":
        src = op_local(rv["a"], pure=True)
        if src is not None:
            return _agg_of_local(fn, src, depth + 1)
    return None


def exits(fn):
    """Classify every definition of the return place _0. In an inlined view (wfa.inline) the Err values an inlined helper returns are
    listed as well (kind 'err' with their variant): control continues to the caller's `?`, whose own exit has no variant of its own."""
    res = []
    if getattr(fn, "origin", None) is not None:
        slots = set()
        for blk in fn.blocks:
            for s in blk["s"]:
                if s.get("inl") and s["k"] == "assign" and s["rv"]["k"] == "use" and "move" in s["rv"]["a"] and "p" not in s["rv"]["a"]["move"]:
                    slots.add(s["rv"]["a"]["move"]["l"])
        for sl in slots:
            for (b, i, s) in fn.defs.get(sl, []):
                if i == "T" or s["k"] != "assign" or "p" in s["lhs"]:
                    continue
                rv = s["rv"]
                if rv["k"] == "agg" and rv.get("agg") == "adt" and rv["adt"] == RESULT and rv["vn"] == "Err":
                    var = None
                    if rv["ops"]:
                        l = op_local(rv["ops"][0], pure=True)
                        if l is not None:
                            a = _agg_of_local(fn, l)
                            if a is not None:
                                var = a["vn"]
                        c = rv["ops"][0].get("const")
                        if c is not None:
                            var = strip_generics(c.get("ty", "")).split("::")[-1]
                    res.append(Exit((b, S), "err", variant=var, line=s.get("line"), payload=rv))
    for (b, i, s) in fn.defs.get(0, []):
        if i == "T":
            cn = callee_name(s)
            kind = "call"
            if cn and cn.endswith("FromResidual>::from_residual") or (cn and cn.endswith("FromResidual::from_residual")):
                kind = "err"
                res.append(Exit((b, T), kind, variant="?", callee=cn, line=s.get("line")))
            else:
                res.append(Exit((b, T), kind, callee=cn, line=s.get("line")))
            continue
        if s["k"] != "assign" or "p" in s["lhs"]:
            res.append(Exit((b, S), "other", line=s.get("line")))
            continue
        rv = s["rv"]
        if rv["k"] == "agg" and rv.get("agg") == "adt" and rv["adt"] == RESULT:
            if rv["vn"] == "Ok":
                res.append(Exit((b, S), "ok", line=s.get("line"), payload=rv))
            else:
                var = None
                if rv["ops"]:
                    l = op_local(rv["ops"][0], pure=True)
                    if l is not None:
                        a = _agg_of_local(fn, l)
                        if a is not None:
                            var = a["vn"]
                    c = rv["ops"][0].get("const")
                    if c is not None:
                        var = strip_generics(c.get("ty", "")).split("::")[-1]
                res.append(Exit((b, S), "err", variant=var, line=s.get("line"), payload=rv))
        elif rv["k"] == "agg" and rv.get("agg") == "adt" and rv["adt"] == OPTION:
            res.append(Exit((b, S), "ok" if rv["vn"] == "Some" else "err", variant=rv["vn"], line=s.get("line")))
        elif rv["k"] == "use" and "const" in rv["a"]:
            c = rv["a"]["const"]
            res.append(Exit((b, S), "other", variant=c.get("scalar"), line=s.get("line")))
        else:
            res.append(Exit((b, S), "other", line=s.get("line")))
    return res


def ok_nodes(fn, include_calls=True):
    """Nodes at which the function's return value is set to a non-error value (or to a tail call's
    result when include_calls)."""
    ns = []
    for e in exits(fn):
        if e.kind in ("ok", "other") or (include_calls and e.kind == "call"):
            ns.append(e.node)
    return ns


# ---- condition tracing -------------------------------------------------------------------------

CMP_OPS = {"Lt": "<", "Le": "<=", "Gt": ">", "Ge": ">=", "Eq": "==", "Ne": "!="}
NEG = {"<": ">=", "<=": ">", ">": "<=", ">=": "<", "==": "!=", "!=": "=="}
FLIP = {"<": ">", "<=": ">=", ">": "<", ">=": "<=", "==": "==", "!=": "!="}
CMP_CALLS = {
    "core::cmp::PartialEq::eq": "==", "core::cmp::PartialEq::ne": "!=",
    "core::cmp::PartialOrd::lt": "<", "core::cmp::PartialOrd::le": "<=",
    "core::cmp::PartialOrd::gt": ">", "core::cmp::PartialOrd::ge": ">=",
}


class Cond:
    """Canonical condition: `lhs op rhs` (op in < <= == != > >=), or a boolean call / discriminant."""
    __slots__ = ("kind", "op", "lhs", "rhs", "call", "neg", "node", "place")

    def __init__(self, kind, op=None, lhs=None, rhs=None, call=None, neg=False, node=None, place=None):
        self.kind = kind  # 'cmp' | 'call' | 'discr' | 'const' | 'unknown'
        self.op = op
        self.lhs = lhs
        self.rhs = rhs
        self.call = call
        self.neg = neg
        self.node = node
        self.place = place

    def negated(self):
        if self.kind == "cmp":
            return Cond("cmp", NEG[self.op], self.lhs, self.rhs, node=self.node)
        return Cond(self.kind, self.op, self.lhs, self.rhs, self.call, not self.neg, self.node, self.place)

    def __repr__(self):
        if self.kind == "cmp":
            return f"Cond({self.lhs} {self.op} {self.rhs})"
        if self.kind == "call":
            return f"Cond({'!' if self.neg else ''}{self.call and callee_name(self.call)})"
        return f"Cond({self.kind}{' neg' if self.neg else ''})"


def single_def(fn, l):
    ds = fn.defs.get(l, [])
    full = [d for d in ds if not (d[1] != "T" and "p" in d[2].get("lhs", {}))]
    if len(full) == 1:
        return full[0]
    return None


def trace_cond(fn, op, depth=0):
    """Trace a boolean/discriminant operand back to a canonical condition (true-polarity)."""
    if depth > 8:
        return Cond("unknown")
    if "const" in op:
        return Cond("const", op=op["const"].get("scalar"))
    l = op_local(op, pure=True)
    if l is None:
        return Cond("unknown")
    d = single_def(fn, l)
    if d is None:
        return Cond("unknown")
    b, i, s = d
    if i == "T":
        cn = callee_name(s)
        base = None
        f = s["fn"]
        if f.get("trait") in ("core::cmp::PartialEq", "core::cmp::PartialOrd"):
            base = "core::cmp::" + f["trait"].split("::")[-1] + "::" + f["item"]
        if base in CMP_CALLS:
            return Cond("cmp", CMP_CALLS[base], s["args"][0], s["args"][1], node=(b, "T"))
        hc = _helper_predicate(fn, s, (b, "T"), depth)
        if hc is not None:
            return hc
        return Cond("call", call=s, node=(b, "T"))
    rv = s["rv"]
    if rv["k"] == "bin" and rv["op"] in CMP_OPS:
        return Cond("cmp", CMP_OPS[rv["op"]], rv["a"], rv["b"], node=(b, i))
    if rv["k"] == "un" and rv["op"] == "Not":
        return trace_cond(fn, rv["a"], depth + 1).negated()
    if rv["k"] == "use":
        return trace_cond(fn, rv["a"], depth + 1)
    if rv["k"] == "discr":
        return Cond("discr", place=rv["p"], node=(b, i))
    if rv["k"] == "bin" and rv["op"] in ("BitAnd", "BitOr"):
        return Cond("unknown")
    return Cond("unknown")


def _helper_predicate(fn, t, node, depth):
    """`if !is_canonical(value)` with `const fn is_canonical(v: u128) -> bool { v < M }`: the comparison the private predicate makes, with
    its parameters replaced by the call's arguments (constants stay) — or None when the callee is not such a predicate"""
    prog = getattr(fn, "prog", None)
    f = t.get("fn") or {}
    if prog is None or depth > 4 or f.get("trait"):
        return None
    h = prog.fns.get(f.get("def"))
    if h is None or h.crate != fn.crate or h.get("vis") == "pub" or h.kind == "closure" or h.get("output") != "bool" or len(h.blocks) > 12:
        return None
    if sum(1 for blk in h.blocks if blk["t"]["k"] == "return") != 1:
        return None
    hc = trace_cond(h, {"copy": {"l": 0}}, depth + 1)
    if hc.kind != "cmp":
        return None

    def lift(op):
        if "const" in op:
            return op
        p = op_place(op)
        if p is None or p.get("p"):
            return None
        l = p["l"]
        # follow plain copies of a parameter inside the helper
        for _ in range(4):
            if 1 <= l <= h.arg_count:
                return t["args"][l - 1] if l - 1 < len(t["args"]) else None
            d = single_def(h, l)
            if d is None or d[1] == "T" or d[2]["rv"]["k"] not in ("use", "cast"):
                return None
            q = op_place(d[2]["rv"]["a"])
            if q is None or q.get("p"):
                return d[2]["rv"]["a"] if "const" in d[2]["rv"]["a"] else None
            l = q["l"]
        return None
    a, b2 = lift(hc.lhs), lift(hc.rhs)
    if a is None or b2 is None:
        return None
    return Cond("cmp", hc.op, a, b2, node=node)


class Guard:
    __slots__ = ("fn", "block", "cond", "reject_targets", "errs", "line")

    def __init__(self, fn, block, cond, reject_targets, errs, line):
        self.fn = fn
        self.block = block
        self.cond = cond  # condition under which the REJECT edge is taken (canonical)
        self.reject_targets = reject_targets
        self.errs = errs  # Exit objects reachable on the reject side
        self.line = line

    def __repr__(self):
        return f"Guard({self.fn.nname}@{self.line}: reject iff {self.cond} -> {[e.variant for e in self.errs]})"


def guards(fn, okset=None):
    """All switch edges one side of which cannot reach an accepting exit (reject edges)."""
    ex = exits(fn)
    if okset is None:
        okset = set(e.node for e in ex if e.kind in ("ok", "other", "call"))
    errs = [e for e in ex if e.kind == "err"]
    res = []
    for b, blk in enumerate(fn.blocks):
        t = blk["t"]
        if t["k"] != "switch":
            continue
        targets = [(v, tb) for v, tb in t["targets"]] + [(None, t["otherwise"])]
        side = []
        for v, tb in targets:
            r = reach(fn, [(tb, S)])
            can_ok = any(n in r for n in okset)
            side.append((v, tb, can_ok, r))
        if all(x[2] for x in side) or not any(x[2] for x in side):
            continue
        c = trace_cond(fn, t["d"])
        for v, tb, can_ok, r in side:
            if can_ok:
                continue
            rej_errs = [e for e in errs if e.node in r]
            if not rej_errs:
                continue  # e.g. the `unreachable` arm of an exhaustive match: not a reject decision
            # polarity: switch on bool: value 0 = false
            cond = c
            if t["dty"] == "bool":
                if v == "0":
                    cond = c.negated()
                elif v is None:
                    # otherwise-branch of a bool switch whose listed value is 0 => true side
                    listed = [x[0] for x in targets if x[0] is not None]
                    cond = c if listed == ["0"] else c.negated()
            else:
                cond = Cond(c.kind, c.op, c.lhs, c.rhs, c.call, c.neg, c.node, c.place)
                cond.op = ("is", v)
            res.append(Guard(fn, b, cond, [tb], rej_errs, t.get("line")))
    return res
