"""Intra-procedural flow-sensitive def-use over MIR: reaching definitions and backward walks.

Definition sites
  assign   lhs (whole local: killing; projected / through a reference: non-killing)
  call     destination of a call terminator
  mut      the referent of a `&mut` argument (or of a closure capturing by `&mut`) of a call
  param    implicit definition of an argument at entry

Walk results are sets of nodes:
  ('c', b)         call terminating block b
  ('p', l)         parameter l
  ('k', text)      constant
  ('f', adt, fld)  read of a field of a workspace ADT
"""
from collections import defaultdict

from .ir import op_local, op_place, callee_name


def is_mut_ref_ty(ty):
    return ty.startswith("&mut ") or ty.startswith("*mut ")


def is_ref_ty(ty):
    return ty.startswith("&") or ty.startswith("*const ") or ty.startswith("*mut ")


# std / accessor callees through which a value flows unchanged in content ("transparent")
TRANSPARENT_SUFFIX = (
    "::deref", "::deref_mut", "::clone", "::to_vec", "::to_owned", "::as_ref", "::as_mut", "::as_slice",
    "::as_mut_slice", "::iter", "::iter_mut", "::into_iter", "::next", "::unwrap", "::expect", "::borrow",
    "::borrow_mut", "::into", "::from", "::index", "::index_mut", "::first", "::last", "::get", "::get_mut",
    "::copied", "::cloned", "::collect", "::enumerate", "::zip", "::take", "::ok", "::as_ptr", "::as_mut_ptr",
    "::branch", "::from_residual", "::map_err", "::to_string", "::try_into", "::try_from", "::split_at",
    "::chunks", "::chunks_exact", "::rev", "::remove", "::pop", "::drain", "::append", "::extend",
    "::extend_from_slice", "::push", "::insert", "::replace", "::swap", "::from_output", "::unwrap_or", "::map",
)


PARTIAL_ITER = ("skip", "take", "step_by", "filter", "skip_while", "take_while", "nth", "filter_map", "rev")


def partial_iteration(names):
    """iterator adaptors (by resolved path) that make a loop range over a part of a collection"""
    return sorted(n for n in names if n.startswith("core::iter::") and n.split("::")[-1] in PARTIAL_ITER)


def default_transparent(t):
    n = callee_name(t) or ""
    if n.startswith(("core::", "alloc::", "std::")):
        return n.endswith(TRANSPARENT_SUFFIX) or "::convert::" in n
    return False


class DefSite:
    __slots__ = ("id", "local", "b", "i", "kind", "killing", "stmt")

    def __init__(self, id, local, b, i, kind, killing, stmt):
        self.id = id
        self.local = local
        self.b = b
        self.i = i
        self.kind = kind
        self.killing = killing
        self.stmt = stmt

    def __repr__(self):
        return f"Def(_{self.local}@{self.b}.{self.i} {self.kind})"


class FlowGraph:
    def __init__(self, fn):
        self.fn = fn
        self.ref_of = defaultdict(set)
        self._refs()
        self.sites = []
        self.block_defs = defaultdict(list)  # b -> [(pos, DefSite)] ; pos = stmt index, or len(stmts) for T
        self.mask = defaultdict(int)
        self._collect()
        self.IN = self._solve()

    # ---- reference tracking (flow-insensitive) ------------------------------------------------
    def _refs(self):
        fn = self.fn
        changed = True
        rounds = 0
        while changed and rounds < 30:
            changed = False
            rounds += 1
            for b, i, s in fn.assigns():
                lhs = s["lhs"]
                if "p" in lhs:
                    continue
                rv = s["rv"]
                add = set()
                k = rv["k"]
                if k in ("ref", "rawptr"):
                    p = rv["p"]
                    proj = p.get("p", [])
                    if proj and proj[0] == "deref":
                        add |= self.ref_of.get(p["l"], set()) | {p["l"]}
                    else:
                        add.add(p["l"])
                elif k in ("use", "cast"):
                    src = op_local(rv["a"])
                    if src is not None:
                        add |= self.ref_of.get(src, set())
                        pl = op_place(rv["a"])
                        lty = fn.local_ty(lhs["l"])
                        if pl is not None and pl.get("p") and (lty.startswith("*const") or lty.startswith("*mut")) \
                                and fn.local_ty(src).startswith("alloc::boxed::Box<"):
                            # the raw pointer taken out of a Box (vec![..] expansion: Box::new_uninit + write through the pointer)
                            # points to the heap value the Box local owns: a write through it is a write to that local
                            add.add(src)
                elif k == "agg":
                    for o in rv["ops"]:
                        src = op_local(o)
                        if src is not None and is_ref_ty(fn.local_ty(src)):
                            add |= self.ref_of.get(src, set())
                for x in list(add):
                    add |= self.ref_of.get(x, set())
                if add - self.ref_of[lhs["l"]]:
                    self.ref_of[lhs["l"]] |= add
                    changed = True
            for b, t in fn.calls():
                d = t["dest"]
                if "p" in d:
                    continue
                dty = t.get("dest_ty", "")
                if "&" in dty or "*mut" in dty or "*const" in dty or "Iter" in dty or "Ref<" in dty:
                    add = set()
                    for a in t["args"]:
                        src = op_local(a)
                        if src is not None:
                            add |= self.ref_of.get(src, set())
                    for x in list(add):
                        add |= self.ref_of.get(x, set())
                    if add - self.ref_of[d["l"]]:
                        self.ref_of[d["l"]] |= add
                        changed = True

    # ---- definition sites -----------------------------------------------------------------------
    def _add(self, local, b, i, kind, killing, stmt, pos):
        ds = DefSite(len(self.sites), local, b, i, kind, killing, stmt)
        self.sites.append(ds)
        self.block_defs[b].append((pos, ds))
        self.mask[local] |= 1 << ds.id
        return ds

    def _write_place(self, p, b, i, kind, stmt, pos):
        l = p["l"]
        proj = p.get("p", [])
        if not proj:
            self._add(l, b, i, kind, True, stmt, pos)
        elif proj[0] == "deref":
            for base in self.ref_of.get(l, ()):
                self._add(base, b, i, kind, False, stmt, pos)
            self._add(l, b, i, kind, False, stmt, pos)
        else:
            self._add(l, b, i, kind, False, stmt, pos)

    def _collect(self):
        fn = self.fn
        for l in range(1, fn.arg_count + 1):
            self._add(l, 0, -1, "param", True, None, -1)
        for b, blk in enumerate(fn.blocks):
            for i, s in enumerate(blk["s"]):
                if s["k"] in ("assign", "setdiscr"):
                    self._write_place(s["lhs"], b, i, "assign", s, i)
                elif s["k"] == "copy_nonoverlapping":
                    dl = op_local(s["dst"])
                    if dl is not None:
                        for base in self.ref_of.get(dl, ()):
                            self._add(base, b, i, "assign", False, s, i)
            t = blk["t"]
            n = len(blk["s"])
            if t["k"] == "call":
                for a in t["args"]:
                    src = op_local(a)
                    if src is None:
                        continue
                    ty = fn.local_ty(src)
                    if is_mut_ref_ty(ty) or src in fn.closure_locals or "{closure" in ty:
                        for base in self.ref_of.get(src, ()):
                            self._add(base, b, "T", "mut", False, t, n)
                        if is_mut_ref_ty(ty) and 1 <= src <= fn.arg_count:
                            self._add(src, b, "T", "mut", False, t, n)
                self._write_place(t["dest"], b, "T", "call", t, n)
        for b in self.block_defs:
            self.block_defs[b].sort(key=lambda x: x[0])

    def _transfer(self, cur, ds):
        if ds.killing:
            return (cur & ~self.mask[ds.local]) | (1 << ds.id)
        return cur | (1 << ds.id)

    def _solve(self):
        fn = self.fn
        nb = len(fn.blocks)
        IN = [0] * nb
        OUT = [None] * nb
        order = list(range(nb))
        work = set(order)
        # entry block: param defs are placed at pos -1 in block 0 and are processed by transfer
        while work:
            b = min(work)
            work.discard(b)
            cur = 0
            for p in fn.pred[b]:
                if OUT[p] is not None:
                    cur |= OUT[p]
            IN[b] = cur
            for pos, ds in self.block_defs.get(b, ()):
                cur = self._transfer(cur, ds)
            if OUT[b] != cur:
                OUT[b] = cur
                for s in fn.succ[b]:
                    work.add(s)
        return IN

    # ---- queries ---------------------------------------------------------------------------------
    def reaching(self, local, b, pos):
        """DefSites of `local` reaching the point just before position `pos` of block b
        (pos = statement index, or len(stmts) for the terminator)."""
        cur = self.IN[b]
        for p, ds in self.block_defs.get(b, ()):
            if p >= pos:
                break
            cur = self._transfer(cur, ds)
        m = cur & self.mask.get(local, 0)
        res = []
        while m:
            low = m & -m
            res.append(self.sites[low.bit_length() - 1])
            m ^= low
        return res

    def _pos(self, b, i):
        return len(self.fn.blocks[b]["s"]) if i == "T" else i

    def _place_reads(self, p):
        """(locals read, field nodes) when evaluating place p"""
        ls = [p["l"]]
        fs = []
        for e in p.get("p", []):
            if isinstance(e, dict):
                if "idx" in e:
                    ls.append(e["idx"])
                if "f" in e and e.get("of") and e.get("n") and not e.get("upvar"):
                    fs.append(("f", e["of"], e["n"]))
        return ls, fs

    def _op_reads(self, op):
        p = op_place(op)
        if p is not None:
            return self._place_reads(p) + ([],)
        c = op.get("const")
        ks = []
        if c is not None:
            if "fn" in c:
                ks.append(("k", "fn:" + c["fn"]["name"]))
            elif "def" in c:
                ks.append(("k", "const:" + c.get("def_name", c["def"])))
            elif "scalar" in c:
                ks.append(("k", f"lit:{c['scalar']}:{c['ty']}"))
            else:
                ks.append(("k", "lit:" + c.get("ty", "?")))
        return [], [], ks

    def _rv_ops(self, rv):
        k = rv["k"]
        if k in ("use", "cast", "un", "repeat"):
            return [rv["a"]], []
        if k == "bin":
            return [rv["a"], rv["b"]], []
        if k in ("ref", "rawptr", "discr"):
            return [], [rv["p"]]
        if k == "agg":
            return list(rv["ops"]), []
        return [], []

    def walk(self, ops=(), places=(), at=None, through=None, deep=None, max_nodes=20000, defs_out=None):
        """Backward walk from operands/places used at point `at`=(b, i).

        through(call_terminator) -> bool decides whether the walk continues into the arguments of a
        call that produced (or mutated) a value.  Every call met is recorded in the result.
        deep: optional Summaries object; a precisely resolved workspace callee is then replaced by
        its return-value summary (which parameters / fields / inner calls the result, or the used
        tuple component of the result, depends on) instead of "depends on every argument".
        Aggregates are component-sensitive: a use of `x.N` whose definition is `x = (a, b, ..)`
        follows operand N only.
        """
        fn = self.fn
        res = set()
        seen_defs = set()
        seen_uses = set()
        work = []

        def use_local(l, b, pos, comp=None):
            key = (l, b, pos, comp)
            if key in seen_uses:
                return
            seen_uses.add(key)
            work.append(key)

        def use_place(p, b, pos):
            proj = p.get("p", [])
            comp = None
            if proj and isinstance(proj[0], dict) and "f" in proj[0]:
                comp = proj[0]["f"]
            first = True
            for e in proj:
                if isinstance(e, dict):
                    if "idx" in e:
                        use_local(e["idx"], b, pos)
                    if "f" in e and e.get("of") and e.get("n") and not e.get("upvar"):
                        res.add(("f", e["of"], e["n"]))
            use_local(p["l"], b, pos, comp)

        def use_op(op, b, pos):
            p = op_place(op)
            if p is not None:
                use_place(p, b, pos)
                return
            ls, fs, ks = self._op_reads(op)
            for x in ks:
                res.add(x)

        b0, i0 = at
        pos0 = self._pos(b0, i0)
        for op in ops:
            use_op(op, b0, pos0)
        for p in places:
            use_place(p, b0, pos0)
        while work:
            if len(res) > max_nodes:
                break
            l, b, pos, comp = work.pop()
            for ds in self.reaching(l, b, pos):
                if (ds.id, comp) in seen_defs or (ds.id, None) in seen_defs:
                    continue
                seen_defs.add((ds.id, comp))
                if defs_out is not None:
                    defs_out.add(ds.id)
                if ds.kind == "param":
                    res.add(("p", ds.local))
                    continue
                dpos = self._pos(ds.b, ds.i)
                if ds.kind == "assign":
                    s = ds.stmt
                    if s["k"] == "assign":
                        lproj = s["lhs"].get("p", [])
                        if comp is not None and lproj and isinstance(lproj[0], dict) and "f" in lproj[0] \
                                and lproj[0]["f"] != comp and not ds.killing:
                            continue  # write to a different component
                        rv = s["rv"]
                        if comp is not None and ds.killing and rv["k"] == "agg" and rv.get("agg") in ("tuple", "adt", "closure") \
                                and comp < len(rv["ops"]) and rv.get("variant", 0) == 0:
                            use_op(rv["ops"][comp], ds.b, dpos)
                            continue
                        if comp is not None and ds.killing and rv["k"] == "use":
                            # a move/copy of a whole aggregate: keep the component
                            p2 = op_place(rv["a"])
                            if p2 is not None and "p" not in p2:
                                use_local(p2["l"], ds.b, dpos, comp)
                                continue
                        if rv["k"] == "bin":
                            res.add(("b", rv["op"]))
                        ops2, places2 = self._rv_ops(rv)
                        for o in ops2:
                            use_op(o, ds.b, dpos)
                        for p in places2:
                            use_place(p, ds.b, dpos)
                        for e in lproj:
                            if isinstance(e, dict) and "idx" in e:
                                use_local(e["idx"], ds.b, dpos)
                    elif s["k"] == "copy_nonoverlapping":
                        use_op(s["src"], ds.b, dpos)
                else:  # call / mut
                    t = ds.stmt
                    res.add(("c", ds.b))
                    if through is None or through(t):
                        summ = None
                        if deep is not None and ds.kind == "call":
                            summ = deep.ret_summary_for_call(fn, t, comp)
                        if summ is not None:
                            params, nodes = summ
                            res |= nodes
                            for pi in params:
                                if 1 <= pi <= len(t["args"]):
                                    use_op(t["args"][pi - 1], ds.b, dpos)
                        else:
                            for a in t["args"]:
                                use_op(a, ds.b, dpos)
                            if "indirect" in t:
                                use_op(t["indirect"], ds.b, dpos)
        return res

    # convenience ------------------------------------------------------------------------------
    def slice_at(self, op, at, through=None):
        return self.walk(ops=[op], at=at, through=through)

    def producers(self, op, at, transparent=default_transparent):
        """Nearest non-transparent producers of an operand (calls, params, consts, fields)."""
        return self.walk(ops=[op], at=at, through=transparent)

    def call_arg_slice(self, b, idx, through=None):
        t = self.fn.term(b)
        return self.walk(ops=[t["args"][idx]], at=(b, "T"), through=through)

    def call_arg_producers(self, b, idx, transparent=default_transparent):
        t = self.fn.term(b)
        return self.walk(ops=[t["args"][idx]], at=(b, "T"), through=transparent)

    def calls_in(self, nodes):
        return [(n[1], self.fn.term(n[1])) for n in nodes if n[0] == "c"]

    def callee_names_in(self, nodes, closures=False):
        res = {callee_name(self.fn.term(n[1])) for n in nodes if n[0] == "c"} - {None}
        res |= {n[1] for n in nodes if n[0] == "cn"}
        if closures:
            prog = self.fn.prog
            todo = []
            for n in nodes:
                if n[0] == "c":
                    todo.extend(self.fn.closure_args(self.fn.term(n[1])))
            seen = set()
            while todo:
                cid = todo.pop()
                if cid in seen or cid not in prog.fns:
                    continue
                seen.add(cid)
                cf = prog.fns[cid]
                for b, t in cf.calls():
                    cn = callee_name(t)
                    if cn:
                        res.add(cn)
                    todo.extend(cf.closure_args(t))
        return res

    def fields_in(self, nodes):
        return {(n[1], n[2]) for n in nodes if n[0] == "f"}

    def consts_in(self, nodes):
        return {n[1] for n in nodes if n[0] == "k"}

    def params_in(self, nodes):
        return {n[1] for n in nodes if n[0] == "p"}

    # compatibility with the first version of the API (flow-insensitive callers)
    def op_slice(self, op, at=None, through=None):
        if at is None:
            raise ValueError("op_slice needs a program point")
        return self.walk(ops=[op], at=at, through=through)


class Summaries:
    """Return-value summaries of workspace functions (which params / fields / inner callees the
    returned value, or one tuple component of it, may depend on)."""

    def __init__(self, prog, max_depth=4, skip=None):
        self.prog = prog
        self.max_depth = max_depth
        self.cache = {}
        self.stack = []
        self.skip = skip  # predicate(fn) -> True: keep opaque

    def ret_summary_for_call(self, caller, t, comp):
        cands, precise = self.prog.resolve_call(t)
        if not precise or len(cands) != 1:
            return None
        c = cands[0]
        if c.kind == "closure" or (self.skip and self.skip(c)):
            return None
        return self.ret_summary(c, comp)

    def ret_summary(self, fn, comp):
        key = (fn.id, comp)
        if key in self.cache:
            return self.cache[key]
        if fn.id in self.stack or len(self.stack) >= self.max_depth:
            return None
        self.stack.append(fn.id)
        try:
            g = flow(fn)
            params = set()
            nodes = set()
            for ds in g.sites:
                if ds.local != 0 or ds.kind == "param":
                    continue
                dpos = g._pos(ds.b, ds.i)
                if ds.kind == "assign" and ds.stmt["k"] == "assign":
                    rv = ds.stmt["rv"]
                    lproj = ds.stmt["lhs"].get("p", [])
                    if comp is not None and lproj and isinstance(lproj[0], dict) and "f" in lproj[0] and lproj[0]["f"] != comp:
                        continue
                    if comp is not None and not lproj and rv["k"] == "agg" and rv.get("agg") in ("tuple", "adt") and comp < len(rv["ops"]):
                        r = g.walk(ops=[rv["ops"][comp]], at=(ds.b, ds.i), deep=self)
                    else:
                        ops2, places2 = g._rv_ops(rv)
                        r = g.walk(ops=ops2, places=places2, at=(ds.b, ds.i), deep=self)
                else:
                    t = ds.stmt
                    r = {("c", ds.b)}
                    sub = self.ret_summary_for_call(fn, t, comp if ds.kind == "call" else None)
                    if sub is not None:
                        ps, ns = sub
                        nodes |= ns
                        ops3 = [t["args"][pi - 1] for pi in ps if 1 <= pi <= len(t["args"])]
                    else:
                        ops3 = list(t["args"])
                    r |= g.walk(ops=ops3, at=(ds.b, "T"), deep=self)
                for n in r:
                    if n[0] == "p":
                        params.add(n[1])
                    elif n[0] == "c":
                        cn = callee_name(fn.term(n[1]))
                        if cn:
                            nodes.add(("cn", cn))
                    else:
                        nodes.add(n)
            res = (params, nodes)
        finally:
            self.stack.pop()
        self.cache[key] = res
        return res


_cache = {}


def flow(fn):
    g = _cache.get(fn.id)
    if g is None or g.fn is not fn:
        g = FlowGraph(fn)
        _cache[fn.id] = g
    return g
