"""wfa: static analysis of Nashtare/winterfell over MIR facts dumped by the wf-facts rustc driver."""
