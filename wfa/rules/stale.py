"""Shared helper: a chunk of variable length copied into a staging buffer that lives across loop iterations.

`buf[..chunk.len()].copy_from_slice(chunk)` leaves whatever the previous iteration wrote behind the end of a shorter chunk. Every such
copy (destination: a prefix of non-constant length of a local byte buffer, array or vector) must be preceded, on every path from the
loop's `next()` to the copy, by a whole-buffer re-initialisation (`buf = [0; N]`, `vec![0; n]`, `buf.fill(0)`), unless the buffer is
created inside the loop."""
from ..cfg import T, S, must_between, single_def
from ..ir import callee_name, op_local, const_int


def _chase(f, l, want):
    """follow plain copies / borrows from local l; return the first local satisfying want(), or None"""
    for _ in range(8):
        if l is None:
            return None
        if want(l):
            return l
        d = single_def(f, l)
        if d is None or d[1] == "T":
            return None
        rv = d[2]["rv"]
        if rv["k"] == "ref":
            l = rv["p"]["l"]
        elif rv["k"] in ("use", "cast"):
            l = op_local(rv["a"])
        else:
            return None
    return None


def short_copy_sites(f):
    """[(block of the copy, buffer local, re-initialised on every path since the chunk was fetched)]"""
    def is_buf(l):
        ty = f.local_ty(l).replace(" ", "")
        return ty.startswith("[u8;") or ty.startswith("alloc::vec::Vec<u8")
    nexts = [(b, T) for b, t in f.calls() if (callee_name(t) or "").endswith("Iterator::next")]
    out = []
    for b, t in f.calls():
        if not (callee_name(t) or "").endswith("slice::copy_from_slice") or len(t["args"]) != 2:
            continue
        d = single_def(f, op_local(t["args"][0]))
        hops = 0
        while d is not None and d[1] != "T" and d[2]["rv"]["k"] in ("use", "ref") and hops < 6:
            src = d[2]["rv"].get("a") or {"copy": {"l": d[2]["rv"]["p"]["l"]}}
            d = single_def(f, op_local(src))
            hops += 1
        if d is None or d[1] != "T" or not (callee_name(d[2]) or "").endswith("IndexMut::index_mut"):
            continue
        it = d[2]
        arr = _chase(f, op_local(it["args"][0]), is_buf)
        if arr is None:
            continue
        rl = op_local(it["args"][1])
        rd = single_def(f, rl) if rl is not None else None
        if rd is None or rd[1] == "T" or rd[2]["rv"]["k"] != "agg":
            continue
        adt = str(rd[2]["rv"].get("adt") or "")
        ops = rd[2]["rv"]["ops"]
        end = ops[0] if adt.endswith("RangeTo") and len(ops) == 1 else (ops[1] if adt.endswith("::Range") and len(ops) == 2 else None)
        if end is None or const_int(end) is not None:
            continue     # a copy of constant length overwrites the same bytes every time
        # is the copy inside a loop at all, and does the buffer live across iterations?
        from ..cfg import reach
        in_loop = (b, S) in reach(f, [(b, T)], include_starts=False)
        if not in_loop:
            continue
        inits = [(zb, S) for zb, zi, zs in f.assigns() if zs["lhs"]["l"] == arr and not zs["lhs"].get("p") and zs["rv"]["k"] in ("repeat", "agg")]
        inits += [(zb, T) for zb, zt in f.calls() if zt["dest"]["l"] == arr and "p" not in zt["dest"]
                  and (callee_name(zt) or "").endswith(("vec::from_elem", "Vec::with_capacity", "Vec::new"))]
        for zb, zt in f.calls():
            if (callee_name(zt) or "").endswith(("slice::fill", "Vec::clear", "Vec::fill")) and zt["args"]:
                if _chase(f, op_local(zt["args"][0]), lambda l: l == arr) == arr:
                    inits.append((zb, T))
        ok = bool(inits) and bool(nexts) and must_between(f, nexts, inits, [(b, T)])[0]
        out.append((b, arr, ok))
    return out


def unsorted_dedup_sites(prog, select):
    """[(fn, block, sorted_before)] for every `Vec::dedup*` call in the selected functions: `dedup` removes ADJACENT duplicates only, so it
    computes the set of distinct values (and `last()` the maximum) only for a vector that was sorted — on every path from the entry a sort
    of the same vector precedes it, or the vector was collected from an ordered collection"""
    from ..flow import flow
    out = []
    for f in prog.fns.values():
        if not f.blocks or not select(f):
            continue
        g = None
        for b, t in f.calls():
            cn = callee_name(t) or ""
            if not cn.endswith(("Vec::dedup", "Vec::dedup_by_key", "Vec::dedup_by")) or not t["args"]:
                continue
            g = g or flow(f)
            v = _chase(f, op_local(t["args"][0]), lambda l: f.local_ty(l).replace(" ", "").startswith("alloc::vec::Vec<"))
            sorts = []
            for sb, stt in f.calls():
                scn = callee_name(stt) or ""
                if scn.endswith(("slice::sort", "slice::sort_unstable", "slice::sort_by", "slice::sort_by_key", "slice::sort_unstable_by",
                                 "slice::sort_unstable_by_key")) and stt["args"]:
                    w = g.walk(ops=stt["args"][:1], at=(sb, T), through=lambda tt: (callee_name(tt) or "").endswith(("Deref::deref", "DerefMut::deref_mut")))
                    sl = _chase(f, op_local(stt["args"][0]), lambda l: l == v)
                    refs = {n for n in w}
                    if sl == v or v in {x for x in _locals_in_walk(f, g, stt["args"][0], sb)}:
                        sorts.append((sb, T))
            ordered_src = False
            if v is not None:
                w = g.walk(ops=[{"copy": {"l": v}}], at=(b, T), through=lambda tt: True)
                ordered_src = any(n.endswith(("BTreeSet::into_iter", "BTreeSet::iter", "BTreeMap::keys", "BTreeMap::into_keys", "BTreeMap::values")) for n in g.callee_names_in(w))
            ok = ordered_src or (bool(sorts) and must_between(f, None, sorts, [(b, T)])[0])
            out.append((f, b, ok))
    return out


def _locals_in_walk(f, g, op, b):
    """locals reachable from op through borrows and derefs (which vector a `&mut [T]` argument views)"""
    seen, work = set(), [op_local(op)]
    while work:
        l = work.pop()
        if l is None or l in seen:
            continue
        seen.add(l)
        d = single_def(f, l)
        if d is None:
            continue
        if d[1] == "T":
            cn = callee_name(d[2]) or ""
            if cn.endswith(("Deref::deref", "DerefMut::deref_mut", "Vec::as_mut_slice", "Vec::as_slice")) and d[2]["args"]:
                work.append(op_local(d[2]["args"][0]))
            continue
        rv = d[2]["rv"]
        if rv["k"] == "ref":
            work.append(rv["p"]["l"])
        elif rv["k"] in ("use", "cast"):
            work.append(op_local(rv["a"]))
    return seen
