"""C12 — serialization round trip: writer/reader token grammars agree for every type that implements both
Serializable and Deserializable (engine E7); narrowing casts in writers are covered by the constructors' limits;
constructor and reader limits agree for TraceInfo (E2 decisions)."""
from ..cfg import T, S, reach, trace_cond, FLIP
from ..flow import flow
from ..guards import MustGuards
from ..ir import Program, callee_name, AnchorError, op_local, const_int
from ..serde_grammar import path_sequences, show_seq, SER, DES

UMAX = {"u8": 2**8 - 1, "u16": 2**16 - 1, "u32": 2**32 - 1}


def run(ck):
    prog = Program("default")
    ck.analysed["configs"].add("default")
    ck.explanation = (
        "(S1) for every workspace type with both a Serializable and a Deserializable impl (38 types, including the generic impls "
        "for integers, tuples, arrays, Option, Vec, maps, sets and String) the set of token sequences of write_into over all "
        "acyclic paths equals the set of token sequences of read_from over all paths to an Ok return: fixed-width runs are compared "
        "by total byte width, variable-length size tokens, byte strings, nested values and repetitions must align one to one "
        "(zero-length byte strings and empty repetitions are optional on both sides). A one-sided change of width or order — which "
        "no test would notice for Proof, whose round trip is exercised by no test — is reported. (S2) every narrowing cast of a "
        "length or width in a writer is covered by a limit that the type's constructor asserts (constant compared by value), and "
        "TraceInfo's reader accepts exactly what its constructor accepts for the three limits duplicated between them. Value equality "
        "after decoding and reader-implementation independence (C07, C13) are not decided here."
    )
    ck.rule("S1", "writer token grammar == reader token grammar (per type, over all paths)")
    ck.rule("S2", "narrowing casts in writers are covered by constructor limits; constructor limits == reader limits")
    ser = {}
    de = {}
    for im in prog.impls:
        if im["crate"] == "examples":
            continue
        if im.get("trait") == SER:
            ser[im["self_ty"]] = im
        if im.get("trait") == DES:
            de[im["self_ty"]] = im
    both = sorted(set(ser) & set(de))
    ck.floor("types with both impls", len(both), 38)
    for t in both:
        w = [prog.fns[it["id"]] for it in ser[t]["items"] if it["name"] == "write_into"][0]
        r = [prog.fns[it["id"]] for it in de[t]["items"] if it["name"] == "read_from"][0]
        ck.saw(w, r)
        try:
            pw = path_sequences(prog, w, "w")
            pr = path_sequences(prog, r, "r")
        except RuntimeError as e:
            ck.ob("S1", f"grammar:{t}", False, f"{t}: token grammar could not be extracted ({e})", loc=w.loc())
            continue
        ok = pw == pr
        ck.ob("S1", f"grammar:{t}", ok,
              f"{t}: write_into emits {sorted(show_seq(x) for x in pw)}; read_from consumes the same token sequences", loc=r.loc(),
              detail=None if ok else f"writer: {sorted(show_seq(x) for x in pw)}  reader: {sorted(show_seq(x) for x in pr)}")
    cast_limits(ck, prog, ser)
    traceinfo_limits(ck, prog)
    ck.control("u16 and u32 length prefixes are different tokens", ("fixed", 2, "") != ("fixed", 4, ""))


def panic_conditions(fn):
    """[(cond, holds)] — comparisons that must hold (holds=True) / must not hold for fn not to diverge into a panic"""
    res = []
    rets = {(b, T) for b, blk in enumerate(fn.blocks) if blk["t"]["k"] == "return"}
    for b, blk in enumerate(fn.blocks):
        t = blk["t"]
        if t["k"] != "switch":
            continue
        c = trace_cond(fn, t["d"])
        if c.kind != "cmp":
            continue
        listed = [v for v, _ in t["targets"]]
        edges = [(v != "0", tb) for v, tb in t["targets"]] + ([(True, t["otherwise"])] if listed == ["0"] else [])
        for truth, tb in edges:
            r = reach(fn, [(tb, S)])
            if not (rets & r):
                res.append((b, c, not truth))
    return res


def cast_limits(ck, prog, ser):
    """For TraceInfo (the only type whose writer narrows fields that a public constructor bounds by named limits):
    each `x as uN` in write_into is covered by a constructor assertion `x <= K` with K <= uN::MAX."""
    adt = "winter_air::air::trace_info::TraceInfo"
    w = prog.impl_method(adt, SER, "write_into")
    ctor = prog.fn(adt + "::new_multi_segment")
    ck.saw(w, ctor)
    gw = flow(w)
    gc = flow(ctor)
    # constructor bounds: field -> max (from `param(.len()) <= CONST`)
    bounds = {}
    for b, c, holds in panic_conditions(ctor):
        for op, l, r in ((c.op, c.lhs, c.rhs), (FLIP[c.op], c.rhs, c.lhs)):
            k = r.get("const")
            if k is None or "scalar" not in k:
                continue
            kv = int(k["scalar"])
            lw = gc.walk(ops=[l], at=c.node)
            names = {ctor.local_name(p) for p in gc.params_in(lw)} | {ctor.local_name(nd[1]) for nd in lw if nd[0] == "p"}
            o = op if holds else {"<": ">=", "<=": ">", ">": "<=", ">=": "<", "==": "!=", "!=": "=="}[op]
            if o == "<=":
                ub = kv
            elif o == "<":
                ub = kv - 1
            else:
                continue
            for nme in names:
                if nme:
                    bounds[nme] = min(bounds.get(nme, 10**30), ub)
    n = 0
    for b, i, s in w.assigns():
        rv = s["rv"]
        if rv["k"] == "cast" and rv["ck"] == "IntToInt" and rv["to"] in UMAX and rv["from"] in ("usize", "u64", "u32", "u16"):
            sw = gw.walk(ops=[rv["a"]], at=(b, i))
            flds = sorted(f for a, f in gw.fields_in(sw) if a == adt)
            if not flds:
                continue
            if any(nm.endswith("ilog2") for nm in gw.callee_names_in(sw)):
                continue  # log2 of a usize is < 64
            n += 1
            cover = None
            # constructor parameters are named after the fields; the total-width limit covers both segment widths
            for f in flds:
                cands = [f, f.replace("_segment_width", "_segment_width")]
                for cnd in cands:
                    if cnd in bounds:
                        cover = bounds[cnd] if cover is None else min(cover, bounds[cnd])
            if cover is None and any("segment_width" in f for f in flds):
                # full_width = main + aux <= MAX_TRACE_WIDTH bounds each summand
                for nme, ub in bounds.items():
                    if nme in ("full_width",) or nme is None:
                        cover = ub
                fw = [ub for (bb, c, holds) in panic_conditions(ctor) for ub in [_full_width_bound(ctor, gc, c, holds)] if ub is not None]
                if fw:
                    cover = min(fw)
            ok = cover is not None and cover <= UMAX[rv["to"]]
            ck.ob("S2", f"TraceInfo:cast:{'/'.join(flds)}:as-{rv['to']}", ok,
                  f"TraceInfo::write_into narrows `{'/'.join(flds)}` to {rv['to']}; the constructor limits it to {cover} <= {UMAX[rv['to']]}",
                  loc=w.loc(b, i))
    ck.floor("narrowing casts in TraceInfo::write_into", n, 4)


def _full_width_bound(ctor, gc, c, holds):
    for op, l, r in ((c.op, c.lhs, c.rhs), (FLIP[c.op], c.rhs, c.lhs)):
        k = r.get("const")
        if k is None or "scalar" not in k:
            continue
        lw = gc.walk(ops=[l], at=c.node)
        names = {ctor.local_name(p) for p in gc.params_in(lw)}
        if {"main_segment_width", "aux_segment_width"} <= names:
            o = op if holds else {"<": ">=", "<=": ">", ">": "<=", ">=": "<", "==": "!=", "!=": "=="}[op]
            if o == "<=":
                return int(k["scalar"])
            if o == "<":
                return int(k["scalar"]) - 1
    return None


def traceinfo_limits(ck, prog):
    adt = "winter_air::air::trace_info::TraceInfo"
    ctor = prog.fn(adt + "::new_multi_segment")
    rd = prog.impl_method(adt, DES, "read_from")
    gc = flow(ctor)
    gr = flow(rd)
    mg = MustGuards(prog)
    rg = [g for g in mg.of(rd) if g.fn is rd and g.kind == "switch" and g.cond.kind == "cmp"]
    # (1) total width: constructor requires main+aux <= K  <=> reader rejects iff main+aux > K
    kc = None
    for b, c, holds in panic_conditions(ctor):
        v = _full_width_bound(ctor, gc, c, holds)
        if v is not None:
            kc = v
    kr = None
    for g in rg:
        for op, l, r in ((g.cond.op, g.cond.lhs, g.cond.rhs), (FLIP[g.cond.op], g.cond.rhs, g.cond.lhs)):
            k = r.get("const")
            if k is None or "scalar" not in k or not (k.get("def") or "").endswith("MAX_TRACE_WIDTH"):
                continue
            if op == ">":
                kr = int(k["scalar"])
            elif op == ">=":
                kr = int(k["scalar"]) - 1
    ck.ob("S2", "TraceInfo:limit:full-width", kc is not None and kc == kr,
          f"TraceInfo: the constructor accepts a total width up to {kc}; read_from accepts up to {kr}", loc=rd.loc())
    # (2) random elements: the reader rejects exactly the counts the constructor refuses
    from ..cfg import guards as local_guards
    from ..guards import accept_nodes

    def named_root(fn, g, op, at):
        l = op_local(op, pure=True)
        for _ in range(8):
            if l is None:
                return None
            if fn.local_name(l):
                return fn.local_name(l)
            ds = [d for d in g.reaching(l, at[0], g._pos(*at)) if d.kind == "assign" and d.stmt["k"] == "assign" and d.stmt["rv"]["k"] in ("use", "cast")]
            if len(ds) != 1:
                return None
            at = (ds[0].b, ds[0].i)
            l = op_local(ds[0].stmt["rv"]["a"], pure=True)
        return None

    def controlling(fn, g, block):
        """(variable, op, const) of a comparison one edge of which is the only way to reach `block`"""
        out = set()
        for b, blk in enumerate(fn.blocks):
            t = blk["t"]
            if t["k"] != "switch" or b == block:
                continue
            c = trace_cond(fn, t["d"])
            if c.kind != "cmp":
                continue
            listed = [v for v, _ in t["targets"]]
            edges = [(v != "0", tb) for v, tb in t["targets"]] + ([(True, t["otherwise"])] if listed == ["0"] else [])
            for truth, tb in edges:
                others = [x for tr, x in edges if x != tb]
                r = reach(fn, [(0, S)], avoid=frozenset([(tb, S)]))
                if (block, S) not in r and (block, T) not in r:
                    nm = named_root(fn, g, c.lhs, c.node)
                    k = (c.rhs.get("const") or {}).get("scalar")
                    op = c.op if truth else {"<": ">=", "<=": ">", ">": "<=", ">=": "<", "==": "!=", "!=": "=="}[c.op]
                    out.add((nm, op, k))
        return out
    want = set()
    for b, c, holds in panic_conditions(ctor):
        nm = named_root(ctor, gc, c.lhs, c.node)
        if nm != "num_aux_segment_rands":
            continue
        k = (c.rhs.get("const") or {}).get("scalar")
        refuse = c.op if not holds else {"<": ">=", "<=": ">", ">": "<=", ">=": "<", "==": "!=", "!=": "=="}[c.op]
        ctl = frozenset(x for x in controlling(ctor, gc, b) if x[0] == "aux_segment_width")
        want.add((refuse, k, ctl))
    got = set()
    for g in local_guards(rd, okset=set(accept_nodes(rd))):
        if g.cond.kind != "cmp":
            continue
        nm = named_root(rd, gr, g.cond.lhs, g.cond.node)
        if nm != "num_aux_segment_rands":
            continue
        k = (g.cond.rhs.get("const") or {}).get("scalar")
        ctl = frozenset(x for x in controlling(rd, gr, g.block) if x[0] == "aux_segment_width")
        got.add((g.cond.op, k, ctl))
    ck.ob("S2", "TraceInfo:limit:aux-rands", want == got and bool(want),
          "TraceInfo::read_from rejects exactly the random-element counts that the constructor refuses (same comparison, same constant, "
          "under the same condition on the auxiliary width)", loc=rd.loc(),
          detail=f"constructor refuses {sorted((a, b, sorted(c)) for a, b, c in want)}; reader rejects {sorted((a, b, sorted(c)) for a, b, c in got)}")
