"""C12 — serialization round trip: writer/reader token grammars agree for every type that implements both
Serializable and Deserializable (engine E7); narrowing casts in writers are covered by the constructors' limits;
constructor and reader limits agree for TraceInfo (E2 decisions)."""
from ..cfg import T, S, reach, trace_cond, FLIP
from ..flow import flow
from ..guards import MustGuards
from ..ir import Program, callee_name, AnchorError, op_local, const_int
from ..serde_grammar import path_sequences, show_seq, SER, DES

UMAX = {"u8": 2**8 - 1, "u16": 2**16 - 1, "u32": 2**32 - 1}


def run(ck):
    prog = Program("default")
    ck.analysed["configs"].add("default")
    ck.explanation = (
        "(S1) for every workspace type with both a Serializable and a Deserializable impl (38 types, including the generic impls "
        "for integers, tuples, arrays, Option, Vec, maps, sets and String) the set of token sequences of write_into over all "
        "acyclic paths equals the set of token sequences of read_from over all paths to an Ok return: fixed-width runs are compared "
        "by total byte width, variable-length size tokens, byte strings, nested values and repetitions must align one to one "
        "(zero-length byte strings and empty repetitions are optional on both sides; the grammar of private helpers the stream is handed "
        "to is spliced in). A one-sided change of width or order — which no test would notice for Proof, whose round trip is "
        "exercised by no test — is reported. (S2, engine E4) for TraceInfo, whose three shape parameters travel as single bytes and whose "
        "limits are duplicated between constructor and reader: every accepting path of the constructor and every Ok path of the reader "
        "is a box (interval per parameter plus the sum constraints the path established); the two unions of boxes are compared on the "
        "grid of critical values, which decides their equality independently of how either side spells or factors its checks; and the "
        "writer, analysed on the join of everything the constructor can return, narrows no value that does not fit. Value equality "
        "after decoding and reader-implementation independence (C07, C13) are not decided here."
    )
    ck.rule("S1", "writer token grammar == reader token grammar (per type, over all paths)")
    ck.rule("S2", "TraceInfo: the set of (main width, aux width, aux rands) accepted by read_from equals the set accepted by the constructor; "
                  "every value the constructor accepts fits the integer width the writer narrows it to")
    ser = {}
    de = {}
    for im in prog.impls:
        if im["crate"] == "examples":
            continue
        if im.get("trait") == SER:
            ser[im["self_ty"]] = im
        if im.get("trait") == DES:
            de[im["self_ty"]] = im
    both = sorted(set(ser) & set(de))
    ck.floor("types with both impls", len(both), 38)
    for t in both:
        w = [prog.fns[it["id"]] for it in ser[t]["items"] if it["name"] == "write_into"][0]
        r = [prog.fns[it["id"]] for it in de[t]["items"] if it["name"] == "read_from"][0]
        ck.saw(w, r)
        try:
            pw = path_sequences(prog, w, "w")
            pr = path_sequences(prog, r, "r")
        except RuntimeError as e:
            ck.ob("S1", f"grammar:{t}", False, f"{t}: token grammar could not be extracted ({e})", loc=w.loc())
            continue
        ok = pw == pr
        ck.ob("S1", f"grammar:{t}", ok,
              f"{t}: write_into emits {sorted(show_seq(x) for x in pw)}; read_from consumes the same token sequences", loc=r.loc(),
              detail=None if ok else f"writer: {sorted(show_seq(x) for x in pw)}  reader: {sorted(show_seq(x) for x in pr)}")
    accepted_sets(ck, prog)
    from . import width
    width.run(ck, prog, standalone=True)   # `for every serializable value`: winter-fri's FriProof on its own, too
    vint_rule(ck, prog)
    ck.control("u16 and u32 length prefixes are different tokens", ("fixed", 2, "") != ("fixed", 4, ""))


# ---- S2: accepted sets (engine E4) -------------------------------------------------------------------

def _boxes(accepts, tags_of):
    """accepting paths as boxes: [(intervals per variable, [(i, j, lo, hi) sum constraints])]"""
    out = []
    for rv, facts in accepts:
        vals = tags_of(rv)
        if vals is None:
            continue
        iv, tags = [], []
        for v in vals:
            t = v.get("s")
            tags.append(t)
            f = facts.get(t) if t is not None else None
            lo, hi = (max(v["lo"], f[0]), min(v["hi"], f[1])) if f else (v["lo"], v["hi"])
            iv.append((lo, hi))
        sums = []
        for k, f in facts.items():
            if isinstance(k, tuple) and k[0] == "Add" and k[1] in tags and k[2] in tags:
                sums.append((tags.index(k[1]), tags.index(k[2]), f[0], f[1]))
        out.append((iv, sums))
    return out


def _member(pt, boxes):
    for iv, sums in boxes:
        if all(lo <= x <= hi for x, (lo, hi) in zip(pt, iv)) and all(lo <= pt[i] + pt[j] <= hi for i, j, lo, hi in sums):
            return True
    return False


def _critical(boxes_list, nvar, lo=0, hi=255):
    vals = [set([lo, lo + 1, hi - 1, hi]) for _ in range(nvar)]
    ks = set()
    for boxes in boxes_list:
        for iv, sums in boxes:
            for i, (a, b) in enumerate(iv):
                vals[i] |= {a - 1, a, a + 1, b - 1, b, b + 1}
            for i, j, a, b in sums:
                ks |= {a, b}
    for _ in range(2):
        for k in ks:
            for i in range(nvar):
                for c in list(vals[i]):
                    for o in range(nvar):
                        if o != i:
                            vals[o] |= {k - c - 1, k - c, k - c + 1}
    return [sorted(x for x in v if lo <= x <= hi) for v in vals]


def accepted_sets(ck, prog):
    """The three shape parameters of a TraceInfo travel as single bytes. With E4 every accepting path of the constructor and every Ok path
    of the reader is a box (interval per parameter plus the sum constraints the path established); the two unions of boxes are compared
    on the grid of all critical values (endpoints, neighbours, and their reflections through the sum bounds), which decides equality of
    such sets. The comparison does not depend on how either side spells or factors its checks."""
    from ..ranges import Analyzer, mk, top, top_ty
    adt = "winter_air::air::trace_info::TraceInfo"
    ctor = prog.fn(adt + "::new_multi_segment")
    rd = prog.impl_method(adt, DES, "read_from")
    wr = prog.impl_method(adt, SER, "write_into")
    ck.saw(ctor, rd, wr)
    names = prog.adt_fields(adt)[:3]
    an = Analyzer(prog, max_depth=6, opaque=lambda fn: fn.crate != "winter_air")
    an.split_shifts = True
    cargs = [mk(0, 255, False), mk(0, 255, False), mk(0, 255, False)] + [top_ty(t, False) for t in ctor.get("inputs")[3:]]
    sc = an.analyze(ctor, cargs)
    cb = _boxes(sc.accepts, lambda rv: [rv["f"][i] for i in range(3)] if rv["k"] == "agg" and all(rv["f"].get(i, {}).get("k") == "int" for i in range(3)) else None)
    an2 = Analyzer(prog, max_depth=8, opaque=lambda fn: fn.crate not in ("winter_air", "winter_utils"))
    an2.split_shifts = True   # case splits on stored comparisons
    sr = an2.analyze(rd, [top(True)], (), {"R": "winter_utils::serde::byte_reader::SliceReader"})

    def ok_fields(rv):
        if rv["k"] != "enum" or 0 not in rv["v"]:
            return None
        ti = rv["v"][0]["f"].get(0)
        if not ti or ti["k"] != "agg" or not all(ti["f"].get(i, {}).get("k") == "int" for i in range(3)):
            return None
        return [ti["f"][i] for i in range(3)]
    rb = _boxes(sr.accepts, ok_fields)
    if not cb or not rb:
        raise AnchorError(f"TraceInfo: accepting paths not found (constructor {len(cb)}, reader {len(rb)})")
    ck.stats["TraceInfo accepting paths (ctor/reader)"] = (len(cb), len(rb))
    grid = _critical([cb, rb], 3)
    only_c, only_r, n = [], [], 0
    for m in grid[0]:
        for a in grid[1]:
            for r in grid[2]:
                n += 1
                ic, ir = _member((m, a, r), cb), _member((m, a, r), rb)
                if ic and not ir and len(only_c) < 3:
                    only_c.append((m, a, r))
                if ir and not ic and len(only_r) < 3:
                    only_r.append((m, a, r))
    ck.stats["TraceInfo critical points compared"] = n
    ck.ob("S2", "TraceInfo:reader-accepts-all-constructible", not only_c,
          f"every ({', '.join(names)}) the constructor accepts is accepted by read_from ({n} critical combinations compared)", loc=rd.loc(),
          detail=None if not only_c else f"constructible but rejected when read back, e.g. {only_c}")
    ck.ob("S2", "TraceInfo:reader-accepts-only-constructible", not only_r,
          f"read_from accepts no ({', '.join(names)}) that the constructor refuses (it would panic in the constructor it ends with)", loc=rd.loc(),
          detail=None if not only_r else f"accepted by the reader but refused by the constructor, e.g. {only_r}")
    # writer: analysed on the join of everything the constructor can return (all parameters unconstrained this time): no narrowing
    # cast in write_into may receive a value outside its target type
    from ..ranges import with_path_facts, join, report_sites
    an3 = Analyzer(prog, max_depth=6, opaque=lambda fn: fn.crate != "winter_air")
    s3 = an3.analyze(ctor, [top_ty(t, False) for t in ctor.get("inputs")])
    selfv = None
    for rv, facts in s3.accepts:
        facts = dict(facts)
        # x + y <= K with unsigned x, y bounds each of them by K (minus the other's lower bound)
        utags = {v.get("s") for v in rv["f"].values() if v["k"] == "int" and v["lo"] >= 0 and v.get("s") is not None} if rv["k"] == "agg" else set()
        for k, f in list(facts.items()):
            if isinstance(k, tuple) and k[0] == "Add" and k[1] in utags and k[2] in utags:
                for me, other in ((k[1], k[2]), (k[2], k[1])):
                    olo = max(0, facts[other][0]) if other in facts else 0
                    cur = facts.get(me, (0, 2**64 - 1, False))
                    facts[me] = (cur[0], min(cur[1], f[1] - olo), cur[2] if len(cur) > 2 else False)
        selfv = join(selfv, with_path_facts(rv, facts))
    if selfv is None or selfv["k"] != "agg":
        raise AnchorError("TraceInfo::new_multi_segment: no returning path found")
    an4 = Analyzer(prog, max_depth=6, opaque=lambda fn: fn.crate not in ("winter_air", "winter_utils"))
    an4.check_truncation = True
    s4 = an4.analyze(wr, [selfv, top(False)], (), {"W": "alloc::vec::Vec<u8>"})
    n_tr = 0
    for k, (status, loc) in sorted(an4.site_log.items()):
        if "/Truncation:" not in k or not k.startswith("<" + adt):
            continue
        n_tr += 1
        ck.ob("S2", "TraceInfo:writer-cast:" + k.split("/Truncation:")[1].replace(" ", "_"), status in ("safe",),
              f"TraceInfo::write_into: `{k.split('/Truncation:')[1]}` receives only values the target type can hold, for every value the "
              "constructor can return", loc=loc)
    ck.floor("narrowing casts in TraceInfo::write_into", n_tr, 4)
    ck.control("the comparison distinguishes `sum > 255` from `sum >= 255`",
               _member((255, 0, 0), [([(1, 255), (0, 255), (0, 255)], [(0, 1, 1, 255)])]) and not _member((255, 0, 0), [([(1, 255), (0, 255), (0, 255)], [(0, 1, 1, 254)])]))


# ---- VINT: the variable-length size encoding reserves enough bytes for every value -------------------------------------------------

def vint_rule(ck, prog):
    """`ByteWriter::write_usize` writes `((value << 1 | 1) << (length - 1))` truncated to `length` bytes (7 value bits per byte), or the
    9-byte form. The value survives only if length = 9 or value < 2^(7*length). The function that computes `length` is evaluated by the
    interval engine (E4) on a partition of ALL 64-bit values into 129 classes — {0}, {2^(k-1)} and [2^(k-1)+1, 2^k - 1] for k = 1..64 — on
    which `leading_zeros`, `next_power_of_two`, `trailing_zeros`, shifts and divisions by constants are exact or monotone; a class whose
    result is a single length that is too small is a violation with that class as the witness (an exact power of two, typically: the
    bit length is one more than the logarithm), a class whose result is not a single value is not decided."""
    from ..ranges import Analyzer, mk
    ck.rule("VINT", "write_usize: for every 64-bit value the encoded length is 9 or at least ceil(bit length / 7) (and between 1 and 9); "
                    "decided on a partition of all values into 129 bit-length classes")
    BW = "winter_utils::serde::byte_writer::ByteWriter"
    wu = [f for f in prog.fns.values() if f.nname.endswith("ByteWriter::write_usize") and f.crate == "winter_utils" and f.blocks]
    if not wu:
        raise AnchorError("ByteWriter::write_usize not found")
    wu = wu[0]
    ck.saw(wu)
    cands = []
    for b, t in wu.calls():
        fs, precise = prog.resolve_call(t)
        for h in fs:
            ins = h.get("inputs") or []
            if precise and h.crate == "winter_utils" and len(ins) == 1 and ins[0] in ("u64", "usize") and (h.get("output") or "") in ("usize", "u64", "u32", "u8"):
                cands.append(h)
    if len(cands) != 1:
        ck.note(f"VINT: the length computation of write_usize is not a single helper function ({len(cands)} candidates); not decided")
        return
    lf = cands[0]
    ck.saw(lf)

    def classes():
        yield 0, 0
        for k in range(1, 65):
            lo, hi = 1 << (k - 1), (1 << k) - 1
            yield lo, lo
            if hi > lo:
                yield lo + 1, hi
    decided, undecided, bad = 0, 0, []
    for lo, hi in classes():
        an = Analyzer(prog, max_depth=4)
        try:
            s = an.analyze(lf, [mk(lo, hi, False)])
        except Exception as e:   # the engine could not follow the function: nothing is claimed
            ck.note(f"VINT: {lf.nname} could not be evaluated ({type(e).__name__}); not decided")
            return
        rets = [rv for rv, _ in s.accepts if rv.get("k") == "int"]
        if not rets:
            undecided += 1
            continue
        rlo, rhi = min(r["lo"] for r in rets), max(r["hi"] for r in rets)
        fits = (rlo >= 9 or hi < (1 << (7 * max(rlo, 0)))) and 1 <= rlo and rhi <= 9
        if fits:
            decided += 1
        elif rlo == rhi:
            decided += 1
            bad.append((lo, hi, rlo))
        else:
            undecided += 1
    ck.stats["VINT classes (decided / not decided)"] = (decided, undecided)
    if undecided:
        ck.note(f"VINT: {undecided} of 129 value classes have no single encoded length in the interval domain; those classes are not decided")
    w = bad[0] if bad else None
    ck.ob("VINT", "write_usize:length-holds-value", not bad,
          f"{lf.nname.split('::')[-1]}: on each of {decided} bit-length classes covering the values it decides, the encoded length is 9 or holds the "
          "value in 7 bits per byte", loc=lf.loc(),
          detail=None if not bad else f"value {w[0]} (= 2^{w[0].bit_length() - 1}{'' if w[0] == w[1] else ' + ..'}, {w[0].bit_length()} bits) gets {w[2]} byte(s) = "
                                      f"{7 * w[2]} value bits; {len(bad)} classes fail: {[(a.bit_length(), c) for a, b, c in bad][:8]} (bit length, bytes)")
    # floor on the classes EXAMINED: classes the interval domain cannot decide are a note, not a broken check
    ck.floor("VINT: value classes examined", decided + undecided, 129)
