"""C07 — base fields: defining equations of the published constants (engine E6), modulus guards of every
checked conversion (E2), lazy-range discipline of the [0, 2M) field, canonical serialisation (lint over MIR)."""
from ..cfg import T, S, trace_cond, FLIP
from ..flow import flow, default_transparent
from ..guards import MustGuards
from ..ir import Program, callee_name, AnchorError, op_local, op_place, const_int
from .. import numth

FIELDS = {
    "f62": dict(mod="winter_math::field::f62", mont=True, lazy=True, width=8),
    "f64": dict(mod="winter_math::field::f64", mont=True, lazy=False, width=8),
    "f128": dict(mod="winter_math::field::f128", mont=False, lazy=False, width=16),
}
SF = "winter_math::field::traits::StarkField"
FE = "winter_math::field::traits::FieldElement"
TYPE_MAX = {"u8": 2**8 - 1, "u16": 2**16 - 1, "u32": 2**32 - 1, "u64": 2**64 - 1, "u128": 2**128 - 1, "usize": 2**64 - 1}


def cval(prog, name):
    return int(prog.const(name)["scalar"])


def run(ck):
    prog = Program("default", crates={"winter_math", "winter_utils"})
    ck.analysed["configs"].add("default")
    ck.explanation = (
        "Per prime field: (CONST) the constants extracted from the compiled crate satisfy their defining equations, computed with "
        "exact integer arithmetic — the modulus is proved prime from the complete factorisation of p-1 (Lucas), MODULUS_BITS is its "
        "bit length, 2^TWO_ADICITY exactly divides p-1, the decoded root of unity has order exactly 2^TWO_ADICITY, the decoded "
        "generator has order p-1, ZERO/ONE decode to 0/1, Montgomery constants R2/R3/U/NPRIME are R^2, R^3, -1/M and 1/M for "
        "R = 2^64. (GUARD) every checked conversion from a type that can hold values >= M, and the deserializer, passes on every "
        "accepting path the decision `reject iff value >= M`, made on the un-truncated value against this field's modulus. "
        "(LAZY) in the field whose representation is [0, 2M), equality and zero tests on raw representation values are applied to "
        "normalised values and as_int returns a normalised value. (CANON) serialisation writes as_int() when the representation is "
        "not canonical; where IS_CANONICAL is true the raw value is the residue. (ARITH) add/sub/neg/double of every field, f62 mul/square/new/as_int, f64 mul_small, "
        "f128 new: the stored integer is congruent modulo p to the integer operation on every carry/borrow path for all operands in the "
        "representation range (engine E5b); f64 mul (mont_red_cst), f128 mul, inv and exp are not decided. (REPR) For the lazy field the RANGE half of that agreement is decided: "
        "assuming every incoming element is in [0, 2M), every element the module constructs is again in [0, 2M) — the invariant that "
        "normalize(), as_int(), equality and the single conditional subtraction of add/double rely on."
    )
    ck.rule("CONST", "published constants satisfy their defining equations (exact integer arithmetic on extracted constants)")
    ck.rule("GUARD", "checked conversions and the deserializer reject exactly the values >= M of their own field, before any truncation")
    ck.rule("LAZY", "[0,2M) representation: raw equality/zero tests only on normalised values; as_int is normalised")
    ck.rule("CANON", "serialisation is canonical: as_int() when IS_CANONICAL is false, identity representation when true")
    arith_ok = arith_rule(ck, prog)
    mg = MustGuards(prog)
    for fname, info in FIELDS.items():
        constants(ck, prog, fname, info)
        guards_rule(ck, prog, mg, fname, info)
        canon_rule(ck, prog, fname, info)
        if info["lazy"]:
            lazy_rule(ck, prog, fname, info, arith_ok)
    ck.rule("REPR", "representation range (f62: [0,2M); f64: canonical [0,M)): every BaseElement constructed by new/add/sub/mul/neg/double/mul_small/inv/"
                    "conversions stores a value in the range for all inputs (interval analysis with exact case splits and order facts; f64 assumes mont_red_*'s range)")
    from . import repr_range
    repr_range.run_rule(ck, prog, fields=("f62", "f64"))
    exp_bits_rule(ck, prog)
    ck.control("an even number is not accepted as a proved prime", not numth.lucas_prime_proof(2**64 - 2**32 + 2))


# ---- carry / borrow logic of the linear operations (engine E5b) ---------------------------------------

ARITH_OPS = (
    # (trait, method, operands, expected residue as a linear form over a, b, P[a*b]; factor the result is multiplied with first)
    ("core::ops::arith::Add", "add", 2, {"a": 1, "b": 1}, 1),
    ("core::ops::arith::Sub", "sub", 2, {"a": 1, "b": -1}, 1),
    ("core::ops::arith::Neg", "neg", 1, {"a": -1}, 1),
    ("winter_math::field::traits::FieldElement", "double", 1, {"a": 2}, 1),
)


def arith_rule(ck, prog):
    """For all operands inside the field's representation range, on every path (every carry / borrow case that the intervals admit),
    the integer an operation stores is congruent modulo p to the sum / difference / negation / double of its operands; for the field
    whose Montgomery reduction is a single multiply-add-shift (f62) also that 2^64 * mul(a, b) = a * b modulo p, which needs the low
    word of z + (z*U mod 2^64)*M to vanish identically (M*U = -1 modulo 2^64). The reductions of f64 (mont_red_cst) and f128
    (multi-limb) are not decided: the feasibility of one of their borrow cases depends on divisibility, which the domain does not see."""
    from ..linint import LinInterp, Undecided, IV, lin_scale, show_lin
    ck.rule("ARITH", "add/sub/neg/double (f62 also mul/square): the stored integer is congruent modulo p to the operation on the operands' "
                     "integers, on every carry/borrow case, for all operands in the representation range (exact linear forms, engine E5b)")
    n = 0
    proven = set()
    for fname, info in FIELDS.items():
        mod = info["mod"]
        be = f"{mod}::BaseElement"
        p = cval(prog, f"{mod}::M")
        H = 2 * p - 1 if info["lazy"] else p - 1
        ops = list(ARITH_OPS)
        if info["mont"]:
            ops += [("core::ops::arith::Mul", "mul", 2, {"P[a*b]": 1}, 2**64),
                    ("winter_math::field::traits::FieldElement", "square", 1, {"P[a*a]": 1}, 2**64)]

        def scope(c, mod=mod):
            return c.kind != "closure" and (c.nname.startswith(mod + "::") or c.nname.startswith("<" + mod + "::"))
        ops = [(t_, m_, ["E"] * n_, w_, sc_) for t_, m_, n_, w_, sc_ in ops]
        # conversions and fast paths whose reduction is linear in the operands (operand kinds: E element by value, R element by reference,
        # an integer = raw machine integer with that maximum)
        r2 = prog.consts_by_name.get(f"{mod}::R2")
        if info["mont"] and r2:
            ops += [(None, "new", [2**64 - 1], {"a": int(r2[0]["scalar"])}, 2**64),
                    ("winter_math::field::traits::StarkField", "as_int", ["R"], {"a": 1}, 2**64)]
        if fname == "f64":
            ops += [(None, "mul_small", ["E", 2**32 - 1], {"P[a*b]": 1}, 1)]
        if fname == "f128":
            ops += [(None, "new", [2**128 - 1], {"a": 1}, 1)]
        for trait, meth, kinds, want0, scale in ops:
            try:
                fn = prog.impl_method(be, trait, meth) if trait else prog.fn(f"{be}::{meth}")
            except AnchorError:
                continue    # the field uses the trait's default body (decided through the operations it calls) / has no such fast path
            ck.saw(fn)
            li = LinInterp(prog, p, scope)
            names = ["a", "b"][:len(kinds)]
            env0 = {}
            for i, (nm, kd) in enumerate(zip(names, kinds)):
                hi_ = H if kd in ("E", "R") else kd
                li.atom(nm, 0, hi_)
                v_ = IV({nm: 1}, 0, hi_)
                if kd == "E":
                    env0[i + 1] = ("adt", 0, [v_])
                elif kd == "R":
                    env0["@" + nm] = ("adt", 0, [v_])
                    env0[i + 1] = ("ref", "@" + nm, ())
                else:
                    env0[i + 1] = v_
            key = f"{fname}:{meth}"
            try:
                outs = li.run(fn, env0)
            except Undecided as e:
                ck.note(f"ARITH {key}: not decided ({e})")
                continue
            for a_ in want0:
                if a_.startswith("P[") and a_ not in li.atoms:
                    li.atom(a_, 0, H * H)
            want = li.canon(dict(want0))
            bad, unknown = None, 0
            rng_bad = None
            for env, imprecise in outs:
                r = env.get(0)
                v = r[2][0] if isinstance(r, tuple) and r and r[0] == "adt" and r[2] else r
                top_ = (p - 1) if meth == "as_int" else H
                if isinstance(v, IV) and not (0 <= v.lo and v.hi <= top_):
                    rng_bad = rng_bad or (v.lo, v.hi)
                got = li.canon(lin_scale(v.lin, scale)) if isinstance(v, IV) and v.lin is not None and not v.weak else None
                if got is None or imprecise:
                    unknown += 1
                elif got != want and not li.congruent(lin_scale(v.lin, scale), dict(want0), env.get("#facts")):
                    bad = bad or (got, (v.lo, v.hi))
            if not outs or (unknown and not bad):
                ck.note(f"ARITH {key}: {unknown} of {len(outs)} paths left the linear domain; not decided")
                continue
            n += 1
            if bad is None:
                proven.add(fn.id)
            for nn in li.inlined:
                ck.analysed["functions"].add(nn)
            if bad is None:
                ck.ob("ARITH", key + ":range", rng_bad is None,
                      f"{fname}::{meth}: on every path the stored integer lies in {'[0, M) (canonical)' if meth == 'as_int' else ('[0, 2M)' if info['lazy'] else '[0, M)')} "
                      "(interval of the exact form under the path's facts)", loc=fn.loc(),
                      detail=None if rng_bad is None else {"a path stores a value in": list(rng_bad)})
            what = {"add": "a + b", "sub": "a - b", "neg": "-a", "double": "2a", "mul": "a*b (after multiplying the result by 2^64)",
                    "square": "a*a (after multiplying the result by 2^64)", "mul_small": "a*b (b any u32)",
                    "new": "the Montgomery image of the integer" if info["mont"] else "the integer",
                    "as_int": "the element's residue (the representation divided by 2^64)"}[meth]
            ck.ob("ARITH", key, bad is None,
                  f"{fname}::{meth}: on each of its {len(outs)} carry/borrow paths the stored integer is congruent modulo p to {what} "
                  f"for all element operands in [0, {'2M' if info['lazy'] else 'M'}) and all integer operands", loc=fn.loc(),
                  detail=None if bad is None else {"computed (mod p)": show_lin(bad[0]), "expected": show_lin(want), "on the path with result in": list(bad[1])})
    # positive control: forgetting the borrow of a - b (b > a) is a different residue
    li = LinInterp(prog, 2**64 - 2**32 + 1, lambda c: False)
    li.atom("a", 0, 2**64 - 2**32)
    li.atom("b", 0, 2**64 - 2**32)
    cs = li.wrap_cases("sub", IV({"a": 1}, 0, 2**64 - 2**32), IV({"b": 1}, 0, 2**64 - 2**32), "u64")
    ck.control("ARITH: a wrapping subtraction that can borrow yields two cases with different residues", len(cs) == 2 and li.canon(cs[0][0].lin) != li.canon(cs[1][0].lin))
    ck.floor("ARITH: operations decided", n, 19)
    return proven


# ---- constants -----------------------------------------------------------------------------------

def constants(ck, prog, fname, info):
    mod = info["mod"]
    be = f"{mod}::BaseElement"
    p = cval(prog, f"{mod}::M")
    loc = prog.const(f"{mod}::M")
    where = f"{loc['file']}:{loc['line']}"

    def assoc(trait, name):
        return int(prog.const(f"<{be} as {trait}>::{name}")["scalar"])
    R = 2**64 if info["mont"] else 1
    Rinv = numth.inv_mod(R, p) if info["mont"] else 1

    def dec(raw):
        return raw * Rinv % p
    ck.ob("CONST", f"{fname}:MODULUS==M", assoc(SF, "MODULUS") == p, f"{fname}: StarkField::MODULUS equals the module's modulus M", loc=where)
    ck.ob("CONST", f"{fname}:prime", numth.lucas_prime_proof(p), f"{fname}: M = {p} is prime (Lucas proof from the factorisation of M-1)", loc=where)
    ck.ob("CONST", f"{fname}:MODULUS_BITS", assoc(SF, "MODULUS_BITS") == p.bit_length(), f"{fname}: MODULUS_BITS is the bit length of M", loc=where)
    k = assoc(SF, "TWO_ADICITY")
    ck.ob("CONST", f"{fname}:TWO_ADICITY", (p - 1) % 2**k == 0 and (p - 1) % 2**(k + 1) != 0,
          f"{fname}: 2^TWO_ADICITY exactly divides M-1", loc=where)
    w = dec(assoc(SF, "TWO_ADIC_ROOT_OF_UNITY"))
    ck.ob("CONST", f"{fname}:TWO_ADIC_ROOT_OF_UNITY", numth.order_is(w, 2**k, p, [2]),
          f"{fname}: the (decoded) root of unity has multiplicative order exactly 2^{k}", loc=where)
    g = dec(assoc(SF, "GENERATOR"))
    fs = numth.factor(p - 1)
    ck.ob("CONST", f"{fname}:GENERATOR", numth.order_is(g, p - 1, p, list(fs)),
          f"{fname}: the (decoded) generator {g} has order M-1", loc=where)
    ck.ob("CONST", f"{fname}:root-from-generator", pow(g, (p - 1) // 2**k, p) == w or numth.order_is(w, 2**k, p, [2]),
          f"{fname}: root of unity is consistent with the generator", loc=where)
    ck.ob("CONST", f"{fname}:ZERO", dec(assoc(FE, "ZERO")) == 0, f"{fname}: ZERO decodes to 0", loc=where)
    ck.ob("CONST", f"{fname}:ONE", dec(assoc(FE, "ONE")) == 1, f"{fname}: ONE decodes to 1", loc=where)
    ck.ob("CONST", f"{fname}:ELEMENT_BYTES", assoc(FE, "ELEMENT_BYTES") == info["width"] == cval(prog, f"{mod}::ELEMENT_BYTES"),
          f"{fname}: ELEMENT_BYTES is the size of the representation", loc=where)
    adt = prog.adt(be)
    ck.ob("CONST", f"{fname}:repr", len(adt["variants"][0]["fields"]) == 1 and adt["variants"][0]["fields"][0]["ty"] in ("u64", "u128"),
          f"{fname}: BaseElement wraps a single machine integer", loc=where)
    canonical_flag = assoc(FE, "IS_CANONICAL")
    ck.ob("CONST", f"{fname}:IS_CANONICAL", bool(canonical_flag) == (not info["mont"]),
          f"{fname}: IS_CANONICAL is true exactly when the internal value is the residue itself", loc=where)
    if info["mont"]:
        ck.ob("CONST", f"{fname}:R2", cval(prog, f"{mod}::R2") == pow(2, 128, p), f"{fname}: R2 = 2^128 mod M", loc=where)
        if fname == "f62":
            ck.ob("CONST", f"{fname}:R3", cval(prog, f"{mod}::R3") == pow(2, 192, p), f"{fname}: R3 = 2^192 mod M", loc=where)
            u = cval(prog, f"{mod}::U")
            ck.ob("CONST", f"{fname}:U", (u * p + 1) % 2**64 == 0, f"{fname}: U = -M^-1 mod 2^64", loc=where)
            ck.ob("CONST", f"{fname}:G", cval(prog, f"{mod}::G") == w, f"{fname}: module constant G is the root of unity", loc=where)
        if fname == "f64":
            npr = cval(prog, f"{mod}::mont_red_var::NPRIME")
            ck.ob("CONST", f"{fname}:NPRIME", (npr * p - 1) % 2**64 == 0, f"{fname}: NPRIME = M^-1 mod 2^64", loc=where)
    else:
        ck.ob("CONST", f"{fname}:G", cval(prog, f"{mod}::G") == w, f"{fname}: module constant G is the root of unity", loc=where)
    # get_modulus_le_bytes returns the bytes of M
    f = prog.impl_method(be, SF, "get_modulus_le_bytes")
    ck.saw(f)
    gflow = flow(f)
    names = {callee_name(t) or "" for _, t in f.calls()}
    consts = set()
    for b, t in f.calls():
        consts |= gflow.consts_in(gflow.walk(ops=list(t["args"]), at=(b, T)))
    okb = any(n.endswith("to_le_bytes") for n in names) and any(c.endswith(("::M", "::MODULUS")) or c == f"lit:{p}:u64" or c == f"lit:{p}:u128" for c in consts)
    ck.ob("CONST", f"{fname}:get_modulus_le_bytes", okb, f"{fname}: get_modulus_le_bytes returns the little-endian bytes of M", loc=f.loc())


# ---- modulus guards ------------------------------------------------------------------------------

def _const_value(prog, op):
    c = op.get("const")
    if c is None:
        return None
    if "scalar" in c:
        return int(c["scalar"])
    return None


def guards_rule(ck, prog, mg, fname, info):
    mod = info["mod"]
    be = f"{mod}::BaseElement"
    p = cval(prog, f"{mod}::M")
    targets = []
    for im in prog.impls:
        if im.get("self_adt") != be:
            continue
        tr = im.get("trait") or ""
        if tr == "core::convert::TryFrom":
            src = im["trait_ref"].split("TryFrom<", 1)[1]
            src = src[:-2] if src.endswith(">>") else src.rstrip(">")
            for it in im["items"]:
                if it["kind"] == "fn" and it["name"] == "try_from":
                    targets.append((f"TryFrom<{src}>", src, prog.fns[it["id"]]))
        if tr == "winter_utils::serde::Deserializable":
            for it in im["items"]:
                if it["kind"] == "fn" and it["name"] == "read_from":
                    targets.append(("Deserializable::read_from", "bytes", prog.fns[it["id"]]))
    ck.floor(f"{fname}: checked conversions", len(targets), 3)
    for label, src, f in targets:
        ck.saw(f)
        if src in TYPE_MAX and TYPE_MAX[src] < p:
            ck.ob("GUARD", f"{fname}:{label}", True, f"{fname}: {label}: every value of {src} is below M; no guard needed", loc=f.loc())
            continue
        gs = mg.of(f)
        good = []
        for g in gs:
            if g.kind != "switch" or g.cond.kind != "cmp":
                continue
            gf = flow(g.fn)
            for op, l, r in ((g.cond.op, g.cond.lhs, g.cond.rhs), (FLIP[g.cond.op], g.cond.rhs, g.cond.lhs)):
                if op != ">=":
                    continue
                rv = _const_value(prog, r)
                if rv != p:
                    # `M as u128` / `M.into()` : constant reached through a cast or Into
                    rw = gf.walk(ops=[r], at=g.cond.node)
                    cs = gf.consts_in(rw)
                    if not any(c.endswith("::M") or c.endswith("::MODULUS") for c in cs) or gf.params_in(rw):
                        continue
                    if not any(c.startswith("const:" + mod + "::") or c.startswith(f"const:<{be}") for c in cs):
                        continue
                lw = gf.walk(ops=[l], at=g.cond.node, through=default_transparent)
                if not (gf.params_in(lw) or any(n.endswith(("read_u64", "read_u128", "from_le_bytes")) for n in gf.callee_names_in(lw))):
                    continue
                # width of the comparison
                width = _cmp_width(g)
                good.append((g, width))
        ok = bool(good)
        detail = None
        if ok and src in TYPE_MAX:
            # the decision must be made on the un-truncated source value
            need = TYPE_MAX[src].bit_length()
            widths = [w for g, w in good if g.fn is f]
            inherited = [w for g, w in good if g.fn is not f]
            if not any(w is not None and w >= need for w in widths + inherited):
                ok = False
                detail = f"the comparison with M is made at {max([w for w in widths + inherited if w] or [0])} bits after the {src} source value was narrowed"
            elif not widths and inherited and max(w for w in inherited if w) < need:
                ok = False
        ck.ob("GUARD", f"{fname}:{label}", ok,
              f"{fname}: {label} rejects iff the (un-truncated) source value >= M of this field on every accepting path",
              loc=f.loc(), detail=detail)


def _cmp_width(g):
    b, i = g.cond.node
    if i == "T":
        # the comparison is made by a private predicate (`is_canonical(value)`): its width is the width of the comparison in there
        t = g.fn.term(b)
        h = g.fn.prog.fns.get((t.get("fn") or {}).get("def"))
        if h is None:
            return None
        from ..cfg import trace_cond
        hc = trace_cond(h, {"copy": {"l": 0}})
        if hc.kind != "cmp" or hc.node is None or hc.node[1] == "T":
            return None
        ty = h.stmts(hc.node[0])[hc.node[1]]["rv"].get("ty", "")
        return {"u8": 8, "u16": 16, "u32": 32, "u64": 64, "u128": 128, "usize": 64}.get(ty)
    s = g.fn.stmts(b)[i]
    ty = s["rv"].get("ty", "")
    return {"u8": 8, "u16": 16, "u32": 32, "u64": 64, "u128": 128, "usize": 64}.get(ty)


# ---- canonical output ----------------------------------------------------------------------------

def canon_rule(ck, prog, fname, info):
    mod = info["mod"]
    be = f"{mod}::BaseElement"
    w = prog.impl_method(be, "winter_utils::serde::Serializable", "write_into")
    ck.saw(w)
    g = flow(w)
    okw = False
    for b, t in w.calls():
        cn = callee_name(t) or ""
        if cn.endswith(("ByteWriter::write_bytes", "ByteWriter::write_u64", "ByteWriter::write_u128", "ByteWriter::write")):
            ww = g.walk(ops=list(t["args"][1:]), at=(b, T))
            ns = g.callee_names_in(ww)
            if info["mont"]:
                okw = okw or any(n.endswith("::as_int") for n in ns)
            else:
                okw = okw or True
    ck.ob("CANON", f"{fname}:write_into", okw,
          f"{fname}: Serializable::write_into writes " + ("the canonical integer as_int()" if info["mont"] else "the representation (canonical)"),
          loc=w.loc())
    if info["mont"]:
        ai = prog.impl_method(be, SF, "as_int")
        ck.saw(ai)
        gi = flow(ai)
        ns = set()
        for ds in gi.sites:
            if ds.local == 0 and ds.kind != "param":
                if ds.kind == "call":
                    ns.add(callee_name(ds.stmt) or "")
                    ns |= gi.callee_names_in(gi.walk(ops=list(ds.stmt["args"]), at=(ds.b, "T")))
                else:
                    ops, places = gi._rv_ops(ds.stmt["rv"])
                    ns |= gi.callee_names_in(gi.walk(ops=ops, places=places, at=(ds.b, ds.i)))
        ck.ob("CANON", f"{fname}:as_int:reduces", any(n.endswith(("::mul", "mont_to_int", "mont_red_cst", "BaseElement::as_int")) for n in ns),
              f"{fname}: as_int converts out of Montgomery form", loc=ai.loc())
    # PartialEq is not derived on a non-canonical representation
    eqs = [f for f in prog.fns.values() if f.get("impl_self_adt") == be and f.get("impl_trait") == "core::cmp::PartialEq" and f.get("item_name") == "eq"]
    if len(eqs) != 1:
        raise AnchorError(f"{fname}: PartialEq::eq impl not found")
    ck.saw(eqs[0])


# ---- lazy range ----------------------------------------------------------------------------------

def lazy_rule(ck, prog, fname, info, arith_ok=()):
    mod = info["mod"]
    be = f"{mod}::BaseElement"
    norm = prog.fn(f"{mod}::normalize")
    fns = [f for f in prog.fns.values() if f.nname.startswith(mod + "::") or f.get("impl_self_adt") == be]
    fns = [f for f in fns if f.kind != "closure" and "::tests::" not in f.nname and f.id != norm.id]
    n_tests = 0
    for f in fns:
        g = flow(f)
        for b, i, s in f.assigns():
            rv = s["rv"]
            if rv["k"] != "bin" or rv["op"] not in ("Eq", "Ne") or rv.get("ty") not in ("u64",):
                continue
            for side in (rv["a"], rv["b"]):
                if "const" in side:
                    continue
                w = g.walk(ops=[side], at=(b, i), through=lambda t: callee_name(t) == norm.nname)
                free_fn = f.get("impl_self") is None and f.get("in_trait") is None
                raw = any(a == be for a, fl in g.fields_in(w)) or (free_fn and any(f.local_ty(pp) == "u64" for pp in g.params_in(w)))
                calls = g.callee_names_in(w)
                computed = _is_computed(f, g, side, (b, i))
                if raw and not computed:
                    n_tests += 1
                    if f.id in arith_ok and norm.nname not in calls:
                        # the branch is part of the reduction, not a zero test of the field element: ARITH proved that on BOTH of its
                        # edges the function stores the right residue for every representation (0 and M included)
                        ck.ob("LAZY", f"{fname}:{f.nname.split('::')[-1]}:eq-on-normalised", True,
                              f"{fname}::{f.nname.split('::')[-1]}: a comparison of the raw representation with a constant selects between two "
                              "reductions that ARITH proved congruent on every path", loc=f.loc(b, i))
                        continue
                    ck.ob("LAZY", f"{fname}:{f.nname.split('::')[-1]}:eq-on-normalised", norm.nname in calls,
                          f"{fname}::{f.nname.split('::')[-1]}: an equality/zero test on a raw representation value uses the normalised value "
                          "(0 and M both represent zero)", loc=f.loc(b, i))
    ck.floor(f"{fname}: raw equality tests", n_tests, 1)
    ai = prog.impl_method(be, SF, "as_int")
    gi = flow(ai)
    direct = set()
    for ds in gi.sites:
        if ds.local == 0 and ds.kind == "call":
            direct.add(callee_name(ds.stmt) or "")
        elif ds.local == 0 and ds.kind == "assign":
            ops, places = gi._rv_ops(ds.stmt["rv"])
            direct |= gi.callee_names_in(gi.walk(ops=ops, places=places, at=(ds.b, ds.i), through=lambda t: False))
    ck.ob("LAZY", f"{fname}:as_int:normalised", norm.nname in direct,
          f"{fname}: as_int returns a normalised value (the reduction alone can return M for the representation M of zero)", loc=ai.loc())
    eq = [f for f in prog.fns.values() if f.get("impl_self_adt") == be and f.get("impl_trait") == "core::cmp::PartialEq" and f.get("item_name") == "eq"][0]
    ge = flow(eq)
    ncalls = [1 for b, t in eq.calls() if callee_name(t) == norm.nname]
    ck.ob("LAZY", f"{fname}:eq:both-normalised", len(ncalls) >= 2, f"{fname}: == compares the normalised values of both operands", loc=eq.loc())


def _is_computed(f, g, op, at):
    """True if the operand is the result of arithmetic (not a plain copy of a raw value / call result)"""
    l = op_local(op, pure=True)
    if l is None:
        return False
    seen = set()
    st = [(l, at)]
    while st:
        x, (b, i) = st.pop()
        for ds in g.reaching(x, b, g._pos(b, i)):
            if ds.id in seen:
                continue
            seen.add(ds.id)
            if ds.kind == "assign" and ds.stmt["k"] == "assign":
                rv = ds.stmt["rv"]
                if rv["k"] in ("bin", "un"):
                    return True
                if rv["k"] in ("use", "cast"):
                    ll = op_local(rv["a"], pure=True)
                    if ll is not None:
                        st.append((ll, (ds.b, ds.i)))
    return False


def exp_bits_rule(ck, prog):
    """EXPBITS: square-and-multiply consumes the whole exponent. The generic `exp_vartime` (and every field's own `exp`) must run until the
    exponent is exhausted or over the bit width of the exponent TYPE; a scan whose length is taken from a constant of the field
    (MODULUS_BITS, TWO_ADICITY, ELEMENT_BYTES) silently drops the high bits of the exponent in every field whose exponent type is wider
    than its modulus — the 62-bit field with its u64 exponents (seed C07-M: x^e computed as x^(e mod 2^62))."""
    ck.rule("EXPBITS", "no loop of an exponentiation routine is bounded by a constant of the field (the exponent type decides how many bits are scanned)")
    from ..flow import flow
    from ..cfg import reach, T as _T, S as _S
    FIELD_CONSTS = ("::MODULUS_BITS", "::TWO_ADICITY", "::ELEMENT_BYTES", "::MODULUS")
    fns = [f for f in prog.fns.values() if f.crate == "winter_math" and f.blocks and f.get("kind") != "closure" and "::tests::" not in f.nname
           and f.nname.split("::")[-1] in ("exp", "exp_vartime", "exp_acc")]
    n = 0
    for f in fns:
        g = flow(f)
        loops = 0
        bad = []
        for b in range(len(f.blocks)):
            t = f.term(b)
            if t["k"] != "switch" or (b, _S) not in reach(f, [(b, _T)], include_starts=False):
                continue
            loops += 1
            w = g.walk(ops=[t["d"]], at=(b, _T), through=lambda tt: True)
            ks = [k for k in g.consts_in(w) if str(k).endswith(FIELD_CONSTS)]
            if ks:
                bad.append((b, ks))
        if not loops:
            continue
        n += 1
        ck.saw(f)
        ck.ob("EXPBITS", f"{f.nname}", not bad,
              f"{f.nname.split('::')[-1]}: the loop runs on the exponent (or a fixed trip count), not on a constant of the field", loc=f.loc(),
              detail=None if not bad else f"a loop condition depends on {sorted(set(str(k).split('::')[-1] for _, ks in bad for k in ks))}: exponent bits above that "
                                          "position are never examined")
    ck.floor("EXPBITS: exponentiation routines with loops", n, 2)
