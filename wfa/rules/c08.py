"""C08 — extension fields. Engine E5 (symbolic evaluation into polynomials over F_p) + E6 (exact number theory):
 (M)  for every `impl ExtensibleField<d> for BaseElement`: mul == schoolbook product modulo the documented irreducible, square == mul(a,a),
      mul_base == mul by an embedded base element, frobenius == x -> x^p (phi^p computed exactly), the irreducible is irreducible over F_p;
 (G)  the generic QuadExtension / CubeExtension operators are the component-wise / trait operations, the embedding of the base field is
      (b, 0, ..), conjugate == frobenius, and inv returns early exactly when every coefficient is zero and otherwise returns N / n with
      x * N == (n, 0, ..) as a polynomial identity (n = the norm handed to the base-field inversion);
 (L)  the extension structs are repr(C) over d base elements and the slice reinterpretations scale the length by exactly d."""
from ..ir import Program, AnchorError, callee_name, op_local
from ..fieldpoly import Interp, Poly, Unsupported
from ..flow import flow
from .. import numth
from . import repr_range

F = "winter_math::field::"
EXT = "winter_math::field::traits::ExtensibleField"
FE = "winter_math::field::traits::FieldElement"
# documented irreducibles (doc comment of each impl), coefficients low -> high
IRRED = {
    ("f62", 2): [-1, -1, 1],      # x^2 - x - 1
    ("f128", 2): [-1, -1, 1],     # x^2 - x - 1
    ("f64", 2): [2, -1, 1],       # x^2 - x + 2
    ("f62", 3): [2, 2, 0, 1],     # x^3 + 2x + 2
    ("f64", 3): [-1, -1, 0, 1],   # x^3 - x - 1
}
UNSUPPORTED = {("f128", 3)}
STRUCT = {2: F + "extensions::quadratic::QuadExtension", 3: F + "extensions::cubic::CubeExtension"}


def modulus(prog, fld):
    c = prog.const(f"{F}{fld}::M")
    if "scalar" not in c:
        raise AnchorError(f"modulus of {fld} has no scalar value")
    return int(c["scalar"])


def schoolbook(a, b, irr, p):
    d = len(irr) - 1
    prod = [Poly.const(0, p) for _ in range(2 * d - 1)]
    for i in range(d):
        for j in range(d):
            prod[i + j] = prod[i + j] + a[i] * b[j]
    # reduce: x^d = -(irr[0] + irr[1] x + ...)
    for k in range(2 * d - 2, d - 1, -1):
        c = prod[k]
        prod[k] = Poly.const(0, p)
        for i in range(d):
            prod[k - d + i] = prod[k - d + i] - c * Poly.const(irr[i], p)
    return prod[:d]


def polymulmod(a, b, irr, p):
    d = len(irr) - 1
    prod = [0] * (2 * d - 1)
    for i, x in enumerate(a):
        for j, y in enumerate(b):
            prod[i + j] = (prod[i + j] + x * y) % p
    for k in range(2 * d - 2, d - 1, -1):
        c = prod[k]
        prod[k] = 0
        for i in range(d):
            prod[k - d + i] = (prod[k - d + i] - c * irr[i]) % p
    return prod[:d]


def polypowmod(base, e, irr, p):
    d = len(irr) - 1
    res = [1] + [0] * (d - 1)
    b = list(base)
    while e:
        if e & 1:
            res = polymulmod(res, b, irr, p)
        b = polymulmod(b, b, irr, p)
        e >>= 1
    return res


def irreducible(irr, p):
    """degree 2/3 polynomial over F_p (p prime) is irreducible iff it has no root: gcd(x^p - x, f) is constant; decided through
    x^p mod f != x for degree 2 (then no root) and, for degree 3, x^p mod f having no fixed linear factor: f has a root iff
    gcd(x^p - x, f) != 1 — computed with the Euclidean algorithm over F_p."""
    d = len(irr) - 1
    xp = polypowmod([0, 1] + [0] * (d - 2), p, irr, p)
    g = list(xp)
    g[1] = (g[1] - 1) % p   # x^p - x mod f
    a, b = [c % p for c in irr], g
    while any(b):
        while b and b[-1] == 0:
            b = b[:-1]
        if not b:
            break
        # a mod b
        a = list(a)
        while len(a) >= len(b) and any(a):
            while a and a[-1] == 0:
                a = a[:-1]
            if len(a) < len(b):
                break
            q = a[-1] * pow(b[-1], -1, p) % p
            sh = len(a) - len(b)
            for i, c in enumerate(b):
                a[sh + i] = (a[sh + i] - q * c) % p
        a, b = b, a
    while a and a[-1] == 0:
        a = a[:-1]
    return len(a) == 1  # gcd is a non-zero constant


def vec(name, d, p):
    return [Poly.var(f"{name}{i}", p) for i in range(d)]


def same(u, v):
    return len(u) == len(v) and all(isinstance(x, Poly) and isinstance(y, Poly) and (x - y).is_zero() for x, y in zip(u, v))


def showv(v):
    return "[" + ", ".join(x.show() if isinstance(x, Poly) else repr(x) for x in v) + "]"


def single(paths, what):
    live = [(c, v) for c, v in paths]
    if len(live) != 1 or live[0][0]:
        raise Unsupported(f"{what}: expected one unconditional path, found {len(live)}")
    return live[0][1]


def impl_fn(prog, fld, d, item):
    want = f"<{F}{fld}::BaseElement as {EXT}<{d}>>"
    for im in prog.impls:
        if im.get("trait_ref") == want:
            for it in im["items"]:
                if it["name"] == item:
                    return prog.fns[it["id"]]
            for g in prog.fns.values():
                if g.get("in_trait") == EXT and g.nname == f"{EXT}::{item}" and g.blocks:
                    return g
    raise AnchorError(f"{want}::{item} not found")


def generic_fn(prog, d, trait, item):
    adt = STRUCT[d]
    for im in prog.impls:
        if (im.get("self_ty") or "").split("<")[0] == adt and (im.get("trait") or "") == trait:
            for it in im["items"]:
                if it["name"] == item and it["id"] in prog.fns:
                    return prog.fns[it["id"]]
    raise AnchorError(f"impl {trait} for {adt.split('::')[-1]}: {item} not found")


def check(ck, rule, inst, fn, thunk, what):
    try:
        ok, detail = thunk()
    except Unsupported as e:
        ok, detail = False, f"could not be evaluated symbolically: {e}"
    ck.saw(fn)
    ck.ob(rule, inst, ok, what, loc=fn.loc(), detail=None if ok else detail)


def run(ck):
    prog = Program("default", crates={"winter_math", "winter_utils"})
    ck.analysed["configs"].add("default")
    ck.explanation = (
        "Each function is executed on symbolic inputs; base-field operators are the ring operations they stand for (their own correctness "
        "is C07), so every result coordinate is a polynomial in the input coordinates with coefficients mod p, in normal form. Equality "
        "of normal forms with the reference (schoolbook product reduced by the documented irreducible; phi^p computed by exact "
        "square-and-multiply) is a proof of the identity for ALL operands, including the boundary ones no sampled test reaches. The "
        "generic extension code is evaluated once per supported (field, degree) pair with its trait calls inlined from that field's impl. "
        "Inversion: the value handed to the base-field inversion is n, the result is N * n^-1 coordinate-wise, and x * N == (n,0,..) "
        "holds identically, so x * inv(x) == 1 whenever n != 0 — and n (the norm) is non-zero for x != 0 because the modulus polynomial "
        "is irreducible (checked). Not decided: the internal-representation ranges of the base fields (C07), serialization of "
        "extension elements (C12)."
    )
    ck.rule("M", "per-field ExtensibleField impl == polynomial arithmetic modulo the documented irreducible (all operands)")
    ck.rule("G", "generic extension operators == the definition built from the per-field impl; inversion identity and zero test")
    ck.rule("L", "layout: repr(C) structs of d base elements; slice reinterpretation scales the length by exactly d")
    n_impls = 0
    for (fld, d), irr in sorted(IRRED.items()):
        p = modulus(prog, fld)
        base = f"{F}{fld}::BaseElement"
        n_impls += 1
        tag = f"{fld}^{d}"
        a, b, x = vec("a", d, p), vec("b", d, p), vec("x", d, p)
        bb = Poly.var("c", p)
        ref_mul = schoolbook(a, b, irr, p)
        ck.ob("M", f"{tag}:irreducible", irreducible(irr, p) and numth_is_prime(p),
              f"{fld}: the documented modulus polynomial {irr} (low to high) has no root / factor over F_p, p = {p} prime — the extension is a field",
              loc=impl_fn(prog, fld, d, "mul").loc())

        def t_mul():
            r = single(Interp(prog, base, p, d).run(impl_fn(prog, fld, d, "mul"), [a, b]), "mul")
            return same(r, ref_mul), f"computed {showv(r)}; definition {showv(ref_mul)}"
        check(ck, "M", f"{tag}:mul", impl_fn(prog, fld, d, "mul"), t_mul, f"{tag}: mul(a,b) == a*b mod the irreducible, as polynomials in the coordinates")

        def t_sq():
            r = single(Interp(prog, base, p, d).run(impl_fn(prog, fld, d, "square"), [a]), "square")
            ref = schoolbook(a, a, irr, p)
            return same(r, ref), f"computed {showv(r)}; definition {showv(ref)}"
        check(ck, "M", f"{tag}:square", impl_fn(prog, fld, d, "square"), t_sq, f"{tag}: square(a) == a*a")

        def t_mb():
            r = single(Interp(prog, base, p, d).run(impl_fn(prog, fld, d, "mul_base"), [a, bb]), "mul_base")
            ref = schoolbook(a, [bb] + [Poly.const(0, p)] * (d - 1), irr, p)
            return same(r, ref), f"computed {showv(r)}; definition {showv(ref)}"
        check(ck, "M", f"{tag}:mul_base", impl_fn(prog, fld, d, "mul_base"), t_mb, f"{tag}: mul_base(a,c) == a*(c,0,..)")

        phi_p = polypowmod([0, 1] + [0] * (d - 2), p, irr, p)
        cols = [[1] + [0] * (d - 1), phi_p] + ([polymulmod(phi_p, phi_p, irr, p)] if d == 3 else [])
        ref_frob = [sum((Poly.const(cols[j][i], p) * x[j] for j in range(d)), Poly.const(0, p)) for i in range(d)]

        def t_fr():
            r = single(Interp(prog, base, p, d).run(impl_fn(prog, fld, d, "frobenius"), [x]), "frobenius")
            return same(r, ref_frob), f"computed {showv(r)}; x^p = {showv(ref_frob)}"
        check(ck, "M", f"{tag}:frobenius", impl_fn(prog, fld, d, "frobenius"), t_fr,
              f"{tag}: frobenius(x) == x^p (phi^p = {cols[1]} computed exactly), a field automorphism fixing exactly the base field")
        ck.ob("M", f"{tag}:frobenius-nontrivial", cols[1] != [0, 1] + [0] * (d - 2),
              f"{tag}: phi^p != phi, so the elements fixed by conjugation are exactly the base field", loc=impl_fn(prog, fld, d, "frobenius").loc())

        def t_sup():
            r = Interp(prog, base, p, d).run(impl_fn(prog, fld, d, "is_supported"), [])
            return len(r) == 1 and r[0][1] == 1, f"is_supported() evaluates to {r}"
        check(ck, "M", f"{tag}:is_supported", impl_fn(prog, fld, d, "is_supported"), t_sup, f"{tag}: is_supported() is true")
        generic(ck, prog, fld, d, irr, p, base, ref_frob)
    ck.floor("ExtensibleField impls with a documented irreducible", n_impls, 5)
    layout(ck, prog)
    ck.rule("REPR", "f62: every constructed BaseElement holds a value in the documented lazy range [0, 2M) (the extension code feeds results of neg/sub/double straight into further operations)")
    repr_range.run_rule(ck, prog)
    # control: the engine distinguishes x^2 - x - 1 from x^2 - x + 2
    p = modulus(prog, "f64")
    a, b = vec("a", 2, p), vec("b", 2, p)
    ck.control("a product reduced by a different irreducible is a different polynomial", not same(schoolbook(a, b, [2, -1, 1], p), schoolbook(a, b, [-1, -1, 1], p)))


def numth_is_prime(p):
    try:
        return bool(numth.lucas_prime_proof(p))
    except Exception:
        return False


def generic(ck, prog, fld, d, irr, p, base, ref_frob):
    tag = f"{fld}^{d}"
    a, b, x = vec("a", d, p), vec("b", d, p), vec("x", d, p)
    zero = Poly.const(0, p)
    ops = [
        ("core::ops::arith::Mul", "mul", [a, b], schoolbook(a, b, irr, p), "a * b == product modulo the irreducible"),
        ("core::ops::arith::Add", "add", [a, b], [u + v for u, v in zip(a, b)], "a + b is coordinate-wise"),
        ("core::ops::arith::Sub", "sub", [a, b], [u - v for u, v in zip(a, b)], "a - b is coordinate-wise"),
        ("core::ops::arith::Neg", "neg", [a], [-u for u in a], "-a is coordinate-wise"),
        (FE, "double", [a], [u + u for u in a], "double(a) == a + a"),
        (FE, "square", [a], schoolbook(a, a, irr, p), "square(a) == a * a"),
        (FE, "conjugate", [x], ref_frob, "conjugate(x) == x^p"),
    ]
    for tr, item, args, ref, what in ops:
        f = generic_fn(prog, d, tr, item)

        def t(f=f, args=args, ref=ref):
            r = single(Interp(prog, base, p, d).run(f, args), item)
            return same(r, ref), f"computed {showv(r)}; definition {showv(ref)}"
        check(ck, "G", f"{tag}:{item}", f, t, f"{tag}: {what}")
    # embedding of the base field
    c = Poly.var("c", p)
    f = generic_fn(prog, d, "core::convert::From", "from")
    cands = [prog.fns[it["id"]] for im in prog.impls if (im.get("self_ty") or "").split("<")[0] == STRUCT[d] and im.get("trait") == "core::convert::From"
             and (im.get("trait_ref") or "").endswith("From<B>>") for it in im["items"] if it["name"] == "from"]
    if len(cands) != 1:
        raise AnchorError(f"From<B> for {STRUCT[d]}: {len(cands)} impls")

    def t_emb():
        r = single(Interp(prog, base, p, d).run(cands[0], [c]), "from")
        return same(r, [c] + [zero] * (d - 1)), f"computed {showv(r)}"
    check(ck, "G", f"{tag}:embedding", cands[0], t_emb, f"{tag}: From<B>(c) == (c, 0, ..): the embedding is the identity on coordinate 0 — with mul/add above a ring homomorphism")
    # inversion
    f = generic_fn(prog, d, FE, "inv")

    def t_inv():
        it = Interp(prog, base, p, d)
        paths = it.run(f, [x])
        early = [(cs, v) for cs, v in paths if same(v, x)]
        main = [(cs, v) for cs, v in paths if not same(v, x)]
        # an early `return self` for zero is one way to handle the zero element; a base-field fast path that inverts coordinate 0 in the
        # base field (whose inverse of 0 is 0 — a C07 matter) is another: only a computing path is required
        if not main:
            return False, f"no computing path found ({len(early)} early / {len(main)} computing)"
        for cs, v in early:
            zeroed = set()
            for polys, allzero in cs:
                if allzero:
                    for q in polys:
                        for i in range(d):
                            if (q - x[i]).is_zero():
                                zeroed.add(i)
            if zeroed != set(range(d)):
                return False, f"inv returns its argument unchanged on a path that only establishes coordinates {sorted(zeroed)} to be zero: a non-zero element has no inverse there"
        if len(it.inv_calls) < 1:
            return False, "no base-field inversion on the computing path"

        def zero_vars(cs):
            """coordinates of x that the path's decisions established to be zero (a fast path for base-field elements: `self.1 == ZERO`)"""
            zs = set()
            for polys, allzero in cs:
                if allzero:
                    for q in polys:
                        for i in range(d):
                            if (q - x[i]).is_zero():
                                zs |= x[i].vars()
            return zs

        def drop(q, zs):
            return Poly({m: c for m, c in q.t.items() if not any(v in zs for v, _ in m)}, q.p) if zs else q
        for cs, v in main:
            zs = zero_vars(cs)
            used = [(n_, name_) for n_, name_ in it.inv_calls if any(name_ in q.vars() for q in v)]
            if len(used) != 1:
                return False, f"a computing path uses {len(used)} base-field inversions in its result (expected exactly one)"
            n, name = used[0]
            N = []
            for q in v:
                co, rest = q.coeff_of(name)
                if not drop(rest, zs).is_zero():
                    return False, f"a result coordinate is not a multiple of the inverted norm: {q.show()}"
                N.append(drop(co, zs))
            xs = [drop(q, zs) for q in x]
            prod = schoolbook(xs, N, irr, p)
            if not same(prod, [drop(n, zs)] + [zero] * (d - 1)):
                return False, f"x * numerator = {showv(prod)} but the inverted value is {drop(n, zs).show()}" + (f" (on the path where {sorted(zs)} are zero)" if zs else "")
        return True, None
    check(ck, "G", f"{tag}:inv", f, t_inv,
          f"{tag}: inv(x) returns x unchanged only when every coordinate is zero; otherwise N * n^-1 with x * N == (n,0,..) identically")


def layout(ck, prog):
    for d, adt in STRUCT.items():
        a = prog.adt(adt)
        flds = a["variants"][0]["fields"]
        ck.ob("L", f"repr:{adt.split('::')[-1]}", bool(a.get("repr_c")) and len(flds) == d and all(f["ty"] == "B" for f in flds),
              f"{adt.split('::')[-1]} is #[repr(C)] with exactly {d} fields of the base type: d consecutive base elements", loc=f"{a['file']}:{a['lo']}")
        for item, opname in (("slice_as_base_elements", "Mul"), ("slice_from_base_elements", "Div")):
            f = generic_fn(prog, d, FE, item)
            ck.saw(f)
            g = flow(f)
            ok, why = False, "no from_raw_parts call"
            for b, t in f.calls():
                if (callee_name(t) or "").endswith("::from_raw_parts"):
                    w = g.walk(ops=[t["args"][1]], at=(b, "T"), through=lambda tt: True)
                    binops = set()
                    consts = g.consts_in(w)
                    for n in w:
                        if n[0] == "b":
                            binops.add(n[1].replace("WithOverflow", ""))
                    scale = {"Mul"} if opname == "Mul" else {"Div"}
                    uses_deg = any(str(c).endswith("EXTENSION_DEGREE") for c in consts)
                    ok = bool(binops & scale) and not (binops & ({"Div", "Mul"} - scale)) and uses_deg
                    why = f"length derives from {sorted(binops)} with constants {sorted(str(c).split('::')[-1] for c in consts)}"
            ck.ob("L", f"{item}:{adt.split('::')[-1]}", ok,
                  f"{adt.split('::')[-1]}::{item}: the reinterpreted slice length is len {'*' if opname == 'Mul' else '/'} EXTENSION_DEGREE ({why})", loc=f.loc())
    # EXTENSION_DEGREE constants
    for d, adt in STRUCT.items():
        cs = [c for cl in prog.consts_by_name.values() for c in cl if c.get("name", "").endswith("::EXTENSION_DEGREE") and (c.get("impl_self") or "").split("<")[0] == adt]
        ok = len(cs) == 1 and cs[0].get("scalar") == str(d)
        ck.ob("L", f"EXTENSION_DEGREE:{adt.split('::')[-1]}", ok, f"{adt.split('::')[-1]}::EXTENSION_DEGREE == {d}",
              loc=f"{cs[0]['file']}:{cs[0]['line']}" if cs else None, detail=None if ok else f"found {[(c.get('name'), c.get('scalar')) for c in cs]}")
