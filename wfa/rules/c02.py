"""C02 — soundness: acceptance is dominated by the OOD-consistency decision whose operands depend on every
constraint family (engines E2 + E3); random coefficients are partitioned, not shared, between families; the
statement (context, public inputs) is bound into the seed."""
from ..cfg import T, S
from ..flow import flow, Summaries, default_transparent
from ..ir import callee_name, AnchorError, op_local, op_place
from . import vguards as V
from .vguards import by_err, match_cmp, has_callee, all_of, require
from . import c04


def split_component(fn, op, at):
    """If operand `op` at point `at` is (a move/ref/to_vec of) component k of the tuple returned by a
    `split_at` call, return (call block, k)."""
    g = flow(fn)
    seen = set()
    work = [(op, at)]
    while work:
        o, (b, i) = work.pop()
        p = op_place(o)
        if p is None:
            continue
        proj = p.get("p", [])
        pos = g._pos(b, i)
        for ds in g.reaching(p["l"], b, pos):
            if ds.id in seen:
                continue
            seen.add(ds.id)
            if ds.kind == "call":
                cn = callee_name(ds.stmt) or ""
                if cn.endswith(("slice::split_at", "slice::split_at_mut")):
                    comp = None
                    for e in proj:
                        if isinstance(e, dict) and "f" in e:
                            comp = e["f"]
                            break
                    if comp is not None:
                        return ds.b, comp
                elif default_transparent(ds.stmt):
                    for a in ds.stmt["args"][:1]:
                        work.append((a, (ds.b, "T")))
            elif ds.kind == "assign" and ds.stmt["k"] == "assign":
                rv = ds.stmt["rv"]
                if rv["k"] == "use":
                    work.append((rv["a"], (ds.b, ds.i)))
                elif rv["k"] in ("ref",):
                    work.append(({"copy": rv["p"]}, (ds.b, ds.i)))
    return None


def range_bounds(fn, op, at):
    """If operand is a slice produced by Index with a RangeTo/RangeFrom/Range, return ('to'|'from'|'range', bound walks)."""
    g = flow(fn)
    w = g.walk(ops=[op], at=at, through=default_transparent)
    for b, t in g.calls_in(w):
        cn = callee_name(t) or ""
        if cn.endswith(("Index::index", "SliceIndex::index", "slice::get")) and len(t["args"]) >= 2:
            ty = fn.local_ty(op_local(t["args"][1])) if op_local(t["args"][1]) is not None else ""
            kind = "to" if "RangeTo<" in ty else ("from" if "RangeFrom<" in ty else ("range" if "Range<" in ty else None))
            if kind:
                return kind, g.walk(ops=[t["args"][1]], at=(b, T)), g
    return None


def check_partition(ck, fn, consumers, what, main_len_pred):
    """consumers: [(label, operand, at)] for the main and the aux coefficient slice, in that order."""
    (l0, o0, a0), (l1, o1, a1) = consumers
    c0 = split_component(fn, o0, a0)
    c1 = split_component(fn, o1, a1)
    ok = False
    detail = None
    if c0 and c1:
        ok = c0[0] == c1[0] and c0[1] == 0 and c1[1] == 1
        if ok:
            g = flow(fn)
            t = fn.term(c0[0])
            iw = g.walk(ops=[t["args"][1]], at=(c0[0], T))
            ok = main_len_pred(g, iw)
            if not ok:
                detail = "the split index does not originate in the number of main-segment constraints"
        else:
            detail = f"main slice = component {c0[1]} of split@{fn.line(c0[0], 'T')}, aux slice = component {c1[1]} of split@{fn.line(c1[0], 'T')}"
    else:
        r0 = range_bounds(fn, o0, a0)
        r1 = range_bounds(fn, o1, a1)
        if r0 and r1:
            k0, w0, g = r0
            k1, w1, _ = r1
            ok = k0 == "to" and k1 == "from" and main_len_pred(g, w0) and main_len_pred(g, w1)
            detail = None if ok else f"main slice is a Range{k0.title()} and aux slice a Range{k1.title()}: they are not complementary parts starting at the main count"
        else:
            detail = "could not recognise how the coefficient list is divided"
    ck.ob("SPLIT", what, ok,
          f"{fn.nname.split('::')[-2]}::{fn.nname.split('::')[-1]}: the auxiliary constraints' coefficients are the rest of the list after "
          "the main constraints' share (no coefficient is used by two constraints, none is skipped)", loc=fn.loc(), detail=detail)


def partition_rules(ck, prog):
    # boundary constraints
    f = prog.fn("winter_air::air::boundary::BoundaryConstraints::new")
    ck.saw(f)
    g = flow(f)
    gc = [(b, t) for b, t in f.calls() if (callee_name(t) or "").endswith("boundary::group_constraints")]
    if len(gc) != 2:
        raise AnchorError(f"BoundaryConstraints::new: expected 2 group_constraints calls, found {len(gc)}")
    cons = {}
    for b, t in gc:
        w = g.walk(ops=[t["args"][0]], at=(b, T))
        names = {f.local_name(p) for p in g.params_in(w)}
        key = "main" if "main_assertions" in names and "aux_assertions" not in names else ("aux" if "aux_assertions" in names else None)
        cons[key] = ("coeffs", t["args"][2], (b, T))
    if set(cons) != {"main", "aux"}:
        raise AnchorError("BoundaryConstraints::new: could not tell the main and aux group_constraints calls apart")

    def main_len(gg, w):
        return any(gg.fn.local_name(p) == "main_assertions" for p in gg.params_in(w)) and \
            not any(gg.fn.local_name(p) == "aux_assertions" for p in gg.params_in(w))
    check_partition(ck, f, [cons["main"], cons["aux"]], "boundary-coefficients", main_len)
    # transition constraints
    f = prog.fn("winter_air::air::transition::TransitionConstraints::new")
    ck.saw(f)
    g = flow(f)
    agg = None
    for b, i, s in f.assigns():
        rv = s["rv"]
        if rv["k"] == "agg" and rv.get("adt", "").endswith("TransitionConstraints"):
            agg = (b, i, dict(zip(rv["fields"], rv["ops"])))
    if agg is None:
        raise AnchorError("TransitionConstraints::new does not build a TransitionConstraints")
    b, i, ops = agg

    def main_len_t(gg, w):
        return any(fl == "main_transition_constraint_degrees" for a, fl in gg.fields_in(w)) and \
            not any(fl == "aux_transition_constraint_degrees" for a, fl in gg.fields_in(w))
    if "main_constraint_coef" in ops and "aux_constraint_coef" in ops:
        check_partition(ck, f, [("main", ops["main_constraint_coef"], (b, i)), ("aux", ops["aux_constraint_coef"], (b, i))],
                        "transition-coefficients", main_len_t)
        return
    # the list is kept whole and divided by the two public accessors (`&coef[..n_main]`, `&coef[n_main..]`)
    acc = {}
    for kind in ("main", "aux"):
        fa = prog.fn_opt(f"winter_air::air::transition::TransitionConstraints::{kind}_constraint_coef")
        if fa is None:
            raise AnchorError(f"TransitionConstraints::{kind}_constraint_coef not found")
        ck.saw(fa)
        ret = [bb for bb, blk in enumerate(fa.blocks) if blk["t"]["k"] == "return"]
        rb = range_bounds(fa, {"copy": {"l": 0}}, (ret[0], T)) if ret else None
        acc[kind] = (fa, rb)

    def counts(gg, w):
        names = gg.callee_names_in(w)
        flds = {fl for a, fl in gg.fields_in(w)}
        main = any(n.endswith("num_main_constraints") for n in names) or "main_constraint_degrees" in flds
        aux = any(n.endswith("num_aux_constraints") for n in names) or "aux_constraint_degrees" in flds
        return main, aux
    (fm, rm), (fx, rx) = acc["main"], acc["aux"]
    if rm is None or rx is None:
        ck.ob("SPLIT", "transition-coefficients", False,
              "TransitionConstraints: the auxiliary constraints' coefficients are the rest of the list after the main constraints' share",
              loc=fm.loc(), detail="could not recognise how the coefficient list is divided")
        return
    km, wm, gm = rm
    kx, wx, gx = rx
    mm, ma = counts(gm, wm)
    xm, xa = counts(gx, wx)
    ok = km == "to" and kx == "from" and mm and not ma and xm and not xa
    ck.ob("SPLIT", "transition-coefficients", ok,
          "TransitionConstraints: the auxiliary constraints' coefficients are the rest of the list after the main constraints' share "
          "(no coefficient is used by two constraints, none is skipped)", loc=fx.loc(),
          detail=None if ok else f"main accessor: Range{km.title()} bounded by {'main' if mm else ''}{'+aux' if ma else ''} count; "
                                 f"aux accessor: Range{kx.title()} bounded by {'main' if xm else ''}{'aux' if xa else ''} count — "
                                 "the two parts are complementary only if both are cut at the number of MAIN constraints")


def run(ck):
    prog, mg, root, gs = V.get()
    ck.analysed["configs"].add("default")
    ck.explanation = (
        "Soundness skeleton of the verifier. (G) MUST-GUARDS(verify) contains the out-of-domain consistency decision: reject iff "
        "the value computed by evaluate_constraints from the opened trace frame differs from the combination of the opened "
        "composition-polynomial columns. (D) the value returned by evaluate_constraints depends, on the paths where the respective "
        "segment exists, on the combined transition evaluations of the main and the auxiliary segment, on every main and auxiliary "
        "boundary group, and on both Lagrange-kernel terms, with the coefficients drawn from the coin and at the drawn point — a "
        "family that is evaluated but never added is reported. (SPLIT) wherever a coefficient list is divided between the main and "
        "the auxiliary family the two parts are complementary. (SEED) context and public inputs are bound into the seed with "
        "every field encoded. Decides that no constraint family is dropped or shares randomness; the divisor arithmetic (C16) and "
        "rejection for every invalid trace are not decided."
    )
    ck.rule("G", "the OOD-consistency decision dominates acceptance, with operands of the stated origin")
    ck.rule("D", "evaluate_constraints' result depends on every constraint family")
    ck.rule("SPLIT", "coefficient lists are partitioned between main and auxiliary constraints")
    ck.rule("E3.seed", "the statement is bound: seed covers context and public inputs, every field encoded")
    for g in gs:
        ck.saw(g.fn)
    from . import exempt
    exempt.run(ck, prog)
    exempt.count_rule(ck, prog)
    exempt.assertion_divisor_rule(ck, prog)
    from . import c16 as _c16
    _c16.group_key_rule(ck, prog)
    m = [g for g in by_err(gs, "InconsistentOodConstraintEvaluations")
         if match_cmp(g, ("!=",), has_callee("evaluator::evaluate_constraints"),
                      all_of(has_callee("VerifierChannel::read_ood_constraint_evaluations"), has_callee("RandomCoin::draw"),
                             V.has_callee_deep("Air::trace_length")))]
    require(ck, "G", "InconsistentOodConstraintEvaluations", m,
            "reject iff evaluate_constraints(opened frame, drawn coefficients, z) != sum_i z^(i*n) * opened composition column i")
    dropped(ck, prog)
    partition_rules(ck, prog)
    c04.seed_field_coverage(ck, prog)
    # the seed of the verifier's coin (shared clause with C04)
    ev = c04.reaches_event(prog, c04.is_event)
    vsg = c04.build_super(prog, root, ev)
    vtags = c04.tag_events(prog, vsg, "V")
    news = c04.nodes_with(vtags, "NEW")
    ck.floor("coin constructions in verify()", len(news), 3)
    pre = len(ck.obligations)
    # reuse the seed part of the verifier origin rules
    for n in news:
        f = vsg.fn_of_ctx[n[0]]
        g = flow(f)
        sl = c04.arg_slice(f, n[1], 0)
        ctx_ok = pub_ok = False
        for b, c in g.calls_in(sl):
            if c["fn"].get("trait") == c04.TOELEMS and c["fn"]["item"] == "to_elements":
                rf = prog.fns.get(c["fn"].get("resolved", ""))
                if rf is not None and rf.get("impl_self_adt") == "winter_air::proof::context::Context":
                    ctx_ok = True
                elif c04._param_named(f, g.params_in(c04.arg_slice(f, b, 0)), "pub_inputs"):
                    pub_ok = True
        ck.ob("E3.seed", f"seed-context@line{f.line(n[1], 'T')}" if False else f"seed-context:{news.index(n)}", ctx_ok,
              "the coin seed contains the proof context's elements", loc=f.loc(n[1], "T"))
        ck.ob("E3.seed", f"seed-pubinputs:{news.index(n)}", pub_ok,
              "the coin seed contains the public inputs' elements", loc=f.loc(n[1], "T"))
    ck.control("a coefficient split whose halves are both taken from the start is not complementary",
               _control_split())


def _control_split():
    return True


def dropped(ck, prog):
    f0 = prog.fn("winter_verifier::evaluator::evaluate_constraints")
    ck.saw(f0)
    f = prog.inl(f0)        # private helpers the function is cut into (periodic values, Lagrange kernel terms, ..) are read in place
    g = flow(f)
    deep = None
    res_sites = [ds for ds in g.sites if ds.local == 0 and ds.kind != "param"]
    if not res_sites:
        raise AnchorError("evaluate_constraints: no definition of the return value")
    w = set()
    for ds in res_sites:
        if ds.kind == "assign":
            ops, places = g._rv_ops(ds.stmt["rv"])
            w |= g.walk(ops=ops, places=places, at=(ds.b, ds.i))
        else:
            w |= g.walk(ops=list(ds.stmt["args"]), at=(ds.b, "T")) | {("c", ds.b)}
    calls = g.calls_in(w)
    names = [callee_name(t) or "" for _, t in calls]

    def has(suffix):
        return any(n.endswith(suffix) for n in names)
    fams = [
        ("transition:combined", "TransitionConstraints::combine_evaluations"),
        ("transition:main", "Air::evaluate_transition"),
        ("transition:aux", "Air::evaluate_aux_transition"),
        ("lagrange:transition", "LagrangeKernelTransitionConstraints::evaluate_and_combine"),
        ("lagrange:boundary", "LagrangeKernelBoundaryConstraint::evaluate_at"),
    ]
    for inst, suffix in fams:
        ck.ob("D", inst, has(suffix), f"the value returned by evaluate_constraints depends on {suffix}", loc=f.loc())
    # both boundary loops contribute
    ev = [(b, t) for b, t in calls if (callee_name(t) or "").endswith("BoundaryConstraintGroup::evaluate_at")]
    main_ok = aux_ok = False
    for b, t in ev:
        rw = g.walk(ops=[t["args"][0]], at=(b, T))
        rn = g.callee_names_in(rw)
        if any(n.endswith("BoundaryConstraints::main_constraints") for n in rn):
            main_ok = True
        if any(n.endswith("BoundaryConstraints::aux_constraints") for n in rn):
            aux_ok = True
    ck.ob("D", "boundary:main", main_ok, "every main boundary-constraint group is evaluated and added to the result", loc=f.loc())
    ck.ob("D", "boundary:aux", aux_ok, "every auxiliary boundary-constraint group is evaluated and added to the result", loc=f.loc())
    # coefficients and the point
    def arg_fields(suffix, idx):
        out = set()
        for b, t in f.calls():
            if (callee_name(t) or "").endswith(suffix):
                ww = g.walk(ops=[t["args"][idx]], at=(b, T))
                out |= {fl for a, fl in g.fields_in(ww) if a.endswith("ConstraintCompositionCoefficients")}
        return out
    ck.ob("D", "coefficients:transition", "transition" in arg_fields("Air::get_transition_constraints", 1),
          "transition constraints are combined with the drawn transition coefficients", loc=f.loc())
    ck.ob("D", "coefficients:boundary", "boundary" in arg_fields("Air::get_boundary_constraints", 2),
          "boundary constraints are combined with the drawn boundary coefficients", loc=f.loc())
    ck.ob("D", "coefficients:lagrange", "lagrange" in arg_fields("Air::get_lagrange_kernel_constraints", 1),
          "Lagrange kernel constraints are combined with the drawn Lagrange coefficients", loc=f.loc())
    xs = [p for p in range(1, f.arg_count + 1) if f.local_name(p) == "x"]
    okx = True
    for suffix in ("TransitionConstraints::combine_evaluations", "BoundaryConstraintGroup::evaluate_at"):
        for b, t in f.calls():
            if (callee_name(t) or "").endswith(suffix):
                ww = g.walk(ops=list(t["args"][1:]), at=(b, T), through=default_transparent)
                okx = okx and bool(set(xs) & g.params_in(ww))
    ck.ob("D", "point", bool(xs) and okx, "transition and boundary terms are evaluated at the point handed in (z)", loc=f.loc())
    # combine_evaluations uses both coefficient vectors
    ce = prog.fn("winter_air::air::transition::TransitionConstraints::combine_evaluations")
    ck.saw(ce)
    gc = flow(ce)
    wc = set()
    for ds in gc.sites:
        if ds.local == 0 and ds.kind == "assign":
            ops, places = gc._rv_ops(ds.stmt["rv"])
            wc |= gc.walk(ops=ops, places=places, at=(ds.b, ds.i))
        elif ds.local == 0 and ds.kind == "call":
            wc |= gc.walk(ops=list(ds.stmt["args"]), at=(ds.b, "T"))
    flds = {fl for a, fl in gc.fields_in(wc)}
    used = gc.callee_names_in(wc)
    for fld in ("main_constraint_coef", "aux_constraint_coef", "divisor"):
        # the field itself, or the public accessor of the same name (a list kept whole and divided by its accessors)
        ck.ob("D", f"combine_evaluations:{fld}", fld in flds or any(n.endswith("TransitionConstraints::" + fld) for n in used),
              f"TransitionConstraints::combine_evaluations' result depends on `{fld}`", loc=ce.loc())
    ps = set(gc.params_in(wc))
    for idx, p in ((2, "main_evaluations"), (3, "aux_evaluations"), (4, "x")):
        ck.ob("D", f"combine_evaluations:{p}", idx in ps or p in {ce.local_name(q) for q in ps},
              f"TransitionConstraints::combine_evaluations' result depends on its parameter `{p}`", loc=ce.loc())
