"""Rule EXEMPT (C02): the transition divisor of `ConstraintDivisor::from_transition(n, k)` exempts exactly the last k points of the
enforcement domain, { g^s : n - k <= s < n } with g = get_root_of_unity(log2 n).

Decided from the shape of the value handed on as `exemptions`, in the forms the code base and its plausible rewrites use:
  (A) `(lo..hi).map(|s| point(s)).collect()` / the same as a loop over the range pushing point(s): decided when point(s) is g^s
      (exp of the root of unity of log2(n) to the range item, the item only converted, never computed with); then the window is
      right iff lo = n - k and hi = n; a window shifted or shortened by constants is a violation.
  (C) an incremental loop `x = g^e0; repeat k times { push(x); x *= c }`: right iff c is loop-invariant and equal to g^(n-1) = g^-1
      with e0 = n - 1 (the set {n-1, n-2, ..}) ; a multiplier that is the running value itself (`x *= x`: exponents -1, -2, -4, -8)
      is a violation: from the third point on the exempted steps are not the last ones.
Everything else is reported as not decided (a note), never as a violation."""
from ..cfg import T, S, reach, single_def
from ..flow import flow
from ..ir import callee_name, op_local, op_place, AnchorError

INT_CONV = ("From::from", "Into::into", "TryFrom::try_from", "TryInto::try_into", "Result::unwrap", "Result::expect", "Option::unwrap")


def expr_at(f, op, depth=0):
    """expression tree of an operand through single definitions: ('p', i) parameter, ('k', v), ('op', name, a, b), ('call', name, args, (block)),
    ('agg', kind, ops), ('field', i, e), ('?',)"""
    if depth > 40:
        return ("?",)
    c = op.get("const") if isinstance(op, dict) else None
    if c is not None:
        if "scalar" in c:
            return ("k", int(c["scalar"]))
        return ("k", c.get("def_name") or c.get("def") or c.get("ty"))
    p = op_place(op)
    if p is None:
        return ("?",)
    l = p["l"]
    proj = [e for e in p.get("p", []) if e != "deref"]
    if 1 <= l <= f.arg_count and not proj:
        return ("p", l)
    d = single_def(f, l)
    if d is None:
        base = ("p", l) if 1 <= l <= f.arg_count else ("local", l)
    else:
        b, i, st = d
        if i == "T":
            base = ("call", callee_name(st) or "?", tuple(expr_at(f, a, depth + 1) for a in st["args"]), b)
        else:
            rv = st["rv"]
            k = rv["k"]
            if k == "use":
                base = expr_at(f, rv["a"], depth + 1)
            elif k in ("ref", "rawptr"):
                base = expr_at(f, {"copy": rv["p"]}, depth + 1)
            elif k == "cast":
                base = expr_at(f, rv["a"], depth + 1)
            elif k == "bin":
                name = rv["op"].replace("WithOverflow", "").replace("Unchecked", "")
                base = ("op", name, expr_at(f, rv["a"], depth + 1), expr_at(f, rv["b"], depth + 1))
                if rv["op"].endswith("WithOverflow"):
                    base = ("agg", "checked", (base, ("k", 0)))
            elif k == "agg":
                base = ("agg", rv.get("adt") or rv.get("closure") or rv.get("agg"), tuple(expr_at(f, o, depth + 1) for o in rv["ops"]))
            else:
                base = ("?",)
    for e in proj:
        if isinstance(e, dict) and "f" in e:
            if base[0] == "agg" and e["f"] < len(base[2]):
                base = base[2][e["f"]]
            else:
                base = ("field", e["f"], base)
        elif isinstance(e, dict) and "down" in e:
            continue
        else:
            base = ("?",)
    return base


def strip_conv(e):
    """through integer/field conversions that do not compute"""
    while e[0] == "call" and e[1].endswith(INT_CONV) and len(e[2]) >= 1:
        e = e[2][0]
    return e


def lin_in(e, syms):
    """e as {symbol: coeff, 1: const} over the given symbol expressions, or None"""
    e = strip_conv(e)
    for name, s in syms.items():
        if e == s:
            return {name: 1}
    if e[0] == "k" and isinstance(e[1], int):
        return {1: e[1]}
    if e[0] == "op" and e[1] in ("Add", "Sub"):
        a, b = lin_in(e[2], syms), lin_in(e[3], syms)
        if a is None or b is None:
            return None
        r = dict(a)
        for k, v in b.items():
            r[k] = r.get(k, 0) + (v if e[1] == "Add" else -v)
        return {k: v for k, v in r.items() if v}
    return None


def is_domain_point(e, n_expr, item_expr):
    """is e = get_root_of_unity(log2(n))^item ?  returns True / False / None (cannot tell)"""
    e = strip_conv(e)
    if e[0] != "call":
        return None
    cn = e[1]
    if cn.endswith(("FieldElement::exp", "FieldElement::exp_vartime")) and len(e[2]) == 2:
        base, ex = strip_conv(e[2][0]), strip_conv(e[2][1])
        if not (base[0] == "call" and base[1].endswith("get_root_of_unity") and len(base[2]) == 1):
            return None
        lg = strip_conv(base[2][0])
        if not (lg[0] == "call" and lg[1].endswith(("ilog2", "trailing_zeros", "log2")) and strip_conv(lg[2][0]) == n_expr):
            return None
        if ex == item_expr:
            return True
        return None
    return None


def run(ck, prog):
    ck.rule("EXEMPT", "from_transition(n, k) exempts exactly the points g^s, n - k <= s < n, of the enforcement domain")
    f0 = prog.fn("winter_air::air::divisor::ConstraintDivisor::from_transition")
    ck.saw(f0)
    f = prog.inl(f0)
    key = "from_transition:last-k-points"
    n_sym, k_sym = ("p", 1), ("p", 2)

    def undecided(why):
        ck.note(f"EXEMPT: {why}; the clause is not decided on this tree")

    # --- form A: collect(map(range, closure)) ---------------------------------------------------------------------------------------------
    maps = [(b, t) for b, t in f.calls() if (callee_name(t) or "").endswith("Iterator::map") and f.closure_args(t)]
    collects = [(b, t) for b, t in f.calls() if (callee_name(t) or "").endswith("Iterator::collect")]
    if len(maps) == 1 and collects:
        b, t = maps[0]
        rng = strip_conv(expr_at(f, t["args"][0]))
        if not (rng[0] == "agg" and str(rng[1]).endswith("range::Range") and len(rng[2]) == 2):
            return undecided("the mapped iterator is not a plain range")
        lo, hi = rng[2]
        clo = prog.fns.get(f.closure_args(t)[0])
        if clo is None:
            return undecided("closure body not available")
        ci = prog.inl(clo)
        ck.saw(clo)
        rets = [expr_at(ci, {"copy": {"l": 0}})]
        # inside the closure: parameter 1 = captures (field 0 = &n), parameter 2 = the range item
        cap = expr_at(f, t["args"][1])
        cap0 = strip_conv(cap[2][0]) if cap[0] == "agg" and cap[2] else ("?",)
        if cap0 != n_sym:
            return undecided("the closure does not capture the domain size")
        ok_point = is_domain_point(rets[0], ("field", 0, ("p", 1)), ("p", 2))
        if ok_point is not True:
            return undecided("the mapped function is not recognised as g^item")
        llo, lhi = lin_in(lo, {"n": n_sym, "k": k_sym}), lin_in(hi, {"n": n_sym, "k": k_sym})
        if llo is None or lhi is None:
            return undecided("the range bounds are not linear in (n, k)")
        good = llo == {"n": 1, "k": -1} and lhi == {"n": 1}
        shifted = set(llo) <= {"n", "k", 1} and set(lhi) <= {"n", "k", 1} and llo.get("n") == 1 and llo.get("k") == -1 and lhi.get("n") == 1 and "k" not in lhi
        if not good and not shifted:
            return undecided("the range bounds have an unexpected shape")
        ck.ob("EXEMPT", key, good,
              "the exemption points are g^s for s in the range (n - k .. n): the last k steps of the enforcement domain, for every k",
              loc=f0.loc(b, T), detail=None if good else {"range": f"({llo} .. {lhi}) instead of (n - k .. n)"})
        return
    # --- forms B / C: a loop pushing into the vector -------------------------------------------------------------------------------------
    pushes = [(b, t) for b, t in f.calls() if (callee_name(t) or "").endswith("Vec::push")]
    if not pushes:
        return undecided("neither a mapped range nor a push loop builds the exemption points")
    g = flow(f)
    # form B: a loop over a range pushing point(item)
    for b, t in pushes:
        e = strip_conv(expr_at(f, t["args"][1]))
        if not (e[0] == "call" and e[1].endswith(("FieldElement::exp", "FieldElement::exp_vartime")) and len(e[2]) == 2):
            continue
        item = strip_conv(e[2][1])
        if not (item[0] == "field" and item[1] == 0 and item[2][0] == "call" and item[2][1].endswith("Iterator::next")):
            continue
        it = strip_conv(item[2][2][0])
        while it[0] == "call" and it[1].endswith(("IntoIterator::into_iter",)) and it[2]:
            it = strip_conv(it[2][0])
        if not (it[0] == "agg" and str(it[1]).endswith("range::Range") and len(it[2]) == 2):
            continue
        if is_domain_point(e, n_sym, item) is not True:
            return undecided("the pushed value is not recognised as g^item")
        llo, lhi = lin_in(it[2][0], {"n": n_sym, "k": k_sym}), lin_in(it[2][1], {"n": n_sym, "k": k_sym})
        if llo is None or lhi is None:
            return undecided("the range bounds are not linear in (n, k)")
        good = llo == {"n": 1, "k": -1} and lhi == {"n": 1}
        shifted = llo.get("n") == 1 and llo.get("k") == -1 and lhi.get("n") == 1 and "k" not in lhi and set(llo) <= {"n", "k", 1} and set(lhi) <= {"n", 1}
        if not good and not shifted:
            return undecided("the range bounds have an unexpected shape")
        ck.ob("EXEMPT", key, good,
              "the exemption points are g^s for s in the range (n - k .. n): the last k steps of the enforcement domain, for every k",
              loc=f0.loc(), detail=None if good else {"range": f"({llo} .. {lhi}) instead of (n - k .. n)"})
        return

    def root(l):
        """the variable a temporary is a plain copy of"""
        for _ in range(10):
            if l is not None and f.local_name(l):
                return l        # a variable of the source (it may be updated through a reference), not a temporary
            d = single_def(f, l) if l is not None else None
            if d is None or d[1] == "T" or d[2]["rv"]["k"] != "use":
                return l
            src = op_local(d[2]["rv"]["a"], pure=True)
            if src is None:
                return l
            l = src
        return l
    for b, t in pushes:
        if (b, S) not in reach(f, [(b, T)], include_starts=False):
            continue    # not in a loop
        x = root(op_local(t["args"][1], pure=True))
        if x is None:
            continue
        loop_blocks = {bb for bb in range(len(f.blocks)) if (bb, S) in reach(f, [(b, T)], include_starts=False) and (b, S) in reach(f, [(bb, T)], include_starts=False)} | {b}
        for bb, tt in f.calls():
            if bb not in loop_blocks:
                continue
            cn = callee_name(tt) or ""
            squared = False
            if cn.endswith("MulAssign::mul_assign") and len(tt["args"]) == 2:
                tl = op_local(tt["args"][0])
                tgt = {root(y) for y in (g.ref_of.get(tl, set()) | {tl})}
                squared = x in tgt and root(op_local(tt["args"][1], pure=True)) == x
            elif cn.endswith("Mul::mul") and len(tt["args"]) == 2 and "p" not in tt["dest"]:
                # x = x * x (the product is moved back into the running variable)
                a0, a1 = root(op_local(tt["args"][0], pure=True)), root(op_local(tt["args"][1], pure=True))
                back = any(s2["rv"]["k"] == "use" and op_local(s2["rv"]["a"], pure=True) == tt["dest"]["l"] and s2["lhs"]["l"] == x and "p" not in s2["lhs"]
                           for _, _, s2 in f.assigns()) or tt["dest"]["l"] == x
                squared = a0 == x and a1 == x and back
            elif cn.endswith(("FieldElement::square", "FieldElement::double")) and cn.endswith("square") and len(tt["args"]) == 1 and "p" not in tt["dest"]:
                back = any(s2["rv"]["k"] == "use" and op_local(s2["rv"]["a"], pure=True) == tt["dest"]["l"] and s2["lhs"]["l"] == x and "p" not in s2["lhs"]
                           for _, _, s2 in f.assigns()) or tt["dest"]["l"] == x
                squared = root(op_local(tt["args"][0], pure=True)) == x and back
            if squared:
                ck.ob("EXEMPT", key, False,
                      "the exemption points are g^s for the last k steps s of the enforcement domain", loc=f.loc(bb, T),
                      detail={"recurrence": "the running point is multiplied by ITSELF in the loop: exponents -1, -2, -4, -8, ... instead of "
                                            "-1, -2, -3, -4, ...; with three or more exemptions the exempted steps are not the last ones"})
                return
    # --- form C: x = g^e0; for _ in lo..hi { push(x); x *= m } with m = g or g^-1 (loop-invariant) --------------------------------------------
    verdict = _incremental_form(f, g, pushes, n_sym, k_sym, root)
    if verdict is not None:
        good, detail = verdict
        ck.ob("EXEMPT", key, good,
              "the exemption points are g^s for the last k steps s of the enforcement domain, for every legal k (incremental form: start exponent, "
              "step and count evaluated for n in {8, 16, 32} and every k in 1..=n/2+1)", loc=f0.loc(), detail=detail)
        return
    return undecided("a push loop whose recurrence is not one of the recognised forms builds the exemption points")


def eval_tree(e, env):
    """integer value of an expr_at tree; env maps ('p', i) parameters to numbers; None when a leaf is unknown"""
    e = strip_conv(e)
    if e[0] == "k":
        return e[1] if isinstance(e[1], int) else None
    if e in env:
        return env[e]
    if e[0] == "op":
        a, b = eval_tree(e[2], env), eval_tree(e[3], env)
        if a is None or b is None:
            return None
        try:
            return {"Add": a + b, "Sub": a - b, "Mul": a * b, "Div": a // b if b else None, "Rem": a % b if b else None,
                    "Shl": a << b if 0 <= b < 128 else None, "Shr": a >> b if 0 <= b < 128 else None}.get(e[1])
        except Exception:
            return None
    if e[0] == "call":
        name = e[1].split("::")[-1]
        vals = [eval_tree(x, env) for x in e[2]]
        if any(v is None for v in vals):
            return None
        if len(vals) == 2 and name in ("min", "max", "div_ceil", "saturating_sub", "wrapping_sub", "pow"):
            a, b = vals
            return {"min": min(a, b), "max": max(a, b), "div_ceil": -(-a // b) if b else None, "saturating_sub": max(a - b, 0),
                    "wrapping_sub": a - b, "pow": a ** b if 0 <= b < 64 else None}[name]
        if len(vals) == 1 and name in ("ilog2", "trailing_zeros") and vals[0] > 0:
            return vals[0].bit_length() - 1
    return None


def _incremental_form(f, g, pushes, n_sym, k_sym, root):
    def is_gen(e):
        """+1 if e = get_root_of_unity(log2 n), -1 if it is its inverse, else None"""
        e = strip_conv(e)
        if e[0] == "call" and e[1].endswith("get_root_of_unity") and len(e[2]) == 1:
            lg = strip_conv(e[2][0])
            return 1 if lg[0] == "call" and lg[1].endswith(("ilog2", "trailing_zeros", "log2")) and strip_conv(lg[2][0]) == n_sym else None
        if e[0] == "call" and e[1].endswith("FieldElement::inv") and len(e[2]) == 1:
            s1 = is_gen(e[2][0])
            return -s1 if s1 else None
        return None
    for b, t in pushes:
        if (b, S) not in reach(f, [(b, T)], include_starts=False):
            continue
        x = root(op_local(t["args"][1], pure=True))
        if x is None:
            continue
        loop_blocks = {bb for bb in range(len(f.blocks)) if (bb, S) in reach(f, [(b, T)], include_starts=False) and (b, S) in reach(f, [(bb, T)], include_starts=False)} | {b}
        # the multiplier
        step = None
        for bb, tt in f.calls():
            if bb not in loop_blocks:
                continue
            cn = callee_name(tt) or ""
            if cn.endswith("MulAssign::mul_assign") and len(tt["args"]) == 2:
                tl = op_local(tt["args"][0])
                if x in {root(y) for y in (g.ref_of.get(tl, set()) | {tl})}:
                    step = is_gen(expr_at(f, tt["args"][1]))
        if step is None:
            continue
        # the start point: the definition of x outside the loop
        inits = [(bb, i, st) for bb, i, st in f.defs.get(x, []) if bb not in loop_blocks]
        if len(inits) != 1:
            continue
        bb, i, st = inits[0]
        e = strip_conv(expr_at(f, st["args"][0]) if i == "T" and False else (("call", callee_name(st) or "?", tuple(expr_at(f, a) for a in st["args"]), bb) if i == "T" else expr_at(f, st["rv"].get("a") or {"copy": st["rv"].get("p", {})})))
        if not (e[0] == "call" and e[1].endswith(("FieldElement::exp", "FieldElement::exp_vartime")) and len(e[2]) == 2 and is_gen(e[2][0]) == 1):
            continue
        e0 = e[2][1]
        # the trip count: the range the loop iterates over
        rng = None
        for nb, nt in f.calls():
            if nb in loop_blocks and (callee_name(nt) or "").endswith("Iterator::next"):
                it = strip_conv(expr_at(f, nt["args"][0]))
                while it[0] == "call" and it[1].endswith("IntoIterator::into_iter") and it[2]:
                    it = strip_conv(it[2][0])
                if it[0] == "agg" and str(it[1]).endswith("range::Range") and len(it[2]) == 2:
                    rng = it[2]
        if rng is None:
            continue
        bad = None
        for n in (8, 16, 32):
            for k in range(1, n // 2 + 2):
                env = {n_sym: n, k_sym: k}
                start, lo, hi = eval_tree(e0, env), eval_tree(rng[0], env), eval_tree(rng[1], env)
                if start is None or lo is None or hi is None:
                    return None
                got = sorted({(start + step * j) % n for j in range(max(hi - lo, 0))})
                want = list(range(n - k, n))
                if got != want and bad is None:
                    bad = (n, k, got, want)
        if bad is None:
            return True, None
        return False, f"n = {bad[0]}, k = {bad[1]}: exempted steps {bad[2]}, the last k steps are {bad[3]}"
    return None


def _copies_of(f, x):
    """locals that are plain copies of x or that x is a plain copy of (one step each way, repeated)"""
    res = {x}
    changed = True
    while changed:
        changed = False
        for b, i, s in f.assigns():
            if s["rv"]["k"] == "use" and "p" not in s["lhs"]:
                src = op_local(s["rv"]["a"], pure=True)
                if src in res and s["lhs"]["l"] not in res:
                    res.add(s["lhs"]["l"])
                    changed = True
                if s["lhs"]["l"] in res and src is not None and src not in res and not f.local_name(src):
                    res.add(src)
                    changed = True
    return res - {None}


def count_rule(ck, prog):
    """COUNT (C02/C17): every loop of Air::get_constraint_composition_coefficients / get_deep_composition_coefficients that draws one
    coefficient per item runs over `0..N` where N is the count itself (a getter's result, only converted): a loop that starts at 1, or
    ends at N - 1, draws one coefficient too few on BOTH sides — prover and verifier take the number of constraints of that family from the
    length of the vector, so the last constraint is silently dropped."""
    ck.rule("COUNT", "coefficient-drawing loops run over 0..N with N the family's count itself")
    n = 0
    for name in ("get_constraint_composition_coefficients", "get_deep_composition_coefficients"):
        f0 = prog.fn("winter_air::air::Air::" + name)
        ck.saw(f0)
        f = prog.inl(f0)
        g = flow(f)
        nexts = [(b, t) for b, t in f.calls() if (callee_name(t) or "").endswith("Iterator::next")]
        for b, t in f.calls():
            if not (callee_name(t) or "").endswith("Vec::push"):
                continue
            w = g.walk(ops=[t["args"][1]], at=(b, T))
            if not any(x.endswith("RandomCoin::draw") for x in g.callee_names_in(w)):
                continue
            # the loop this push belongs to: the `next` call on a cycle with it
            hdr = [(nb, nt) for nb, nt in nexts if (nb, S) in reach(f, [(b, T)], include_starts=False) and (b, S) in reach(f, [(nb, T)], include_starts=False)]
            if len(hdr) != 1:
                ck.note(f"COUNT: {name}: a drawing loop of an unrecognised shape; not decided")
                continue
            it = strip_conv(expr_at(f, hdr[0][1]["args"][0]))
            while it[0] == "call" and it[1].endswith("IntoIterator::into_iter") and it[2]:
                it = strip_conv(it[2][0])
            if not (it[0] == "agg" and str(it[1]).endswith("range::Range") and len(it[2]) == 2):
                ck.note(f"COUNT: {name}: a drawing loop that is not over a plain range; not decided")
                continue
            lo, hi = strip_conv(it[2][0]), strip_conv(it[2][1])
            n += 1
            count = hi[1].split("::")[-1] if hi[0] == "call" else "?"
            good = lo == ("k", 0) and hi[0] == "call"
            ck.ob("COUNT", f"{name}:{count}#{n}", good,
                  f"Air::{name}: the loop drawing one coefficient per item runs over 0..{count}()", loc=f.loc(hdr[0][0], T),
                  detail=None if good else {"range": f"{lo} .. {hi[:2]}"})
        # one draw replicated: `vec![coin.draw()?; n]` evaluates the draw ONCE — every coefficient of the family is the same element, the
        # composition degenerates to alpha * (sum of the constraints) and violations that cancel in the plain sum pass (seed C02-N)
        for b, t in f.calls():
            if not (callee_name(t) or "").endswith(("vec::from_elem", "Vec::resize", "iter::repeat", "iter::repeat_n")) or not t["args"]:
                continue
            args = t["args"][:1] if not (callee_name(t) or "").endswith("Vec::resize") else t["args"][2:3]
            w = g.walk(ops=args, at=(b, T))
            if any(x.endswith("RandomCoin::draw") for x in g.callee_names_in(w)):
                n += 1
                ck.ob("COUNT", f"{name}:one-draw-replicated#{n}", False,
                      f"Air::{name}: every coefficient is drawn from the coin separately", loc=f.loc(b, T),
                      detail="a single drawn element is replicated for the whole family: all constraints of the family share one coefficient")
    ck.floor("coefficient-drawing loops", n, 5)


# ---- ADIV: the divisor of a boundary assertion -------------------------------------------------------------------------------------------

def assertion_divisor_rule(ck, prog):
    """ADIV (C02): `ConstraintDivisor::from_assertion(a, n)` builds x^k - g^(a.first_step * k) with k = a.get_num_steps(n) and g the
    generator of the n-point trace domain — the polynomial whose zeros are exactly the asserted steps.  Every (degree, constant) pair the
    function places in a numerator is examined on the view with private helpers inlined:
      * the degree is the result of `get_num_steps(assertion, n)` itself (only converted);
      * the constant is either g^(k * first_step) — `exp` of `get_root_of_unity(log2 n)` to the product of exactly these two values, in
        either order — or the field's ONE; ONE is the same value only when first_step = 0, so a ONE pair must sit behind the true edge of
        a comparison of `first_step` with 0;
      * no exemption points are added (the second argument of the constructor is an empty vector).
    A pair of any other recognisable shape (a different exponent: `first_step` alone, `stride * first_step`, the product plus or minus a
    constant; a degree computed from the count) is a violation: the zero set moves off the asserted steps for every assertion with a
    non-zero first step, which no honest end-to-end test notices when prover and verifier share the function.  Shapes the rule does not
    recognise are reported as not decided (a note)."""
    ck.rule("ADIV", "from_assertion(a, n) = x^k - g^(k * a.first_step), k = a.get_num_steps(n): degree and constant of every numerator term")
    f0 = prog.fn("winter_air::air::divisor::ConstraintDivisor::from_assertion")
    ck.saw(f0)
    f = prog.inl(f0)
    a_sym, n_sym = ("p", 1), ("p", 2)
    adt = "winter_air::air::assertions::Assertion"
    fields = prog.adt_fields(adt)
    names = [x if isinstance(x, str) else x.get("name") for x in fields]
    if "first_step" not in names:
        raise AnchorError("Assertion has no field `first_step`")
    fs_idx = names.index("first_step")
    first_step = ("field", fs_idx, a_sym)

    def is_num_steps(e):
        e = strip_conv(e)
        return e[0] == "call" and e[1].endswith("::get_num_steps") and tuple(strip_conv(x) for x in e[2]) == (a_sym, n_sym)

    def mentions(e, pred):
        if pred(e):
            return True
        return isinstance(e, tuple) and any(mentions(x, pred) for x in e[1:] if isinstance(x, tuple)) or \
            (isinstance(e, tuple) and any(isinstance(x, tuple) and any(mentions(y, pred) for y in x if isinstance(y, tuple)) for x in e[1:] if isinstance(x, tuple) and x and isinstance(x[0], tuple)))

    n_pairs = 0
    terms = []   # (block, index, degree expr, constant expr, block that decides the constant)
    for b, i, st in f.assigns():
        rv = st["rv"]
        if not (rv["k"] == "agg" and rv.get("agg") == "tuple" and len(rv["ops"]) == 2):
            continue
        ty = f.local_ty(st["lhs"]["l"]) if "lhs" in st and isinstance(st["lhs"], dict) and "l" in st["lhs"] else ""
        if not ty.replace(" ", "").startswith("(usize,"):
            continue
        deg = expr_at(f, rv["ops"][0])
        c = strip_conv(expr_at(f, rv["ops"][1]))
        if c[0] == "local" and c[1] in f.defs and len(f.defs[c[1]]) > 1:
            # one tuple whose constant is chosen by a branch (`let offset = if first_step != 0 { g^.. } else { ONE }`): one term per definition
            for db, di, dst in f.defs[c[1]]:
                if di == "T":
                    ce = ("call", callee_name(dst) or "?", tuple(expr_at(f, a) for a in dst["args"]), db)
                elif dst["rv"]["k"] in ("use", "cast"):
                    ce = expr_at(f, dst["rv"]["a"])
                else:
                    ce = ("?",)
                terms.append((b, i, deg, strip_conv(ce), db))
        else:
            terms.append((b, i, deg, c, b))
    for b, i, deg, c, cb in terms:
        n_pairs += 1
        inst = "one" if c[0] == "k" else "offset"
        # degree
        if is_num_steps(deg):
            ck.ob("ADIV", f"from_assertion:{inst}:degree", True, "the degree of the numerator term is get_num_steps(assertion, trace_length)", loc=f.loc(b, i))
        elif mentions(deg, is_num_steps) or mentions(deg, lambda e: e == n_sym) or mentions(deg, lambda e: isinstance(e, tuple) and e[0] == "field"):
            ck.ob("ADIV", f"from_assertion:{inst}:degree", False, "the degree of the numerator term is get_num_steps(assertion, trace_length)", loc=f.loc(b, i),
                  detail={"degree expression": repr(deg)[:300]})
        else:
            ck.note("ADIV: the degree of a numerator term has an unrecognised shape; not decided")
        # constant
        if c[0] == "k":
            if not str(c[1]).endswith("::ONE"):
                ck.ob("ADIV", f"from_assertion:{inst}:constant", False, "a constant numerator offset is the field's ONE", loc=f.loc(b, i), detail={"constant": repr(c)})
                continue
            ok = _behind_zero_test(f, cb, first_step)
            if ok is None:
                ck.note("ADIV: the branch that uses ONE as the offset is not behind a recognisable comparison; not decided")
            else:
                ck.ob("ADIV", "from_assertion:one:only-when-first-step-is-zero", ok,
                      "the term x^k - 1 is used only behind the true edge of `first_step == 0` (g^(k*0) = 1)", loc=f.loc(b, i))
            continue
        if not (c[0] == "call" and c[1].endswith(("FieldElement::exp", "FieldElement::exp_vartime")) and len(c[2]) == 2):
            ck.note("ADIV: the offset of a numerator term is not an exponentiation; not decided")
            continue
        base, ex = strip_conv(c[2][0]), strip_conv(c[2][1])
        lg = strip_conv(base[2][0]) if base[0] == "call" and base[1].endswith("get_root_of_unity") and len(base[2]) == 1 else None
        if lg is None or not (lg[0] == "call" and lg[1].endswith(("ilog2", "trailing_zeros", "log2"))):
            ck.note("ADIV: the base of the offset is not get_root_of_unity(log2 ..); not decided")
            continue
        dom_ok = strip_conv(lg[2][0]) == n_sym
        ck.ob("ADIV", "from_assertion:offset:domain", dom_ok, "the offset is a power of the generator of the trace domain (get_root_of_unity(log2 trace_length))",
              loc=f.loc(b, i), detail=None if dom_ok else {"log2 of": repr(strip_conv(lg[2][0]))[:200]})
        good = ex[0] == "op" and ex[1] == "Mul" and (
            (is_num_steps(ex[2]) and strip_conv(ex[3]) == first_step) or (is_num_steps(ex[3]) and strip_conv(ex[2]) == first_step))
        if good:
            ck.ob("ADIV", "from_assertion:offset:exponent", True, "the exponent of the offset is get_num_steps(..) * first_step", loc=f.loc(b, i))
        elif mentions(ex, lambda e: e == first_step) or mentions(ex, is_num_steps) or mentions(ex, lambda e: isinstance(e, tuple) and e[0] == "field"):
            ck.ob("ADIV", "from_assertion:offset:exponent", False, "the exponent of the offset is get_num_steps(..) * first_step", loc=f.loc(b, i),
                  detail={"exponent expression": repr(ex)[:300]})
        else:
            ck.note("ADIV: the exponent of the offset has an unrecognised shape; not decided")
    # exemptions: every construction of the divisor in this function (constructor call, or its struct literal on the inlined view) has an
    # empty vector of exemption points
    cands = [(b, T, t["args"][1]) for b, t in f.calls() if (callee_name(t) or "").endswith("ConstraintDivisor::new") and len(t["args"]) == 2]
    cands += [(b, i, st["rv"]["ops"][1]) for b, i, st in f.assigns()
              if st["rv"]["k"] == "agg" and str(st["rv"].get("adt") or "").endswith("ConstraintDivisor") and len(st["rv"]["ops"]) == 2]
    for b, i, op in cands:
        ex = strip_conv(expr_at(f, op))
        if ex[0] == "call" and ex[1].endswith("Vec::new"):
            ck.ob("ADIV", "from_assertion:no-exemptions", True, "an assertion divisor has no exemption points", loc=f.loc(b, i))
        else:
            ck.note("ADIV: the exemptions of an assertion divisor are not a plain Vec::new(); not decided")
    ck.floor("ADIV: numerator terms examined", n_pairs, 2)


def _behind_zero_test(f, blk, first_step):
    """True: every path from the entry to `blk` passes the edge on which `first_step == 0` holds; False: a comparison of first_step
    decides the branch but with another constant / polarity; None: not recognisable"""
    from ..cfg import trace_cond
    verdict = None
    for b in range(len(f.blocks)):
        t = f.term(b)
        if t["k"] != "switch":
            continue
        d = expr_at(f, t["d"])
        d = strip_conv(d)
        if not (d[0] == "op" and d[1] in ("Eq", "Ne") and (strip_conv(d[2]) == first_step or strip_conv(d[3]) == first_step)):
            continue
        other = strip_conv(d[3]) if strip_conv(d[2]) == first_step else strip_conv(d[2])
        # successor taken when the comparison is true
        tgt_true = None
        for v, tb in t["targets"]:
            if int(v) == 0:
                tgt_false = tb
        tgt_false = next((tb for v, tb in t["targets"] if int(v) == 0), None)
        tgt_true = t["otherwise"]
        holds_edge = tgt_true if d[1] == "Eq" else tgt_false     # edge on which first_step == other
        other_edge = tgt_false if d[1] == "Eq" else tgt_true
        if holds_edge is None or other_edge is None:
            continue
        r_hold = reach(f, [(holds_edge, S)])
        r_other = reach(f, [(other_edge, S)])
        in_hold, in_other = (blk, S) in r_hold, (blk, S) in r_other
        if in_hold and not in_other:
            verdict = (other == ("k", 0))
        elif in_other and not in_hold:
            verdict = False
    return verdict
