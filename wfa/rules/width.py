"""Rule WIDTH (shared by C12, C01, C15) — a length prefix is wide enough for the longest byte string an honest prover can produce.

Every byte-string field of a proof component travels as `write_uN(field.len() as uN); write_bytes(&field)`.  The cast is unguarded on
purpose: the protocol limits declared elsewhere (queries <= 255, folding factor <= 16, trace width <= 255, remainder degree <= 255, ...)
are what keeps the length below 2^(8N).  Narrowing the prefix on BOTH sides (writer and reader agree, every test still passes) silently
truncates the length of an honest proof whose configuration is legal but larger than anything the suite builds.

The rule reads, on every run, (a) the width N of the prefix from the writer's MIR (the `ByteWriter::write_uN` call whose argument derives
from `Vec::len` of the field; a `write_usize` prefix is unbounded), and (b) the protocol limits from the constants of the compiled crates.
For every field it evaluates an *attainable* length — the byte length the field has for one concrete, ordinary, legal configuration
(stated per entry below, each confirmed by reading the constructor that fills the field) — and requires 2^(8N) > that length.  The
witness configurations are deliberately modest (a 2^20-row trace, 255 queries, the quadratic extension of the 128-bit field); they are
lower bounds of the true maxima, so the rule can only miss a prefix that is too narrow for a still larger proof, never object to one that
is wide enough.  Reader widths are not examined here: rule S1 (C12) proves the reader's grammar equal to the writer's token by token.
"""
from ..flow import flow
from ..ir import callee_name
from ..serde_grammar import SER, BW

FIX = {"write_u8": 1, "write_u16": 2, "write_u32": 4, "write_u64": 8, "write_u128": 16}


def _limits(prog, ck):
    """protocol limits from the compiled constants (by name, with today's values as the fallback: every fallback is a value that is legal
    on the pinned tree, so a witness computed from it stays attainable)"""
    def num(v):
        sc = str(v["scalar"])
        return int(sc, 16) if sc.startswith("0x") else int(sc)

    def c(suffix, default):
        vals = {num(v) for k, v in prog.consts.items() if k.endswith(suffix) and "examples" not in k and v.get("scalar") is not None}
        if len(vals) == 1:
            return vals.pop(), True
        return default, False
    lim = {}
    found = 0
    for name, suffix, default in (("Q", "options::MAX_NUM_QUERIES", 255), ("FOLD", "options::FRI_MAX_FOLDING_FACTOR", 16),
                                  ("REM", "options::FRI_MAX_REMAINDER_DEGREE", 255), ("BLOWUP", "options::MAX_BLOWUP_FACTOR", 128),
                                  ("W", "::MAX_TRACE_WIDTH", 255), ("META", "::MAX_META_LENGTH", 65535)):
        lim[name], ok = c(suffix, default)
        found += ok
    # largest supported element: the quadratic extension of the widest base field that has an ExtensibleField<2> impl
    eb = {}
    for k, v in prog.consts.items():
        if k.startswith("winter_math::field::f") and k.endswith("::ELEMENT_BYTES") and v.get("scalar") is not None and "{impl" not in k:
            eb[k.split("::")[2]] = num(v)
    quad = set()
    for im in prog.impls:
        if (im.get("trait") or "").endswith("::ExtensibleField") and "ExtensibleField<2>" in (im.get("trait_ref") or ""):
            for f in eb:
                if f"::{f}::" in (im.get("self_ty") or ""):
                    quad.add(f)
    base = max(eb.values()) if eb else 16
    lim["EB_BASE"] = base
    lim["E"] = max([eb[f] * 2 for f in quad] + [base]) if eb else 32
    lim["DIGEST"] = 24            # the smallest digest of the workspace hashers (Blake3_192); a lower bound keeps witnesses attainable
    lim["LOGN"] = 20              # witness trace length 2^20
    lim["LOGB"] = 3               # witness blowup 8
    ck.stats["WIDTH limits read from constants"] = dict(lim, _found=found)
    return lim


def _witness(lim):
    """(type, field) -> (attainable byte length, how it is attained).  Each formula was confirmed by reading the code that fills the field."""
    q, e, d = lim["Q"], lim["E"], lim["DIGEST"]
    depth_trace = lim["LOGN"] + lim["LOGB"]                  # Merkle depth over the LDE domain
    nodes = q * (depth_trace - 8 - 1)                        # positions spread evenly share nothing below level 8 (2^8 >= 255 paths)
    return {
        ("Queries", "values"): (q * lim["W"] * lim["EB_BASE"], f"{q} opened rows of a {lim['W']}-column main segment over the widest base field (Queries::new: rows written one after another)"),
        ("Queries", "paths"): (nodes * d, f"batch opening of {q} evenly spread positions in a tree of depth {depth_trace}: at least {nodes} internal nodes of {d} bytes (serialize_nodes)"),
        ("FriProofLayer", "values"): (q * lim["FOLD"] * e, f"{q} opened rows of {lim['FOLD']} evaluations (folding factor {lim['FOLD']}) of {e}-byte extension elements (FriProofLayer::new)"),
        ("FriProofLayer", "paths"): (q * (depth_trace - 1 - 8 - 1) * d, f"first FRI layer with folding factor 2: tree of depth {depth_trace - 1}, {q} evenly spread positions"),
        ("FriProof", "remainder"): ((lim["REM"] + 1) * e, f"remainder polynomial of degree {lim['REM']} over {e}-byte elements (FriProof::new)"),
        ("OodFrame", "trace_states"): (1 + 2 * lim["W"] * e, f"frame-size byte + current and next row of {lim['W']} columns of {e}-byte elements (OodFrame::set_trace_states)"),
        ("OodFrame", "lagrange_kernel_trace_states"): (1 + (lim["LOGN"] + 1) * e, f"length byte + log2(n)+1 = {lim['LOGN'] + 1} Lagrange kernel frame entries of {e} bytes for a 2^{lim['LOGN']}-row trace"),
        ("OodFrame", "evaluations"): ((lim["BLOWUP"] // 2) * e, f"{lim['BLOWUP'] // 2} composition columns (constraint degree {lim['BLOWUP'] // 2} under blowup {lim['BLOWUP']}) of {e}-byte elements"),
        ("Commitments", "0"): ((2 + 1 + (lim["LOGN"] + lim["LOGB"]) // 2) * d, f"two trace segment roots, the constraint root and the FRI layer roots of a 2^{depth_trace} domain folded by 4, {d}-byte digests"),
        ("TraceInfo", "trace_meta"): (lim["META"], "the constructor accepts metadata of up to MAX_META_LENGTH bytes"),
    }


def prefix_sites(prog):
    """[(type id, short type, field, width in bytes or None for a variable-length integer, fn, block)] for every length prefix that a
    Serializable::write_into of a workspace type writes for one of its own fields"""
    out = []
    for im in prog.impls:
        if im.get("trait") != SER or im["crate"] == "examples":
            continue
        for it in im["items"]:
            if it["name"] != "write_into":
                continue
            fn = prog.fns[it["id"]]
            views = [fn]
            try:
                views.append(prog.inl(fn))
            except Exception:
                pass
            seen = set()
            for view in views:
                g = flow(view)
                for b, t in view.calls():
                    f = t.get("fn") or {}
                    if f.get("trait") != BW or f.get("item") not in tuple(FIX) + ("write_usize",):
                        continue
                    nodes = g.call_arg_slice(b, 1, through=lambda t: True)
                    for lb, lt in g.calls_in(nodes):
                        cn = callee_name(lt) or ""
                        if not (cn.endswith("::len") and lt.get("args")):
                            continue
                        flds = g.fields_in(g.walk(ops=[lt["args"][0]], at=(lb, "T"), through=lambda t: False))
                        for adt, name in flds:
                            if adt == im["self_ty"].split("<")[0] or adt == im["self_ty"]:
                                key = (adt, name)
                                if key in seen:
                                    continue
                                seen.add(key)
                                out.append((adt, adt.split("::")[-1], name, FIX.get(f.get("item")), fn, b, view))
    return out


def run(ck, prog, only=None, rule="WIDTH", floor=10, standalone=False):
    ck.rule(rule, "every length prefix written for a byte-string field of a proof component is wide enough for the length that field has "
                  "in an ordinary legal configuration (widths from the writer's MIR, protocol limits from the compiled constants, "
                  "attainable lengths from a table confirmed by reading); reader widths follow from S1")
    lim = _limits(prog, ck)
    wit = _witness(lim)
    n = 0
    for adt, short, name, width, fn, b, view in prefix_sites(prog):
        if only and short not in only:
            continue
        if (short, name) not in wit:
            continue
        need, how = wit[(short, name)]
        ck.saw(fn)
        n += 1
        ok = width is None or 2 ** (8 * width) > need
        ck.ob(rule, f"prefix:{short}.{name}", ok,
              f"{short}::write_into: the length prefix of `{name}` ({'variable-length integer' if width is None else str(8 * width) + ' bits'}) can hold "
              f"{need} — {how}", loc=view.loc(b),
              detail=None if ok else f"a {8 * width}-bit prefix holds at most {2 ** (8 * width) - 1}; an honest proof reaches {need} bytes ({how}); "
                                     "the cast truncates the length and the proof no longer parses")
    if standalone:
        standalone_fri(ck, prog, rule, lim, only)
    ck.floor(f"{rule}: length prefixes examined", n, floor)
    ck.control(f"{rule}: a 16-bit prefix cannot hold the opened values of a folding-16 FRI layer", not (2 ** 16 > wit[("FriProofLayer", "values")][0]))
    return n


def standalone_fri(ck, prog, rule, lim, only):
    """winter-fri is a public crate of its own: `FriOptions::new` is the only limit on the remainder of a stand-alone FRI proof. The
    interval engine (E4) evaluates the constructor with unconstrained arguments; the largest `remainder_max_degree` it accepts gives the
    longest remainder, which the prefix written by `FriProof::write_into` must hold."""
    if only and "FriProof" not in only:
        return
    from ..ranges import Analyzer, top_ty
    ctor = prog.fn_opt("winter_fri::options::FriOptions::new")
    if ctor is None:
        ck.note(f"{rule}: FriOptions::new not found; the stand-alone FRI clause is not decided")
        return
    names = [x if isinstance(x, str) else x.get("name") for x in prog.adt_fields("winter_fri::options::FriOptions")]
    if "remainder_max_degree" not in names:
        ck.note(f"{rule}: FriOptions has no field remainder_max_degree; the stand-alone FRI clause is not decided")
        return
    idx = names.index("remainder_max_degree")
    an = Analyzer(prog, max_depth=4, opaque=lambda fn: fn.crate != "winter_fri")
    s = an.analyze(ctor, [top_ty(t, False) for t in ctor.get("inputs")])
    his = [rv["f"][idx]["hi"] for rv, _ in s.accepts if rv.get("k") == "agg" and rv["f"].get(idx, {}).get("k") == "int"]
    if not his:
        ck.note(f"{rule}: no accepting path of FriOptions::new was found; the stand-alone FRI clause is not decided")
        return
    max_deg = max(his)
    sites = [x for x in prefix_sites(prog) if x[1] == "FriProof" and x[2] == "remainder"]
    for adt, short, name, width, fn, b, view in sites:
        need = (min(max_deg, 2 ** 40) + 1) * lim["EB_BASE"]
        ok = width is None or 2 ** (8 * width) > need
        ck.ob(rule, "prefix:FriProof.remainder:standalone-fri-options", ok,
              f"FriProof::write_into: the length prefix of `remainder` holds the remainder of every configuration FriOptions::new accepts "
              f"(largest accepted remainder_max_degree: {max_deg if max_deg < 2 ** 40 else 'unbounded'})", loc=view.loc(b),
              detail=None if ok else f"FriOptions::new accepts remainder_max_degree up to {max_deg if max_deg < 2 ** 40 else 'usize::MAX'}; already 4095 over a "
                                     f"{lim['EB_BASE']}-byte field gives a 65536-byte remainder, which a {8 * width}-bit prefix writes as 0")
