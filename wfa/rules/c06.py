"""C06 — untrusted input never panics: range-checked taint analysis (engine E4) of the parsing layer
(Proof::from_bytes and everything it reaches) and of the verifier on a parsed proof (policy check, seed
construction, channel construction and sub-parsers, transcript replay, Merkle opening checks, FRI verifier)."""
from ..ir import Program, callee_name, AnchorError
from ..ranges import Analyzer, seq, mk, top, taint_of

TI = "winter_air::air::trace_info::TraceInfo"
PO = "winter_air::options::ProofOptions"
AC = "winter_air::air::context::AirContext"
CTX = "winter_air::proof::context::Context"
PROOF = "winter_air::proof::Proof"


AIRCTX_ANALYSED = ("lde_domain_size", "trace_len", "trace_info", "options", "lde_blowup_factor", "trace_length_ext")


def opaque(fn):
    n = fn.nname
    if fn.crate in ("examples", "winter_prover", "winter_rand_utils"):
        return True
    if fn.crate == "winter_math":
        # field arithmetic, FFT and polynomial code are total functions of field elements (C07/C20); the byte-level
        # conversion helper reached with proof-controlled lengths is analysed
        return not n.endswith("from_bytes_with_padding")
    if fn.crate == "winter_crypto":
        return not ("::merkle::proofs::" in n)
    if fn.get("impl_self_adt") == AC and fn.get("item_name") not in AIRCTX_ANALYSED:
        return True
    if n == "winter_air::proof::get_proven_security":
        return True  # floating-point estimate: no integer obligation depends on proof bytes beyond its arguments' ranges
    return False


# result ranges assumed (and checked by reading) for functions whose loops the havoc summarisation cannot bound
CONTRACTS = {
    # counts the significant bits of at most 255 modulus bytes: the counter starts at 8*len and is decremented at most len times by 8
    "winter_air::proof::context::Context::num_modulus_bits": (0, 8 * 255),
}


def trusted(fn):
    """opaque functions whose result is a property of the AIR definition (not of the proof bytes): consistency of the AIR's own
    parameters with the trace shape is asserted when the AIR is instantiated (Air::new), outside this check's scope"""
    return fn.get("impl_self_adt") == AC


def build(prog):
    an = Analyzer(prog, max_depth=14, opaque=opaque, path_limit=60000)
    an.trusted = trusted
    an.contracts = dict(CONTRACTS)
    root = prog.fn(PROOF + "::from_bytes")
    s1 = an.analyze(root, [seq(mk(0, 2**40, True), True)])
    proof_val = None
    if s1.ret and s1.ret["k"] == "enum" and 0 in s1.ret["v"]:
        proof_val = s1.ret["v"][0]["f"].get(0)
    # relational facts that hold on every accepting path of the parser (hull over the outcomes)
    facts = s1.hull
    an.parse_facts = facts or {}
    return an, s1, proof_val


def verify_scope(prog, an, proof_val):
    """analyse verify() on an arbitrary successfully parsed proof"""
    if proof_val is None or proof_val["k"] != "agg":
        raise AnchorError("could not derive the abstract value of a parsed Proof")
    pf = prog.adt_fields(PROOF)
    ctx = proof_val["f"][pf.index("context")]
    cf = prog.adt_fields(CTX)
    ti = ctx["f"][cf.index("trace_info")]
    po = ctx["f"][cf.index("options")]
    an.type_inv[TI] = ti
    an.type_inv[PO] = po
    acf = prog.adt_fields(AC)
    acv = {"k": "agg", "f": {}, "t": False}
    for i, f in enumerate(acf):
        if f == "trace_info":
            acv["f"][i] = ti
        elif f == "options":
            acv["f"][i] = po
        else:
            fty = prog.adt(AC)["variants"][0]["fields"][i]["ty"]
            from ..ranges import top_ty
            acv["f"][i] = top_ty(fty, False)
    an.type_inv[AC] = acv
    res = []
    sl = prog.fn(PROOF + "::security_level")
    for flag in (1, 0):
        res.append((f"Proof::security_level({bool(flag)})", an.analyze(sl, [proof_val, mk(flag, flag)], (), None, an.parse_facts)))
    vnew = prog.fn("winter_verifier::channel::VerifierChannel::new")
    res.append(("VerifierChannel::new", an.analyze(vnew, [top(False), proof_val], (), None, an.parse_facts)))
    return res


def run(ck):
    prog = Program("default")
    ck.analysed["configs"].add("default")
    ck.explanation = (
        "Forward abstract interpretation of the MIR (intervals with power-of-two flag, lengths of byte strings and vectors, variant "
        "sets of Option/Result, struct fields, symbolic tags with relational facts for sums/products, taint = derived from input "
        "bytes), path-sensitive inside functions (loops summarised by havoc), inter-procedural with context-sensitive, disjunctive "
        "summaries; trait calls inside generic bodies are resolved through the type substitution of the call chain. Taint sources "
        "are the ByteReader methods; the abstract value of a successfully parsed Proof computed for Proof::from_bytes is then fed to "
        "verify(), with the AIR's trace_info/options bound to the proof's (that is what every Air::new does). Every site that can "
        "panic, overflow, index out of bounds or pre-allocate is an obligation; it is discharged when proved safe and alarmed only "
        "when it may fail AND its operand (or the branch leading to an explicit panic) is tainted. Field arithmetic, hashing, FFT and "
        "polynomial code are treated as total functions of field elements and not entered. Termination and memory beyond "
        "pre-allocation by unchecked counts are not decided."
    )
    ck.rule("E4", "no tainted, unproven operand reaches a panic / overflow / bounds / allocation site")
    an, s1, proof_val = build(prog)
    ck.floor("functions analysed (parsing)", an.stats["functions"], 20)
    scopes = [("Proof::from_bytes", s1)] + verify_scope(prog, an, proof_val)
    ck.floor("functions analysed (total)", an.stats["functions"], 45)
    ck.stats.update({k: v for k, v in an.stats.items()})
    seen = set()
    for scope, s in scopes:
        for a in s.alarms:
            if a.key in seen:
                continue
            seen.add(a.key)
            ck.ob("E4", a.key, False,
                  f"{a.what}: {a.key.split('/', 1)[1] if '/' in a.key else a.key} in {a.fn.nname} may fail on untrusted input (scope {scope})",
                  loc=a.loc, detail=(a.detail or "") + " | reached through: " + " -> ".join(prog.fns[c].nname.split("::")[-1] for c in a.chain[-6:]))
    # the Merkle openings inside the proof: every field of a parsed BatchMerkleProof and the queried positions attacker-controlled
    from . import c10
    an_m = Analyzer(prog, max_depth=8, opaque=c10.opaque, path_limit=80000)
    for scope, s in c10.merkle_scopes(prog, an_m):
        for a in s.alarms:
            if a.key not in seen:
                seen.add(a.key)
                ck.ob("E4", a.key, False, f"{a.what} in {a.fn.nname} may fail on a malformed opening (scope {scope})", loc=a.loc, detail=a.detail)
    from ..ranges import report_sites
    n = report_sites(ck, an)
    n_m = report_sites(ck, an_m)
    ck.stats["merkle_sites_safe"] = n_m["safe"]
    ck.floor("distinct sites proved safe", n["safe"], 35)
    controls(ck, prog)


def controls(ck, prog):
    """Positive control on real code: ProofOptions::new called with fully attacker-chosen integers must alarm
    (its assertions are exactly what a deserializer has to pre-check)."""
    an = Analyzer(prog, opaque=opaque)
    f = prog.fn(PO + "::new")
    args = [mk(0, 2**64 - 1, True), mk(0, 2**64 - 1, True), mk(0, 2**32 - 1, True), top(True), mk(0, 2**64 - 1, True), mk(0, 2**64 - 1, True)]
    s = an.analyze(f, args)
    ck.control("ProofOptions::new with unconstrained tainted arguments raises alarms", len(s.alarms) >= 5)
