"""C06 — untrusted input never panics: range-checked taint analysis (engine E4) of the parsing layer
(Proof::from_bytes and everything it reaches) and of the verifier on a parsed proof (policy check, seed
construction, channel construction and sub-parsers, transcript replay, Merkle opening checks, FRI verifier)."""
from ..ir import Program, callee_name, AnchorError
from ..ranges import Analyzer, seq, mk, top, taint_of

TI = "winter_air::air::trace_info::TraceInfo"
PO = "winter_air::options::ProofOptions"
AC = "winter_air::air::context::AirContext"
CTX = "winter_air::proof::context::Context"
PROOF = "winter_air::proof::Proof"


AIRCTX_ANALYSED = ("lde_domain_size", "trace_len", "trace_info", "options", "lde_blowup_factor", "trace_length_ext")


def opaque(fn):
    n = fn.nname
    if fn.crate in ("examples", "winter_prover", "winter_rand_utils"):
        return True
    if fn.crate == "winter_math":
        # field arithmetic, FFT and polynomial code are total functions of field elements (C07/C20); the byte-level
        # conversion helper reached with proof-controlled lengths is analysed
        return not n.endswith("from_bytes_with_padding")
    if fn.crate == "winter_crypto":
        return not ("::merkle::proofs::" in n)
    if fn.get("impl_self_adt") == AC and fn.get("item_name") not in AIRCTX_ANALYSED:
        return True
    if n == "winter_air::proof::get_proven_security":
        return True  # floating-point estimate: no integer obligation depends on proof bytes beyond its arguments' ranges
    return False


# result ranges assumed (and checked by reading) for functions whose loops the havoc summarisation cannot bound
CONTRACTS = {
    # counts the significant bits of at most 255 modulus bytes: the counter starts at 8*len and is decremented at most len times by 8
    "winter_air::proof::context::Context::num_modulus_bits": (0, 8 * 255),
}


def trusted(fn):
    """opaque functions whose result is a property of the AIR definition (not of the proof bytes): consistency of the AIR's own
    parameters with the trace shape is asserted when the AIR is instantiated (Air::new), outside this check's scope"""
    return fn.get("impl_self_adt") == AC


def build(prog):
    an = Analyzer(prog, max_depth=14, opaque=opaque, path_limit=60000)
    an.trusted = trusted
    an.contracts = dict(CONTRACTS)
    root = prog.fn(PROOF + "::from_bytes")
    s1 = an.analyze(root, [seq(mk(0, 2**40, True), True)])
    proof_val = None
    if s1.ret and s1.ret["k"] == "enum" and 0 in s1.ret["v"]:
        proof_val = s1.ret["v"][0]["f"].get(0)
    # relational facts that hold on every accepting path of the parser (hull over the outcomes)
    facts = s1.hull
    an.parse_facts = facts or {}
    return an, s1, proof_val


def verify_scope(prog, an, proof_val):
    """analyse verify() on an arbitrary successfully parsed proof"""
    if proof_val is None or proof_val["k"] != "agg":
        raise AnchorError("could not derive the abstract value of a parsed Proof")
    pf = prog.adt_fields(PROOF)
    ctx = proof_val["f"][pf.index("context")]
    cf = prog.adt_fields(CTX)
    ti = ctx["f"][cf.index("trace_info")]
    po = ctx["f"][cf.index("options")]
    an.type_inv[TI] = ti
    an.type_inv[PO] = po
    acf = prog.adt_fields(AC)
    acv = {"k": "agg", "f": {}, "t": False}
    for i, f in enumerate(acf):
        if f == "trace_info":
            acv["f"][i] = ti
        elif f == "options":
            acv["f"][i] = po
        else:
            fty = prog.adt(AC)["variants"][0]["fields"][i]["ty"]
            from ..ranges import top_ty
            acv["f"][i] = top_ty(fty, False)
    an.type_inv[AC] = acv
    res = []
    sl = prog.fn(PROOF + "::security_level")
    for flag in (1, 0):
        res.append((f"Proof::security_level({bool(flag)})", an.analyze(sl, [proof_val, mk(flag, flag)], (), None, an.parse_facts)))
    vnew = prog.fn("winter_verifier::channel::VerifierChannel::new")
    res.append(("VerifierChannel::new", an.analyze(vnew, [top(False), proof_val], (), None, an.parse_facts)))
    an.ac_inputs = (ti, po, acv)
    return res


def aircontext_scope(ck, prog, ti, po, acv):
    """The AIR is constructed from the proof's trace_info and options — verify(): A::new(proof.trace_info(), pub_inputs, proof.options()) —
    and every Air::new builds an AirContext from them, so the assertions of AirContext::new / new_multi_segment /
    set_num_transition_exemptions on those two arguments are reachable from proof bytes. Only explicit panics are reported from this scope:
    the two arguments are analysed with their individual deserializer invariants, without the joint LDE-size bound of Context::read_from, so
    arithmetic-overflow sites of this scope would be imprecise. These are genuine defects that have no small safe repair (Air::new cannot
    return an error); they are listed in known_findings.json and reported as KNOWN-FINDING."""
    from ..ranges import top_ty
    ck.rule("AC", "AirContext constructors do not panic on the proof-supplied trace info and options (no small safe repair: known findings)")
    an2 = Analyzer(prog, max_depth=5, opaque=lambda fn: fn.crate != "winter_air" or "::proof::" in fn.nname)
    an2.type_inv[TI] = ti
    an2.type_inv[PO] = po
    an2.type_inv[AC] = acv
    an2.sticky_control = True     # which assertion on the AIR's own data is reached is chosen by the proof (is_multi_segment)
    for name in (AC + "::new", AC + "::new_multi_segment", AC + "::set_num_transition_exemptions"):
        f = prog.fn(name)
        ck.saw(f)
        args = []
        for ty in f.get("inputs") or []:
            t = ty.replace("mut ", "").lstrip("&")
            if t.endswith("TraceInfo"):
                args.append(ti)
            elif t.endswith("ProofOptions"):
                args.append(po)
            elif t in ("Self",) or t.startswith("winter_air::air::context::AirContext"):
                args.append(acv)
            else:
                args.append(top_ty(ty, False))
        an2.analyze(f, args)
    n = 0
    for k, (status, loc) in sorted(an2.site_log.items()):
        if "/panic:" not in k or not k.startswith(AC):
            continue
        n += 1
        short = k[len("winter_air::air::context::"):]
        ck.ob("AC", short, status in ("safe", "untainted"),
              f"{short.split('/')[0]}: this assertion cannot fail for a trace info and options taken from a parsed proof", loc=loc)
    ck.floor("assertions of the AirContext constructors examined", n, 8)
    # the same mechanism one step later: evaluate_constraints asks the AIR for its boundary constraints, and BoundaryConstraints::new validates
    # the AIR's assertions against the trace width / length of the context (i.e. the values CLAIMED BY THE PROOF) by panicking
    from ..flow import flow
    from ..ir import callee_name
    from ..cfg import T
    pa = [f for f in prog.fns.values() if f.crate == "winter_air" and f.kind != "closure" and
          any((callee_name(t) or "").endswith(("Assertion::validate_trace_length", "Assertion::validate_trace_width")) for _, t in f.calls())]
    bad = []
    for f in pa:
        ck.saw(f)
        fi = prog.inl(f)
        g = flow(fi)
        for b, t in fi.calls():
            cn = callee_name(t) or ""
            if cn.endswith(("Result::unwrap_or_else", "Result::unwrap", "Result::expect")) and t["args"]:
                w = g.walk(ops=t["args"][:1], at=(b, T), through=lambda tt: False)
                if any((callee_name(fi.term(n[1])) or "").endswith(("validate_trace_length", "validate_trace_width")) for n in w if n[0] == "c"):
                    bad.append(f.nname.split("::")[-1])
    if pa:
        ck.ob("AC", "boundary-assertions:validated-by-panic", not bad,
              "the AIR's boundary assertions are not validated against the proof-claimed trace width/length by a panic "
              "(validate_trace_length(..).unwrap_or_else(|e| panic!(..)) is reached from evaluate_constraints)", loc=pa[0].loc())


def run(ck):
    prog = Program("default")
    ck.analysed["configs"].add("default")
    ck.explanation = (
        "Forward abstract interpretation of the MIR (intervals with power-of-two flag, lengths of byte strings and vectors, variant "
        "sets of Option/Result, struct fields, symbolic tags with relational facts for sums/products, taint = derived from input "
        "bytes), path-sensitive inside functions (loops summarised by havoc), inter-procedural with context-sensitive, disjunctive "
        "summaries; trait calls inside generic bodies are resolved through the type substitution of the call chain. Taint sources "
        "are the ByteReader methods; the abstract value of a successfully parsed Proof computed for Proof::from_bytes is then fed to "
        "verify(), with the AIR's trace_info/options bound to the proof's (that is what every Air::new does). Every site that can "
        "panic, overflow, index out of bounds or pre-allocate is an obligation; it is discharged when proved safe and alarmed only "
        "when it may fail AND its operand (or the branch leading to an explicit panic) is tainted. Field arithmetic, hashing, FFT and "
        "polynomial code are treated as total functions of field elements and not entered. Termination and memory beyond "
        "pre-allocation by unchecked counts are not decided."
    )
    ck.rule("E4", "no tainted, unproven operand reaches a panic / overflow / bounds / allocation site")
    an, s1, proof_val = build(prog)
    ck.floor("functions analysed (parsing)", an.stats["functions"], 20)
    scopes = [("Proof::from_bytes", s1)] + verify_scope(prog, an, proof_val)
    ck.floor("functions analysed (total)", an.stats["functions"], 45)
    ck.stats.update({k: v for k, v in an.stats.items()})
    seen = set()
    for scope, s in scopes:
        for a in s.alarms:
            if a.key in seen:
                continue
            seen.add(a.key)
            ck.ob("E4", a.key, False,
                  f"{a.what}: {a.key.split('/', 1)[1] if '/' in a.key else a.key} in {a.fn.nname} may fail on untrusted input (scope {scope})",
                  loc=a.loc, detail=(a.detail or "") + " | reached through: " + " -> ".join(prog.fns[c].nname.split("::")[-1] for c in a.chain[-6:]))
    # the Merkle openings inside the proof: every field of a parsed BatchMerkleProof and the queried positions attacker-controlled
    from . import c10
    an_m = Analyzer(prog, max_depth=8, opaque=c10.opaque, path_limit=80000)
    for scope, s in c10.merkle_scopes(prog, an_m):
        for a in s.alarms:
            if a.key not in seen:
                seen.add(a.key)
                ck.ob("E4", a.key, False, f"{a.what} in {a.fn.nname} may fail on a malformed opening (scope {scope})", loc=a.loc, detail=a.detail)
    from ..ranges import report_sites
    n = report_sites(ck, an)
    n_m = report_sites(ck, an_m)
    ck.stats["merkle_sites_safe"] = n_m["safe"]
    ck.floor("distinct sites proved safe", n["safe"], 35)
    guard_rules(ck, prog)
    aircontext_scope(ck, prog, *an.ac_inputs)
    controls(ck, prog)


def guard_rules(ck, prog):
    """Structural guards of the verifier outside the interpreter's armed scope: each is a necessary condition for `no panic on proof
    bytes` at a site in perform_verification / the FRI verifier that the interval analysis does not enter."""
    from ..cfg import must_between, T
    from ..flow import flow
    from ..guards import MustGuards
    from ..ir import callee_name
    from . import vguards as V
    ck.rule("G", "structural guards protecting panic sites outside the interpreter's scope (FRI layer count, optional GKR proof, base-field check order)")
    mg = MustGuards(prog)
    # (1) the number of FRI layers carried by the proof is compared with the number the options imply before the layers are consumed
    vc = prog.fn("winter_verifier::channel::VerifierChannel::new")
    gs = mg.of(vc)
    m = [g for g in gs if g.kind == "switch" and
         V.match_cmp(g, ("!=",), V.has_callee("FriProof::num_layers"), V.has_callee("FriOptions::num_fri_layers"))]
    V.require(ck, "G", "VerifierChannel::new:fri-layer-count", m,
              "reject iff the proof's number of FRI layers differs from the number implied by the options and the LDE domain size "
              "(the FRI verifier removes one commitment per expected layer: Vec::remove(0) panics on a shorter list)", loc_hint=vc.loc())
    # (1b) the Lagrange kernel out-of-domain frame has log2(trace_length) + 1 evaluations and is present exactly when the AIR has a Lagrange
    # kernel column: evaluate_numerators indexes the log2(n) Lagrange random elements by the frame's length, the DEEP composer slices
    # xs[2..], evaluate_constraints expects the Lagrange coefficients
    m = [g for g in gs if g.kind == "switch" and
         V.match_cmp(g, ("!=",), V.has_callee("lagrange_kernel_frame"), V.all_of(V.has_callee("has_lagrange_kernel_aux_column"), V.has_callee_deep("ilog2", "trace_length", "trailing_zeros")))]
    V.require(ck, "G", "VerifierChannel::new:lagrange-frame-size", m,
              "reject iff the Lagrange kernel OOD frame is absent/present contrary to the AIR or does not have log2(trace_length) + 1 evaluations",
              loc_hint=vc.loc())
    # (1c) a batch opening has one leaf per position: surplus rows of query values otherwise pass the opening check unauthenticated and reach
    # assert_eq!(queried_evaluations.num_rows(), x_coordinates.len()) in the DEEP composer
    from . import c10
    c10.opening_fully_used(ck, prog, None, "G")
    # (1d) the number of queries is compared with the LDE domain size (both from the proof's context) before the positions are drawn:
    # draw_integers asserts num_values < domain_size
    vfn = prog.fn("winter_verifier::verify")
    dr = [(b, T) for b, t in prog.inl(prog.fn("winter_verifier::perform_verification")).calls() if (callee_name(t) or "").endswith("RandomCoin::draw_integers")]
    m = [g for g in mg.of(vfn) if g.kind == "switch" and g.fn.nname.startswith("winter_verifier::") and
         V.match_cmp(g, (">=", ">"), V.has_callee("ProofOptions::num_queries"), V.has_callee("lde_domain_size"))]
    V.require(ck, "G", "verify:queries-below-domain-size", m,
              "reject iff the proof's number of queries is not smaller than its LDE domain size (draw_integers asserts it)", loc_hint=vfn.loc())
    # (2) a proof component whose presence the proof controls is never unwrapped
    pv = prog.fn("winter_verifier::perform_verification")
    g = flow(pv)
    n_sites = 0
    for b, t in pv.calls():
        cn = callee_name(t) or ""
        if not cn.endswith(("Option::expect", "Option::unwrap", "Result::expect", "Result::unwrap", "Option::unwrap_unchecked")):
            continue
        n_sites += 1
        w = g.walk(ops=[t["args"][0]], at=(b, T), through=lambda tt: False)
        prods = [pv.term(n[1]) for n in w if n[0] == "c"]
        bad = [callee_name(p) for p in prods if (callee_name(p) or "").startswith("winter_verifier::channel::VerifierChannel::read_")
               and (p.get("dest_ty") or "").startswith("core::option::Option")]
        ck.ob("G", f"perform_verification:unwrap-of:{(callee_name(prods[0]) or '?').split('::')[-1] if prods else '?'}", not bad,
              "expect/unwrap in perform_verification is not applied to an optional proof component (its absence must be an error, not a panic)",
              loc=pv.loc(b, T), detail=f"receiver produced by {bad}" if bad else None)
    ck.floor("expect/unwrap sites examined in perform_verification", n_sites, 1)
    reads = [t for b, t in pv.calls() if (callee_name(t) or "").endswith("VerifierChannel::read_gkr_proof")]
    if len(reads) != 1:
        from ..ir import AnchorError
        raise AnchorError(f"perform_verification: {len(reads)} reads of the optional GKR proof")
    # (3) the claimed base field is compared before the context is interpreted in that field
    vf = prog.fn("winter_verifier::verify")
    gv = [x for x in mg.of(vf) if x.kind == "switch" and "InconsistentBaseField" in x.errs]
    enc = [(b, T) for b, t in vf.calls() if (callee_name(t) or "").endswith("ToElements::to_elements")
           and ((t.get("fn") or {}).get("targs") or [""])[0].endswith("proof::context::Context")]
    if not enc:
        from ..ir import AnchorError
        raise AnchorError("verify(): the context is not encoded into field elements")
    # the decision itself, or the call in verify() of the helper that makes it (and whose error is propagated)
    dec_nodes = []
    for x in gv:
        if x.fn is vf:
            dec_nodes.append((x.block, T))
        else:
            for caller, sites in x.via:
                if caller is vf:
                    dec_nodes += [(cb, T) for cb, _ in sites]
    ok = bool(dec_nodes) and must_between(vf, None, dec_nodes, enc)[0]
    ck.ob("G", "verify:base-field-before-context-encoding", ok,
          "every path to Context::to_elements (which asserts on the modulus byte length) passes the InconsistentBaseField decision first",
          loc=vf.loc(enc[0][0], T))


def controls(ck, prog):
    """Positive control on real code: ProofOptions::new called with fully attacker-chosen integers must alarm
    (its assertions are exactly what a deserializer has to pre-check)."""
    an = Analyzer(prog, opaque=opaque)
    f = prog.fn(PO + "::new")
    args = [mk(0, 2**64 - 1, True), mk(0, 2**64 - 1, True), mk(0, 2**32 - 1, True), top(True), mk(0, 2**64 - 1, True), mk(0, 2**64 - 1, True)]
    s = an.analyze(f, args)
    ck.control("ProofOptions::new with unconstrained tainted arguments raises alarms", len(s.alarms) >= 5)
