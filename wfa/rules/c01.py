"""C01 — completeness. Decided here are structural necessary conditions only:
 (HR)  the limits applied when the verifier parses openings admit every value an honest prover can produce within the documented
       limits (engine E4 run on the honest range: no reachable panic and no error that does not depend on the bytes);
 (S1)  the byte grammar of every type inside Proof is the same for writer and reader (engine E7) — acceptance after a round trip;
 (T)   prover and verifier drive the public coin through the same sequence of protocol events (engine E1, shared with C04);
 (U)   the prover's pre-evaluated boundary constraints use constraint-evaluation-domain units (shared with C17)."""
from ..ir import Program, AnchorError, callee_name
from ..ranges import Analyzer, mk, seq, top, top_ty, report_sites
from ..serde_grammar import path_sequences, show_seq, SER, DES
from . import c04, c17, c06, c15

PROOF_TYPES_PREFIX = ("winter_air::proof::", "winter_air::air::trace_info::TraceInfo", "winter_air::options::", "winter_fri::proof::",
                      "winter_air::air::context::", "winter_crypto::")


def opaque(fn):
    if fn.crate in ("winter_math", "examples", "winter_prover", "winter_crypto"):
        return "from_bytes_with_padding" not in fn.nname
    return False


def honest_limits(prog):
    q = prog.const("winter_air::options::MAX_NUM_QUERIES")
    w = prog.const("winter_air::air::trace_info::TraceInfo::MAX_TRACE_WIDTH")
    if "scalar" not in q or "scalar" not in w:
        raise AnchorError("documented limits MAX_NUM_QUERIES / MAX_TRACE_WIDTH have no scalar value")
    return int(q["scalar"]), int(w["scalar"])


def hr(ck, prog):
    q, w = honest_limits(prog)
    ck.note(f"honest range taken from the constructors' own limits: 1..={q} unique query positions, 1..={w} values per opening")
    roots = []
    tb = prog.fn("winter_air::proof::table::Table::from_bytes")
    bytes_ = seq(mk(0, 2**32, True), True)
    roots.append(("Table::from_bytes", tb, lambda t: [bytes_, mk(1, q, t), mk(1, w, t)], {"E": "winter_math::field::f128::BaseElement"}))
    qp = prog.fn("winter_air::proof::queries::Queries::parse")
    qadt = prog.adt("winter_air::proof::queries::Queries")
    qv = {"k": "agg", "f": {i: dict(top_ty(f["ty"], True), len=mk(0, 2**32, True)) if top_ty(f["ty"], True)["k"] == "seq" else top_ty(f["ty"], True)
                            for i, f in enumerate(qadt["variants"][0]["fields"])}, "t": True}
    roots.append(("Queries::parse", qp, lambda t: [qv, mk(2, 2**40, t, True), mk(1, q, t), mk(1, w, t)],
                  {"E": "winter_math::field::f128::BaseElement", "H": "winter_crypto::hash::blake::Blake3_256<winter_math::field::f128::BaseElement>"}))
    total_sites = 0
    for name, f, mkargs, subst in roots:
        ck.saw(f)
        # pass 1: the honest parameters drive the alarms — a panic site reachable for some value of the honest range is reported
        an = Analyzer(prog, max_depth=6, opaque=opaque)
        s = an.analyze(f, mkargs(True), (), subst)
        own = [a for a in s.alarms if a.fn is f]
        for a in own:
            ck.ob("HR", f"{name}:{a.key.split('/', 1)[-1]}", False,
                  f"{name} can panic for a parameter inside the documented range ({a.what})", loc=a.loc, detail=a.detail)
        n = report_sites(ck, an, rule="HR")
        total_sites += n["safe"]
        # pass 2: the honest parameters are plain values — an Err return that no decision on the bytes leads to rejects honest proofs
        an2 = Analyzer(prog, max_depth=6, opaque=opaque)
        s2 = an2.analyze(f, mkargs(False), (), subst)
        for (rloc, sloc) in s2.err_pure:
            ck.ob("HR", f"{name}:error-independent-of-bytes", False,
                  f"{name} returns an error for parameters inside the documented range whatever the bytes are", loc=sloc or rloc)
        ck.ob("HR", f"{name}:admits-documented-range", not own and not s2.err_pure and s2.returns,
              f"{name} neither panics nor fails independently of the bytes for any parameter combination in the documented range "
              f"(rows 1..={q}, columns 1..={w})", loc=f.loc())
    ck.floor("HR sites proved safe", total_sites, 4)
    # control: the same function with the range extended by one must be reported (the limit is really there)
    an = Analyzer(prog, max_depth=6, opaque=opaque)
    s = an.analyze(tb, [bytes_, mk(1, q + 1, True), mk(1, w, True)], (), {"E": "winter_math::field::f128::BaseElement"})
    an2 = Analyzer(prog, max_depth=6, opaque=opaque)
    s2 = an2.analyze(tb, [bytes_, mk(1, q + 1, False), mk(1, w, False)], (), {"E": "winter_math::field::f128::BaseElement"})
    ck.control("Table::from_bytes with one row more than the documented maximum is reported", bool([a for a in s.alarms if a.fn is tb]) or bool(s2.err_pure))


def s1(ck, prog):
    ser, de = {}, {}
    for im in prog.impls:
        if im["crate"] == "examples":
            continue
        if im.get("trait") == SER:
            ser[im["self_ty"]] = im
        if im.get("trait") == DES:
            de[im["self_ty"]] = im
    # the types reachable from Proof's reader
    proof_ty = [t for t in ser if t.startswith("winter_air::proof::Proof")]
    if not proof_ty:
        raise AnchorError("Proof has no Serializable impl")
    todo, seen = list(proof_ty), set()
    while todo:
        t = todo.pop()
        if t in seen or t not in de:
            continue
        seen.add(t)
        r = [prog.fns[it["id"]] for it in de[t]["items"] if it["name"] == "read_from"][0]
        for b, c in r.calls():
            f = c.get("fn") or {}
            res = f.get("resolved")
            if res and res in prog.fns and prog.fns[res].get("impl_self") in de:
                todo.append(prog.fns[res].get("impl_self"))
            for ta in f.get("targs") or []:
                for cand in de:
                    if cand.split("<")[0] == ta.split("<")[0]:
                        todo.append(cand)
    both = sorted(t for t in seen if t in ser)
    ck.floor("types inside Proof with both impls", len(both), 8)
    for t in both:
        wf = [prog.fns[it["id"]] for it in ser[t]["items"] if it["name"] == "write_into"][0]
        rf = [prog.fns[it["id"]] for it in de[t]["items"] if it["name"] == "read_from"][0]
        ck.saw(wf, rf)
        try:
            pw, pr = path_sequences(prog, wf, "w"), path_sequences(prog, rf, "r")
        except RuntimeError as e:
            ck.ob("S1", f"grammar:{t}", False, f"{t}: token grammar could not be extracted ({e})", loc=wf.loc())
            continue
        ok = pw == pr
        ck.ob("S1", f"grammar:{t}", ok, f"{t}: reader consumes exactly the token sequences the writer emits {sorted(show_seq(x) for x in pw)}",
              loc=rf.loc(), detail=None if ok else f"writer: {sorted(show_seq(x) for x in pw)}  reader: {sorted(show_seq(x) for x in pr)}")


def run(ck):
    prog = Program("default")
    ck.analysed["configs"].add("default")
    ck.rule("HR", "parse-time limits of the verifier admit the whole documented range (no panic, no byte-independent error)")
    ck.rule("S1", "for every type inside Proof: writer token grammar == reader token grammar")
    ck.rule("U", "pre-evaluated boundary constraints use constraint-evaluation-domain units")
    hr(ck, prog)
    s1(ck, prog)
    c17.units(ck, prog)
    ck.rule("X", "the remainder commitment is exempt from the degree-divisibility requirement in FriVerifier::new (every well-formed FRI schedule verifies)")
    ck.rule("A", "prover and verifier agree on FRI layer count, position folding and per-layer domain reduction")
    c15.remainder_exemption(ck, prog)
    c15.agreement(ck, prog)
    c15.remainder_sent(ck, prog)
    c15.foldable_rule(ck, prog)
    degree_bound_rule(ck, prog)
    c17.periodic_point_rule(ck, prog)
    cols_rule(ck, prog)
    from . import width
    width.run(ck, prog)   # a proof of an ordinary legal configuration survives serialization: no length prefix truncates
    from . import derived
    derived.run(ck, prog, None)
    c15.layer_count_rule(ck, prog)
    # transcript agreement: both sides are checked against the one documented event order (rules E1.*/E3.* of C04)
    c04.run(ck)
    ck.explanation = (
        "Completeness quantifies over all AIRs, traces, parameters, fields and hashers and is, as a whole, a numerical statement that "
        "no static argument in reach decides. Decided here are four structural necessary conditions, each of which — when broken — makes the "
        "verifier reject or panic on honest proofs: (HR) Table::from_bytes and Queries::parse, analysed by abstract interpretation over "
        "the honest parameter range taken from the constructors' own limits (MAX_NUM_QUERIES, MAX_TRACE_WIDTH), have no reachable panic "
        "and no error return that is independent of the bytes (TraceInfo's reader/constructor limit agreement is rule S2 of C12); "
        "(S1) every type reachable from Proof's reader has identical writer and reader token grammars, so parsing serialized proofs "
        "consumes them exactly; (T = rules E1.*/E3.* shared with C04) prover and verifier absorb and draw in the same documented order "
        "with the absorbed value being the value carried in the proof, so both derive the same challenges; (U) the prover's large-"
        "polynomial boundary constraints are expressed in constraint-evaluation-domain units; (X, A shared with C15) the FRI verifier "
        "exempts the never-folded remainder from the divisibility requirement and both sides derive the same layer count, folded "
        "positions and domain reduction, so every well-formed schedule is accepted. Not decided: that valid traces satisfy "
        "the prover's degree assertions, that evaluations agree numerically, or anything about specific AIRs."
    )


def _eval_expr(e, leaf):
    """value of a symex expression on integers (floor division); `leaf` maps a non-arithmetic sub-expression to a number or None"""
    if not isinstance(e, tuple):
        return None
    if e[0] == "k":
        return e[1] if isinstance(e[1], int) else None
    if e[0] == "op":
        vs = [_eval_expr(a, leaf) for a in e[2]]
        if any(v is None for v in vs):
            return None
        op = e[1]
        if op == "add":
            return sum(vs)
        if op == "mul":
            r = 1
            for v in vs:
                r *= v
            return r
        if op == "sub" and len(vs) == 2:
            return vs[0] - vs[1]
        if op == "div" and len(vs) == 2:
            return vs[0] // vs[1] if vs[1] else None
        if op == "rem" and len(vs) == 2:
            return vs[0] % vs[1] if vs[1] else None
        if op == "max":
            return max(vs)
        if op == "min":
            return min(vs)
        if op in ("lt", "le", "gt", "ge", "eq", "ne") and len(vs) == 2:
            return int({"lt": vs[0] < vs[1], "le": vs[0] <= vs[1], "gt": vs[0] > vs[1], "ge": vs[0] >= vs[1], "eq": vs[0] == vs[1], "ne": vs[0] != vs[1]}[op])
        return None
    if e[0] == "call" and isinstance(e[1], str) and len(e[2]) == 2 and e[1].split("::")[-1] in ("div_ceil", "div_floor", "div_euclid", "rem_euclid", "pow"):
        a, b = (_eval_expr(x, leaf) for x in e[2])
        if a is None or b is None:
            return None
        name = e[1].split("::")[-1]
        if name == "pow":
            return a ** b if 0 <= b <= 64 else None
        if b == 0:
            return None
        return {"div_ceil": -(-a // b), "div_floor": a // b, "div_euclid": a // b, "rem_euclid": a % b}[name]
    return leaf(e)


def cols_rule(ck, prog):
    """The composition polynomial of degree D = (largest evaluation degree) - (trace_length - exemptions) has D + 1 coefficients and is
    committed in columns of trace_length coefficients: AirContext::num_constraint_composition_columns must return
    max(1, ceil((D + 1) / trace_length)) — otherwise the leading coefficient is dropped and honest proofs are rejected exactly when D is
    a multiple of the trace length (exemptions = constraint degree). The function's result is extracted as a symbolic expression over
    trace_len(), num_transition_exemptions() and the value its loop computes (E5, integer part), and compared with the formula on a grid
    that contains the multiples."""
    from ..symex import paths, norm, show, TooComplex
    ck.rule("COLS", "number of composition columns = max(1, ceil((D + 1) / trace_length)) for D = max evaluation degree - (trace_length - exemptions)")
    f = prog.fn("winter_air::air::context::AirContext::num_constraint_composition_columns")
    ck.saw(f)
    try:
        ps = paths(f, max_paths=64, skip_loops=True, havoc_loops=True)
    except TooComplex as e:
        ck.note(f"COLS: num_constraint_composition_columns could not be extracted ({e}); not decided")
        return
    if not ps:
        ck.note("COLS: no path extracted; not decided")
        return
    bad = None
    n_eval = 0
    for conds, res in ps:
        for n in (8, 16, 64, 1024):
            for k in (1, 2, 3, 5, 7):
                for d in (1, 2, 3, 4, 5, 8):
                    H = d * (n - 1)
                    if H < n - k:
                        continue

                    def leaf(e, n=n, k=k, H=H):
                        if e[0] == "call" and e[1].endswith("::trace_len"):
                            return n
                        if e[0] == "call" and e[1].endswith("::num_transition_exemptions"):
                            return k
                        if e[0] == "p" and isinstance(e[1], str) and e[1].startswith("loop:"):
                            return H      # what the loop over the constraint degrees computed: the largest evaluation degree
                        return None
                    got = _eval_expr(res, leaf)
                    if got is None:
                        ck.note(f"COLS: the extracted expression {show(res)} has a leaf the rule does not know; not decided")
                        return
                    n_eval += 1
                    D = H - (n - k)
                    want = max(1, -(-(D + 1) // n))
                    if got != want and bad is None:
                        bad = (n, k, d, got, want, show(res))
    ck.ob("COLS", "num_constraint_composition_columns", bad is None,
          f"the column count equals max(1, ceil((D + 1) / trace_length)) on {n_eval} parameter combinations including every case where D is a "
          "multiple of the trace length", loc=f.loc(),
          detail=None if bad is None else {"trace_length": bad[0], "exemptions": bad[1], "constraint degree": bad[2], "columns returned": bad[3],
                                           "columns needed": bad[4], "extracted": bad[5]})
    ck.control("COLS: ceil(D / n) differs from ceil((D + 1) / n) exactly when n divides D", max(1, -(-16 // 16)) != max(1, -(-17 // 16)))


def degree_bound_rule(ck, prog):
    """DEG: the prover's sanity checks on the degree of the DEEP composition polynomial are UPPER bounds. The divisions by (x - z) and
    (x - z*g) guarantee degree <= n - 2; equality holds only for generic traces — for a valid degenerate trace (every column constant)
    the polynomial is zero, and an exact-degree assertion makes the honest prover panic (genuine defect F33 of the pinned tree, repaired).
    Every panic decision of the prover whose condition compares a computed degree (`DeepCompositionPoly::degree`, `infer_degree`,
    `polynom::degree_of`) of the DEEP composition with a bound must be an ordering, not an (in)equality."""
    from ..cfg import trace_cond, reach, T, S
    from ..flow import flow
    ck.rule("DEG", "the prover's degree checks on the DEEP composition polynomial are upper bounds, not equalities (valid degenerate traces have lower degree)")
    DEGREE_FNS = ("DeepCompositionPoly::degree", "::infer_degree", "composer::DeepCompositionPoly::degree")
    fns = [f for f in prog.fns.values() if f.crate == "winter_prover" and f.blocks and
           (f.nname.endswith(("DeepCompositionPoly::add_trace_polys", "DeepCompositionPoly::add_composition_poly", "Prover::generate_proof"))
            or (f.kind == "closure" and "generate_proof" in f.nname))]
    n = 0
    for f in fns:
        g = flow(f)
        for b in range(len(f.blocks)):
            t = f.term(b)
            if t["k"] != "switch":
                continue
            c = trace_cond(f, t["d"])
            if c.kind != "cmp":
                continue
            w = g.walk(ops=[c.lhs, c.rhs], at=c.node, through=lambda tt: True)
            if not any(x.endswith(DEGREE_FNS) for x in g.callee_names_in(w)):
                continue
            # only decisions one side of which panics
            succ = [tb for _, tb in t["targets"]] + [t["otherwise"]]
            panics = False
            for tb in succ:
                r = reach(f, [(tb, S)])
                if any((callee_name(f.term(x)) or "").startswith(("core::panicking", "core::panic")) or (f.term(x)["k"] == "call" and f.term(x).get("target") is None)
                       for x, k in r if k == S and x < len(f.blocks)) and not any(f.term(x)["k"] == "return" for x, k in r if k == S and x < len(f.blocks)):
                    panics = True
            if not panics:
                continue
            n += 1
            ok = c.op in ("<", "<=", ">", ">=")
            ck.saw(f)
            ck.ob("DEG", f"{f.nname.split('::')[-1]}:degree-check#{n}", ok,
                  f"{f.nname.split('::')[-1]}: the degree of the DEEP composition polynomial is checked against an upper bound", loc=f.loc(b, T),
                  detail=None if ok else "an exact-degree assertion: the DEEP composition of a valid all-constant trace is the zero polynomial, the honest prover panics")
    ck.floor("DEG: degree checks of the DEEP composition polynomial", n, 3)
