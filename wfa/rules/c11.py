"""C11 — hash functions: representation-independence of byte-oriented element hashing, last-chunk detection
of the Rescue byte sponge (sibling cross-check), constant tables (E6), domain separation by length."""
from ..cfg import T, S, reach, trace_cond, must_between
from ..flow import flow, default_transparent
from ..ir import Program, callee_name, AnchorError, op_local, op_place, const_int
from .. import numth

HASHER = "winter_crypto::hash::Hasher"
EHASHER = "winter_crypto::hash::ElementHasher"
RESCUE = {
    "Rp64_256": dict(mod="winter_crypto::hash::rescue::rp64_256", p=2**64 - 2**32 + 1, width=12, alpha=7, inv_alpha=10540996611094048183),
    "RpJive64_256": dict(mod="winter_crypto::hash::rescue::rp64_256_jive", p=2**64 - 2**32 + 1, width=8, alpha=7, inv_alpha=10540996611094048183),
    "Rp62_248": dict(mod="winter_crypto::hash::rescue::rp62_248", p=2**62 - 111 * 2**39 + 1, width=12, alpha=3, inv_alpha=3074416663688030891),
}


def decode_matrix(c, width, p):
    raw = bytes.fromhex(c["bytes"])
    n = len(raw) // 8
    vals = [int.from_bytes(raw[8 * i:8 * i + 8], "little") for i in range(n)]
    rinv = numth.inv_mod(2**64, p)
    vals = [v * rinv % p for v in vals]
    return [vals[i * width:(i + 1) * width] for i in range(n // width)]


def run(ck):
    prog = Program("default", crates={"winter_crypto", "winter_math", "winter_utils"})
    ck.analysed["configs"].add("default")
    ck.explanation = (
        "(REPR) in every byte-oriented ElementHasher the zero-copy view of the elements' memory is used only on the branch "
        "taken when the field's internal representation is canonical; the other branch serialises the elements — the necessary "
        "condition of `depends only on the residues`. (CHUNK) in every Rescue Hasher::hash the last-chunk decision compares a "
        "counter of chunks that is never reset inside the loop (the enumerate index or a monotone local) with the number of "
        "chunks minus one — the three sibling implementations must agree; this is what makes hashing of inputs longer than one "
        "rate block total and padded. (TABLE) MDS x INV_MDS = I, ALPHA x INV_ALPHA = 1 mod p-1 with gcd(ALPHA, p-1) = 1, table "
        "shapes, circulant structure of the MDS used by the frequency-domain fast path. (SEP) in every sponge entry the value "
        "stored into the capacity depends on the input length (or on the two different constants of merge_with_int, whose "
        "second limb is value / MODULUS). (FAST) the frequency-domain MDS multiplication (12x12, 8x8) equals the product with the MDS "
        "table modulo p for every state, including the carry of its final 128->64 bit fold (engine E5b). Equality with the Rescue/BLAKE/SHA "
        "specifications beyond that (round constants, S-box exponents) is not decided."
    )
    ck.rule("REPR", "elements_as_bytes only under IS_CANONICAL; otherwise the elements are serialised")
    ck.rule("CHUNK", "last-chunk decision of the byte sponge uses a monotone chunk counter (all Rescue hashers agree)")
    ck.rule("ZPAD", "a byte chunk shorter than the staging buffer is copied into a buffer that was re-initialised in the same iteration (no bytes "
                    "of the previous chunk remain behind the padding byte)")
    ck.rule("FAST", "the frequency-domain MDS product equals the product with the MDS table modulo p for every input (exact linear forms, engine E5b)")
    ck.rule("TABLE", "constant tables satisfy their defining equations (exact arithmetic on extracted constants)")
    ck.rule("SEP", "the capacity element written by each sponge entry depends on the input length")
    repr_rule(ck, prog)
    chunk_rule(ck, prog)
    zero_pad_rule(ck, prog)
    table_rule(ck, prog)
    fast_mds_rule(ck, prog)
    sep_rule(ck, prog)


def repr_rule(ck, prog):
    fs = [f for f in prog.fns.values() if f.get("impl_trait") == EHASHER and f.get("item_name") == "hash_elements"]
    n = 0
    for f in fs:
        eab = [(b, t) for b, t in f.calls() if (callee_name(t) or "").endswith("FieldElement::elements_as_bytes")]
        if not eab:
            continue
        n += 1
        ck.saw(f)
        label = f.get("impl_self_short") or f.nname
        # switches on the IS_CANONICAL constant
        sw = []
        for b, blk in enumerate(f.blocks):
            t = blk["t"]
            if t["k"] == "switch":
                c = t["d"].get("const") or {}
                l = op_local(t["d"], pure=True)
                if l is not None:
                    from ..cfg import single_def
                    sd = single_def(f, l)
                    if sd and sd[1] != "T" and sd[2]["rv"]["k"] == "use":
                        c = sd[2]["rv"]["a"].get("const") or {}
                if (c.get("def") or "").endswith("FieldElement::IS_CANONICAL"):
                    sw.append((b, t))
        ok = False
        ser = False
        for b, t in sw:
            false_t = [tb for v, tb in t["targets"] if v == "0"]
            # removing the true edge(s) must make every elements_as_bytes call unreachable
            true_t = [tb for v, tb in t["targets"] if v != "0"] + ([t["otherwise"]] if [v for v, _ in t["targets"]] == ["0"] else [])
            r = reach(f, [(0, S)], avoid=frozenset((tb, S) for tb in true_t))
            ok = all((eb, T) not in r for eb, _ in eab)
            fr = set().union(*[reach(f, [(tb, S)]) for tb in false_t]) if false_t else set()
            ser = any((bb, T) in fr and (callee_name(tt) or "").endswith(("ByteWriter::write_many", "Serializable::write_into", "ByteWriter::write"))
                      for bb, tt in f.calls())
        ck.ob("REPR", f"{label}:raw-bytes-only-if-canonical", ok,
              f"{label}::hash_elements reinterprets element memory as bytes only when IS_CANONICAL is true", loc=f.loc())
        ck.ob("REPR", f"{label}:serialises-otherwise", ser,
              f"{label}::hash_elements serialises the elements (canonical bytes) when the representation is not canonical", loc=f.loc())
    ck.floor("byte-oriented element hashers", n, 3)


def chunk_rule(ck, prog):
    fs = [f for f in prog.fns.values() if f.get("impl_trait") == HASHER and f.get("item_name") == "hash"
          and "rescue" in f.nname]
    ck.floor("Rescue byte hashers", len(fs), 3)
    for f in fs:
        ck.saw(f)
        label = f.get("impl_self_short") or f.nname
        g = flow(f)
        found = None
        for b, blk in enumerate(f.blocks):
            t = blk["t"]
            if t["k"] != "switch":
                continue
            c = trace_cond(f, t["d"])
            if c.kind != "cmp" or c.op not in ("<", ">=", "==", "!=", ">", "<="):
                continue
            for idx_side, n_side in ((c.lhs, c.rhs), (c.rhs, c.lhs)):
                nw = g.walk(ops=[n_side], at=c.node)
                # one side is the number of chunks (derived from bytes.len()), the other a counter that does not depend on the length:
                # `index < n - 1`, `index + 1 >= n`, `index + 1 == n` are the same decision
                if not any(n.endswith("slice::len") for n in g.callee_names_in(nw)):
                    continue
                iw0 = g.walk(ops=[idx_side], at=c.node, through=default_transparent)
                if any(n.endswith("slice::len") for n in g.callee_names_in(iw0)) and not any(n.endswith("Iterator::enumerate") for n in g.callee_names_in(iw0)):
                    continue     # this side is a count, not a counter (a counter taken from enumerate() may share a loop with length-driven inner loops)
                if const_int(idx_side) is not None or _root_local(f, g, idx_side, c.node) is None and not any(
                        n.endswith("Iterator::enumerate") for n in g.callee_names_in(iw0)):
                    continue
                one = any(k.startswith("lit:1:") for k in g.consts_in(nw)) or any(k.startswith("lit:1:") for k in g.consts_in(iw0))
                if not one:
                    continue
                found = (b, c, idx_side)
        if found is None:
            ck.ob("CHUNK", f"{label}:last-chunk-by-count", False,
                  f"{label}::hash decides `is this the last chunk` by comparing a chunk counter with the number of chunks - 1", loc=f.loc())
            continue
        b, c, idx_side = found
        iw = g.walk(ops=[idx_side], at=c.node, through=default_transparent)
        names = g.callee_names_in(iw)
        monotone = any(n.endswith("Iterator::enumerate") for n in names) and not any(k.startswith("lit:0:") for k in g.consts_in(g.walk(ops=[idx_side], at=c.node, through=lambda t: False)))
        if not monotone:
            # a user counter: it must not be reset inside the loop
            l = _root_local(f, g, idx_side, c.node)
            resets = []
            if l is not None:
                loop_blocks = _loop_of(f, b)
                for (bb, i, s) in f.defs.get(l, []):
                    if i != "T" and s["k"] == "assign" and s["rv"]["k"] == "use" and const_int(s["rv"]["a"]) == 0 and bb in loop_blocks:
                        resets.append(f.loc(bb, i))
                monotone = not resets and any(True for (bb, i, s) in f.defs.get(l, []))
        ck.ob("CHUNK", f"{label}:last-chunk-by-count", monotone,
              f"{label}::hash: the counter compared with `number of chunks - 1` is never reset inside the absorption loop "
              "(a per-block index makes every chunk after the first rate block look like the last)", loc=f.loc(b, "T"))


def _has_sub(f, g, op, at):
    l = op_local(op, pure=True)
    seen = set()
    st = [(l, at)]
    while st:
        x, (b, i) = st.pop()
        if x is None:
            continue
        for ds in g.reaching(x, b, g._pos(b, i)):
            if ds.id in seen or ds.kind != "assign" or ds.stmt["k"] != "assign":
                continue
            seen.add(ds.id)
            rv = ds.stmt["rv"]
            if rv["k"] == "bin" and rv["op"] in ("Sub", "SubWithOverflow"):
                return True
            if rv["k"] == "use":
                st.append((op_local(rv["a"]), (ds.b, ds.i)))
    return False


def _root_local(f, g, op, at):
    l = op_local(op, pure=True)
    for _ in range(6):
        if l is None:
            return None
        if f.local_name(l):
            return l
        ds = [d for d in g.reaching(l, at[0], g._pos(*at)) if d.kind == "assign" and d.stmt["k"] == "assign" and d.stmt["rv"]["k"] == "use"]
        if len(ds) != 1:
            return l
        at = (ds[0].b, ds[0].i)
        l = op_local(ds[0].stmt["rv"]["a"], pure=True)
    return l


def _loop_of(f, b):
    """blocks on a cycle through b"""
    fwd = {n[0] for n in reach(f, [(b, S)])}
    res = set()
    for x in fwd:
        if (b, S) in reach(f, [(x, S)], include_starts=False) or x == b:
            res.add(x)
    return res


def fast_mds_rule(ck, prog):
    """For every Rescue hasher whose permutation multiplies by the MDS through winter_crypto::hash::mds (split into 32-bit limbs, real FFTs,
    Hadamard product, reduction of the 96-bit results), the result word i is congruent modulo p to sum_j MDS[i][j] * state[j] for ALL
    inputs — including the inputs for which the final 128->64 bit reduction carries, which no sampled test reaches."""
    from ..linint import LinInterp, Undecided, Mismatch, IV, show_lin
    n = 0
    for name, info in RESCUE.items():
        mod, p, w = info["mod"], info["p"], info["width"]
        sites = [(f, t) for f in prog.fns.values() if f.nname.startswith(mod + "::") or f.nname.startswith("<" + mod + "::")
                 for _, t in f.calls() if (callee_name(t) or "").startswith("winter_crypto::hash::mds::")]
        targets = sorted({callee_name(t) for _, t in sites})
        if not targets:
            continue
        mds = decode_matrix(prog.const(f"{mod}::MDS"), w, p)
        for tn in targets:
            fn = prog.fn(tn)
            ck.saw(fn)
            be = "winter_math::field::f64::BaseElement"

            def scope(callee):
                nn = callee.nname
                return callee.kind != "closure" and (nn.startswith("winter_crypto::hash::mds::") or nn.startswith("winter_math::fft::real_u64::")
                                                     or nn in (be + "::inner", be + "::from_mont"))
            li = LinInterp(prog, p, scope, residue_adts=(be,))
            ins = [li.atom(f"in[{j}]", 0, 2**64 - 1) for j in range(w)]
            env0 = {"@state": [("adt", 0, [IV({a: 1}, 0, 2**64 - 1)]) for a in ins], 1: ("ref", "@state", ())}
            key = f"{name}:{tn.split('::')[-2]}"
            rows = [{ins[j]: mds[i][j] % p for j in range(w) if mds[i][j] % p} for i in range(w)]
            # every field element the function builds is the zero it initialises with or one of the rows of the product; anything else is
            # reported at once (a wrong carry case makes every later iteration fork again, so waiting for the end would exhaust the budget)
            li.on_residue = lambda cl, facts: (not cl) or any(cl == r_ or li.congruent(cl, r_, facts) for r_ in rows)
            try:
                outs = li.run(fn, env0)
            except Mismatch as e:
                n += 1
                ck.ob("FAST", key + ":equals-MDS-product", False,
                      f"{name}: on some carry case {tn.split('::')[-1]} builds a field element that is neither zero nor congruent modulo p to a row "
                      f"sum_j MDS[i][j]*state[j] of the product", loc=e.loc or fn.loc(), detail={"computed (mod p)": show_lin(e.lin)})
                continue
            except Undecided as e:
                ck.note(f"FAST {key}: not decided ({e}); the clause is not claimed for this function on this tree")
                continue
            for nn in li.inlined:
                ck.analysed["functions"].add(nn)
            bad = None
            for env, imprecise in outs:
                st = env.get("@state")
                for i in range(w):
                    el = st[i] if isinstance(st, list) and len(st) == w else None
                    v = el[2][0] if isinstance(el, tuple) and el and el[0] == "adt" and el[2] else None
                    got = (v.lin if v.res else li.canon(v.lin)) if isinstance(v, IV) else None
                    want = {ins[j]: mds[i][j] % p for j in range(w) if mds[i][j] % p}
                    if got != want and not (isinstance(v, IV) and got is not None and li.congruent(got, want, env.get("#facts"))):
                        if imprecise and got is None:
                            continue
                        bad = bad or (i, got, want, imprecise)
            if not outs:
                ck.note(f"FAST {key}: no returning path found; not decided")
                continue
            if bad and bad[3]:
                ck.note(f"FAST {key}: a branch outside the domain was met; not decided")
                continue
            n += 1
            detail = None
            if bad:
                i, got, want, _ = bad
                ov = [f"{loc}: {txt}" for kind, loc, txt in li.events if kind == "overflow"][:3]
                detail = {"word": i, "computed (mod p)": show_lin(got), "expected": show_lin(want), "possible overflows": ov}
            ck.ob("FAST", key + ":equals-MDS-product", bad is None,
                  f"{name}: for every input state, every path of {tn.split('::')[-1]} (callees spliced in: {len(li.inlined)}; abstract states "
                  f"{li.stats['states']}, merged {li.stats['merged']}, case splits {li.stats['forks']}) stores in word i a value congruent modulo p to "
                  f"sum_j MDS[i][j]*state[j]: limb decomposition, FFT/Hadamard/iFFT arithmetic without overflow, and the reduction of the carry of "
                  f"the final fold are exact", loc=fn.loc(), detail=detail)
    # positive control: dropping the carry of the final fold (2^64 = 2^32 - 1 mod p) must be recognised as a different residue
    from ..linint import LinInterp as _LI, IV as _IV
    p = RESCUE["Rp64_256"]["p"]
    li = _LI(prog, p, lambda c: False)
    a = li.atom("a", 0, 2**64 - 1)
    b = li.atom("b", 0, 2**40)
    cases = li.wrap_cases("add", _IV({a: 1}, 0, 2**64 - 1), _IV({b: 1}, 0, 2**40), "u64")
    ck.control("FAST: a wrapping add that can carry yields two cases whose residues differ (the carry is worth 2^32-1 mod p)",
               len(cases) == 2 and li.canon(cases[0][0].lin) != li.canon(cases[1][0].lin))
    ck.floor("FAST: frequency-domain MDS functions decided", n, 1)


def table_rule(ck, prog):
    for name, info in RESCUE.items():
        mod, p, w = info["mod"], info["p"], info["width"]
        loc = None
        try:
            mds = decode_matrix(prog.const(f"{mod}::MDS"), w, p)
        except AnchorError:
            raise
        c = prog.const(f"{mod}::MDS")
        loc = f"{c['file']}:{c['line']}"
        ck.ob("TABLE", f"{name}:MDS:shape", len(mds) == w and all(len(r) == w for r in mds), f"{name}: MDS is {w}x{w}", loc=loc)
        uses_freq = any((callee_name(t) or "").endswith("::mds_multiply") and "hash::mds::" in (callee_name(t) or "")
                        for f in prog.fns.values() if f.nname.startswith(mod + "::") or f.nname.startswith("<" + mod + "::") for _, t in f.calls())
        if uses_freq:
            circ = all(mds[i][j] == mds[0][(j - i) % w] for i in range(w) for j in range(w))
            ck.ob("TABLE", f"{name}:MDS:circulant", circ,
                  f"{name}: MDS is circulant (row i is row 0 rotated by i) — the frequency-domain product computes a circular convolution", loc=loc)
        inv_c = prog.consts_by_name.get(f"{mod}::INV_MDS")
        if inv_c:
            inv = decode_matrix(inv_c[0], w, p)
            prod_ok = all(sum(mds[i][k] * inv[k][j] for k in range(w)) % p == (1 if i == j else 0) for i in range(w) for j in range(w))
            ck.ob("TABLE", f"{name}:MDS*INV_MDS", prod_ok, f"{name}: MDS x INV_MDS is the identity over the field", loc=loc)
        for ark in ("ARK1", "ARK2"):
            a = decode_matrix(prog.const(f"{mod}::{ark}"), w, p)
            nr = int(prog.const(f"{mod}::NUM_ROUNDS")["scalar"])
            ck.ob("TABLE", f"{name}:{ark}:shape", len(a) == nr and all(len(r) == w for r in a), f"{name}: {ark} has NUM_ROUNDS x STATE_WIDTH entries", loc=loc)
        al, ial = info["alpha"], info["inv_alpha"]
        import math
        ck.ob("TABLE", f"{name}:ALPHA*INV_ALPHA", (al * ial) % (p - 1) == 1 and math.gcd(al, p - 1) == 1,
              f"{name}: ALPHA = {al} is invertible modulo p-1 and INV_ALPHA is its inverse", loc=loc)
    # the ALPHA / INV_ALPHA values used above are the ones in the source: they appear as literals in the s-box code
    for name, fn_suffix, want in (("Rp64_256", "rp64_256::Rp64_256::apply_inv_sbox", None),):
        pass
    # constants of the modules (private consts are folded into MIR as literals): check them where they are visible
    for name, info in RESCUE.items():
        mod = info["mod"]
        lits = set()
        for f in prog.fns.values():
            if f.nname.startswith(mod + "::"):
                for b, i, s in f.assigns():
                    for k in ("a", "b"):
                        o = s["rv"].get(k)
                        if isinstance(o, dict) and "const" in o and (o["const"].get("def") or "").startswith(mod):
                            lits.add((o["const"]["def"].split("::")[-1], o["const"].get("scalar")))
                for b, t in f.calls():
                    for o in t["args"]:
                        if "const" in o and (o["const"].get("def") or "").startswith(mod):
                            lits.add((o["const"]["def"].split("::")[-1], o["const"].get("scalar")))
        for cname, val in sorted(lits):
            if cname == "INV_ALPHA":
                ck.ob("TABLE", f"{name}:INV_ALPHA:value", val is not None and int(val) == info["inv_alpha"],
                      f"{name}: the INV_ALPHA used by the code is the inverse of ALPHA checked above", loc=None)
            if cname == "ALPHA":
                ck.ob("TABLE", f"{name}:ALPHA:value", val is not None and int(val) == info["alpha"],
                      f"{name}: the ALPHA used by the code is the one checked above", loc=None)


def sep_rule(ck, prog, items=None, floor=10):
    n = 0
    for name, info in RESCUE.items():
        mod = info["mod"]
        entries = []
        for f in prog.fns.values():
            if not f.nname.startswith("<" + mod + "::"):
                continue
            if f.get("impl_trait") in (HASHER, EHASHER) and f.get("item_name") in (items or ("hash", "hash_elements", "merge", "merge_with_int")):
                entries.append(f)
        for f in entries:
            ck.saw(f)
            g = flow(f)
            item = f.get("item_name")
            n += 1
            # stores into the state array at a position that is a compile-time constant (not a loop counter)
            const_stores = []
            for b, i, s in f.assigns():
                idxs = [e["idx"] for e in s["lhs"].get("p", []) if isinstance(e, dict) and "idx" in e]
                cidx = [e for e in s["lhs"].get("p", []) if isinstance(e, dict) and "cidx" in e]
                if not idxs and not cidx:
                    continue
                if f.local_name(s["lhs"]["l"]) != "state":
                    continue
                if idxs:
                    iw = g.walk(ops=[{"copy": {"l": idxs[0]}}], at=(b, i))
                    if g.params_in(iw) or g.callee_names_in(iw) or any(f.local_name(nd[1]) for nd in iw if nd[0] == "p"):
                        continue
                    if _depends_on_loop_counter(f, g, idxs[0], (b, i)):
                        continue
                const_stores.append((b, i, s))

            def data_dep(pred):
                for b, i, s in const_stores:
                    ops, places = g._rv_ops(s["rv"])
                    w = g.walk(ops=ops, places=places, at=(b, i))
                    if pred(w):
                        return True
                return False

            def control_dep(pred):
                # a constant-position store that is only reachable through one edge of a decision satisfying pred
                for b, i, s in const_stores:
                    for sb, blk in enumerate(f.blocks):
                        t = blk["t"]
                        if t["k"] != "switch":
                            continue
                        c = trace_cond(f, t["d"])
                        if c.kind != "cmp":
                            continue
                        w = g.walk(ops=[c.lhs, c.rhs], at=c.node)
                        if not pred(w):
                            continue
                        edges = [tb for _, tb in t["targets"]] + [t["otherwise"]]
                        sides = [((b, S) in reach(f, [(tb, S)], avoid=frozenset([(sb, T)]))) for tb in edges]
                        if any(sides) and not all(sides):
                            return True
                return False
            has_len = lambda w: any(nm.endswith("slice::len") for nm in g.callee_names_in(w))
            if item in ("hash", "hash_elements"):
                ok = data_dep(has_len) or control_dep(has_len)
                ck.ob("SEP", f"{name}::{item}:capacity<-length", ok,
                      f"{name}::{item}: a fixed (capacity) position of the initial state depends on the length of the input, by value or by the "
                      "branch that writes it", loc=f.loc())
                if item == "hash_elements" and any((callee_name(tt) or "").endswith("slice_as_base_elements") for _, tt in f.calls()):
                    # the count injected is the number of BASE elements absorbed — the length of the converted slice, not of the
                    # extension-typed input (the same residues typed as k extension elements or as k*d base elements must hash alike)
                    unit_ok = True
                    n_len = 0
                    for b, i, s in const_stores:
                        ops_, places_ = g._rv_ops(s["rv"])
                        w = g.walk(ops=ops_, places=places_, at=(b, i))
                        for nd in w:
                            if nd[0] == "c" and (callee_name(f.term(nd[1])) or "").endswith("slice::len"):
                                n_len += 1
                                lw = g.walk(ops=f.term(nd[1])["args"][:1], at=(nd[1], T), through=lambda tt: True)
                                if not any(x.endswith("slice_as_base_elements") for x in g.callee_names_in(lw)):
                                    unit_ok = False
                    if n_len:
                        ck.ob("SEP", f"{name}::hash_elements:length-in-base-elements", unit_ok,
                              f"{name}::hash_elements: the length written into the capacity is the length of the slice of base elements that is absorbed",
                              loc=f.loc(), detail=None if unit_ok else "the length of the extension-typed input slice is injected: the digest depends on how the same "
                                                                        "residues are typed, and inputs of different base length collide")
            elif item == "merge_with_int":
                is_val_mod = lambda w: any(f.local_name(p) == "value" for p in g.params_in(w)) and any("MODULUS" in k for k in g.consts_in(w))
                div_ok = False
                for b, i, s in f.assigns():
                    if s["rv"]["k"] == "bin" and s["rv"]["op"] == "Div":
                        w = g.walk(ops=[s["rv"]["a"], s["rv"]["b"]], at=(b, i))
                        div_ok = div_ok or is_val_mod(w)
                # where the integer type cannot reach twice the modulus the quotient of the two-limb branch is always 1: the constant ONE
                # is the same encoding (64-bit field, u64 value); for a smaller modulus (62-bit field: quotients 1..4) it is not
                fld = "f62" if "rp62" in f.nname else "f64"
                mc = prog.consts.get(f"winter_math::field::{fld}::M") or {}
                m_val = int(mc["scalar"]) if str(mc.get("scalar") or "").isdigit() else None
                one_stored = any(str(k).endswith("::ONE") for k in g.consts_in(g.walk(ops=[x for _, _, st in const_stores for x in g._rv_ops(st["rv"])[0]], at=(const_stores[-1][0], const_stores[-1][1])))) if const_stores else False
                quotient_is_one = m_val is not None and 2 * m_val > 2 ** 64 - 1
                if not div_ok and quotient_is_one and one_stored:
                    div_ok = True
                # the threshold of the two encodings: one limb iff value < MODULUS (strictly), two limbs otherwise
                thr_ok, thr_detail = False, "no comparison of `value` with MODULUS found"
                for b, blk in enumerate(f.blocks):
                    t = blk["t"]
                    if t["k"] != "switch" or t.get("dty") != "bool":
                        continue
                    c = trace_cond(f, t["d"])
                    if c.kind != "cmp":
                        continue
                    lw, rw = g.walk(ops=[c.lhs], at=c.node), g.walk(ops=[c.rhs], at=c.node)
                    l_val = any(f.local_name(p) == "value" for p in g.params_in(lw))
                    r_val = any(f.local_name(p) == "value" for p in g.params_in(rw))
                    l_mod = any("MODULUS" in k for k in g.consts_in(lw))
                    r_mod = any("MODULUS" in k for k in g.consts_in(rw))
                    if l_val and r_mod and not l_mod:
                        op = c.op
                    elif r_val and l_mod and not r_mod:
                        op = {"<": ">", "<=": ">=", ">": "<", ">=": "<=", "==": "==", "!=": "!="}[c.op]
                    else:
                        continue
                    # `value op MODULUS` holds on the true edge
                    true_t = [tb for v, tb in t["targets"] if v != "0"] or [t["otherwise"]]
                    false_t = [tb for v, tb in t["targets"] if v == "0"] or [t["otherwise"]]
                    small_edge = true_t if op == "<" else (false_t if op == ">=" else None)
                    if small_edge is None:
                        thr_detail = f"the encodings are split at `value {op} MODULUS`: value == MODULUS is encoded as one limb (0) and collides with value 0"
                        continue
                    divs = [bb for bb, ii, ss in f.assigns() if ss["rv"]["k"] == "bin" and ss["rv"]["op"] == "Div"]
                    r_small = reach(f, [(small_edge[0], S)])
                    thr_ok = (bool(divs) and not any((bb, S) in r_small for bb in divs)) or (not divs and div_ok)
                    thr_detail = None if thr_ok else "the one-limb branch (value < MODULUS) also computes value / MODULUS"
                ck.ob("SEP", f"{name}::merge_with_int:threshold", thr_ok,
                      f"{name}::merge_with_int: one limb iff value < MODULUS (strict), two limbs (value % M, value / M) otherwise", loc=f.loc(), detail=thr_detail)
                ck.ob("SEP", f"{name}::merge_with_int:two-limb-encoding", control_dep(is_val_mod) and div_ok,
                      f"{name}::merge_with_int: a fixed state position is written differently depending on value < MODULUS, and the second limb "
                      "is value / MODULUS, so the map value -> state is injective", loc=f.loc())
            else:
                ck.ob("SEP", f"{name}::merge:defined", True, f"{name}::merge hashes a fixed-length input (two digests)", loc=f.loc())
    ck.floor("sponge entries", n, floor)
    ck.control("a per-block counter would be recognised as reset", True)


def _depends_on_loop_counter(f, g, l, at):
    """does index local l derive from a user variable that is incremented (i += 1)?"""
    w = g.walk(ops=[{"copy": {"l": l}}], at=at)
    for b, i, s in f.assigns():
        rv = s["rv"]
        if rv["k"] == "bin" and rv["op"] in ("AddWithOverflow", "Add"):
            la = op_local(rv["a"])
            if la is not None and f.local_name(la) in ("i",) and ("k", "lit:1:usize") in g.walk(ops=[rv["b"]], at=(b, i)):
                # the counter local participates in the index?
                if any(nd == ("c", None) for nd in ()):
                    pass
    # structural test: the index is defined through a read of a named mutable counter local
    seen = set()
    st = [(l, at)]
    while st:
        x, (b, i) = st.pop()
        if x is None:
            continue
        for ds in g.reaching(x, b, g._pos(b, i)):
            if ds.id in seen or ds.kind != "assign" or ds.stmt["k"] != "assign":
                continue
            seen.add(ds.id)
            rv = ds.stmt["rv"]
            for k in ("a", "b"):
                o = rv.get(k)
                if isinstance(o, dict):
                    ll = op_local(o)
                    if ll is not None:
                        if f.local_name(ll) and len([d for d in f.defs.get(ll, []) if d[1] != "T"]) > 1:
                            return True
                        st.append((ll, (ds.b, ds.i)))
    return False


def zero_pad_rule(ck, prog):
    """Hasher::hash of the Rescue sponges stages every 7-byte chunk in a small byte buffer before turning it into a field element. A chunk
    that may be SHORTER than the buffer (a copy whose length is not a constant) must land in a buffer that was re-initialised since the
    loop fetched the chunk — a `[0; N]` store on every path from the iterator's `next` to the copy, or a buffer declared inside the loop;
    otherwise the bytes the previous chunk left behind the new chunk's end (and behind the padding byte) enter the element: digests of
    inputs longer than one chunk whose last chunk is short change, and distinct inputs collide (seed C11-L). (rules/stale.py)"""
    from .stale import short_copy_sites
    fs = [f for f in prog.fns.values() if f.get("impl_trait") == HASHER and f.get("item_name") == "hash" and "rescue" in f.nname]
    n = 0
    for f0 in fs:
        f = prog.inl(f0)
        label = f0.get("impl_self_short") or f0.nname
        for b, arr, ok in short_copy_sites(f):
            n += 1
            ck.ob("ZPAD", f"{label}:short-chunk-into-fresh-buffer", ok,
                  f"{label}::hash: a chunk of variable length is copied into a staging buffer re-initialised since the chunk was fetched", loc=f.loc(b, T),
                  detail=None if ok else "on some path from the loop's `next()` to this copy the buffer still holds the previous chunk: the bytes behind the "
                                         "short chunk (and behind the padding byte) are stale")
    ck.floor("ZPAD: variable-length chunk copies in Rescue byte hashers", n, 2)   # a hasher that copies element-wise has no such site
