"""C17 — composition polynomial: writer/reader agreement over the prover's boundary-constraint
representations, three-way classification, consistent domain units of the pre-evaluated representation,
column/divisor folding, and the auxiliary transition term (engine E3)."""
from ..cfg import T, S, reach, trace_cond, must_between
from ..flow import flow, Summaries, default_transparent
from ..ir import Program, callee_name, AnchorError, op_local, const_int
from . import c02

PG = "winter_prover::constraints::evaluator::boundary::BoundaryConstraintGroup"
KINDS = {"single_value": "==1", "small_poly": "<SMALL", "large_poly": "else"}


def ret_walk(fn, deep=None):
    g = flow(fn)
    w = set()
    for ds in g.sites:
        if ds.local != 0 or ds.kind == "param":
            continue
        if ds.kind == "assign" and ds.stmt["k"] == "assign":
            ops, places = g._rv_ops(ds.stmt["rv"])
            w |= g.walk(ops=ops, places=places, at=(ds.b, ds.i), deep=deep)
        elif ds.kind in ("call", "mut"):
            w |= {("c", ds.b)} | g.walk(ops=list(ds.stmt["args"]), at=(ds.b, "T"), deep=deep)
    return g, w


def pushes_to(fn, adt, field):
    g = flow(fn)
    res = []
    for b, t in fn.calls():
        if (callee_name(t) or "").endswith("Vec::push") and t["args"]:
            w = g.walk(ops=[t["args"][0]], at=(b, T), through=lambda x: False)
            if (adt, field) in g.fields_in(w):
                res.append((b, t))
    return res


def run(ck):
    prog = Program("default")
    ck.analysed["configs"].add("default")
    ck.explanation = (
        "Structural agreement clauses behind `the committed composition polynomial equals its definition`. (R) each of the six "
        "constraint vectors of the prover's boundary-constraint group that some constructor pushes into is read by the evaluator "
        "and the evaluator's result depends on it (a representation that is written but never evaluated silently drops "
        "constraints — no test has a >= 63-value auxiliary sequence assertion). (K) the three-way classification by polynomial "
        "length is a partition and each class is stored in its own representation. (U) all domain-scale quantities of the "
        "pre-evaluated representation are in constraint-evaluation-domain units. (F) combine() folds every column with its divisor; "
        "the full-fragment evaluator adds the auxiliary transition term and evaluates boundary constraints against both segments. "
        "(SPLIT/D) shared with C02: coefficient partition and the verifier's evaluation depending on every family. Numerical "
        "equality with the definition is not decided."
    )
    ck.rule("R", "every boundary-constraint representation that is written is read by the evaluator (writer/reader agreement)")
    ck.rule("K", "classification by polynomial length is a partition; each class goes to its own representation")
    ck.rule("U", "pre-evaluated (large polynomial) constraints use constraint-evaluation-domain units throughout")
    ck.rule("F", "every evaluation column is folded with its divisor; aux transition term and both boundary segments are added")
    ck.rule("SPLIT", "coefficient lists are partitioned between main and auxiliary constraints")
    ck.rule("D", "evaluate_constraints' result depends on every constraint family")

    adt = prog.adt(PG)
    vec_fields = [f["name"] for f in adt["variants"][0]["fields"] if f["ty"].startswith("alloc::vec::Vec<")]
    ck.floor("boundary-constraint representations", len(vec_fields), 6)
    deep = Summaries(prog)
    ev_main = prog.fn(PG + "::evaluate_main")
    ev_all = prog.fn(PG + "::evaluate_all")
    ck.saw(ev_main, ev_all)
    gm, wm = ret_walk(ev_main, deep)
    ga, wa = ret_walk(ev_all, deep)
    fm = {f for a, f in gm.fields_in(wm) if a == PG}
    fa = {f for a, f in ga.fields_in(wa) if a == PG}
    writers = [f for f in prog.methods_of(PG, None)]
    for fld in vec_fields:
        written = any(pushes_to(w, PG, fld) for w in writers)
        if not written:
            ck.note(f"{fld}: never pushed into; no reader required")
            continue
        if fld.startswith("main_"):
            ck.ob("R", f"read:evaluate_main:{fld}", fld in fm,
                  f"BoundaryConstraintGroup::evaluate_main's result depends on `{fld}` (which constructors push into)", loc=ev_main.loc())
        ck.ob("R", f"read:evaluate_all:{fld}", fld in fa,
              f"BoundaryConstraintGroup::evaluate_all's result depends on `{fld}` (which constructors push into)", loc=ev_all.loc())
    # K: classification
    for cname in ("from_main_constraints", "add_aux_constraints"):
        f = prog.fn(f"{PG}::{cname}")
        ck.saw(f)
        classify(ck, prog, f, "main" if "main" in cname else "aux")
    units(ck, prog)
    from .c01 import cols_rule
    cols_rule(ck, prog)   # the number of committed columns holds every coefficient of the composition polynomial
    from . import derived
    derived.run(ck, prog, None)
    periodic_point_rule(ck, prog)
    # DEDUP: `dedup` computes a set (and `last` a maximum) only on a sorted vector — table sizes in the constraint evaluators
    from .stale import unsorted_dedup_sites
    ck.rule("DEDUP", "every Vec::dedup in the constraint-evaluation code is applied to a vector sorted on every path before it")
    for f_, b_, ok_ in unsorted_dedup_sites(prog, lambda f: f.crate == "winter_prover" and "::constraints::" in f.nname):
        ck.saw(f_)
        ck.ob("DEDUP", f"{f_.nname.split('::')[-2]}::{f_.nname.split('::')[-1]}:dedup-after-sort", ok_,
              f"{f_.nname.split('::')[-1]}: the vector handed to dedup() was sorted before (adjacent duplicates only are removed)", loc=f_.loc(b_, "T"),
              detail=None if ok_ else "dedup() on an unsorted vector leaves repeated values and does not order them: `last()` is not the maximum")
    folding(ck, prog)
    c02.partition_rules(ck, prog)
    c02.dropped(ck, prog)
    # control: the group's divisor is not a constraint vector
    ck.control("`divisor` is not counted as a constraint representation", "divisor" not in vec_fields)


def classify(ck, prog, f, seg):
    g = flow(f)
    # the two classification conditions
    conds = []
    for b, blk in enumerate(f.blocks):
        t = blk["t"]
        if t["k"] != "switch":
            continue
        c = trace_cond(f, t["d"])
        if c.kind != "cmp":
            continue
        lw = g.walk(ops=[c.lhs], at=c.node)
        rw = g.walk(ops=[c.rhs], at=c.node)
        for a, o in ((lw, c.rhs), (rw, c.lhs)):
            if any(n.endswith("BoundaryConstraint::poly") for n in g.callee_names_in(a)) and any(n.endswith("::len") for n in g.callee_names_in(a)):
                k = o.get("const")
                listed = [v for v, _ in t["targets"]]
                true_t = [tb for v, tb in t["targets"] if v != "0"] + ([t["otherwise"]] if listed == ["0"] else [])
                false_t = [tb for v, tb in t["targets"] if v == "0"]
                conds.append((b, c.op if a is lw else {"<": ">", ">": "<", "==": "==", "!=": "!=", "<=": ">=", ">=": "<="}[c.op],
                              k, true_t, false_t))
    # semantic form: for every polynomial length the decisions on that length leave exactly one class of push sites reachable —
    # length 1: single value, 1 < length < SMALL_POLY_DEGREE: small, otherwise: large — whatever the order and spelling of the tests
    def kval(k):
        if k is None:
            return None
        if "scalar" in k and str(k["scalar"]).lstrip("-").isdigit():
            return int(k["scalar"])
        d = k.get("def") or k.get("def_name") or ""
        c = prog.consts.get(d) or next((v for n, v in prog.consts.items() if d and n.endswith(d.split("::")[-1]) and "boundary" in n), None)
        return int(c["scalar"]) if c and str(c.get("scalar") or "").isdigit() else None
    lenconds = [(b, op, kval(k), tt, ft) for b, op, k, tt, ft in conds if kval(k) is not None]
    small = next((int(v["scalar"]) for n, v in prog.consts.items() if n.endswith("boundary::SMALL_POLY_DEGREE") and str(v.get("scalar") or "").isdigit()), None)
    ctor = {"single_value": "SingleValueConstraint::new", "small_poly": "SmallPolyConstraint::new", "large_poly": "LargePolyConstraint::new"}
    pushes = {kind: pushes_to(f, PG, f"{seg}_{kind}") for kind in ctor}
    if not lenconds or small is None or not all(pushes.values()):
        ck.ob("K", f"{f.nname.split('::')[-1]}:conditions", False,
              f"{f.nname.split('::')[-1]} classifies by the length of the constraint polynomial: 1 / below SMALL_POLY_DEGREE / otherwise", loc=f.loc(),
              detail="no decision on poly().len() against a constant, or a class that is never pushed")
        return
    ck.ob("K", f"{f.nname.split('::')[-1]}:conditions", True,
          f"{f.nname.split('::')[-1]} classifies by the length of the constraint polynomial ({len(lenconds)} decisions on poly().len())", loc=f.loc())

    def holds(op, L, k):
        return {"==": L == k, "!=": L != k, "<": L < k, "<=": L <= k, ">": L > k, ">=": L >= k}[op]
    bad = {kind: None for kind in ctor}
    for L in sorted({1, 2, 3, small - 1, small, small + 1, 4 * small}):
        blocked = set()
        for b, op, k, tt, ft in lenconds:
            for tb in (ft if holds(op, L, k) else tt):
                blocked.add((b, tb))
        seen, st = {0}, [0]
        while st:
            x = st.pop()
            for y in f.succ[x]:
                if (x, y) in blocked and sum(1 for z in f.succ[x] if z == y) == 1:
                    continue
                if y not in seen:
                    seen.add(y)
                    st.append(y)
        want_kind = "single_value" if L == 1 else ("small_poly" if L < small else "large_poly")
        for kind in ctor:
            reachable = any(b in seen for b, t in pushes[kind])
            if reachable != (kind == want_kind) and bad[kind] is None:
                bad[kind] = (L, reachable)
    for kind in ctor:
        fld = f"{seg}_{kind}"
        ps = pushes[kind]
        right_ctor = bool(ps) and all(any(n.endswith(ctor[kind]) for n in g.callee_names_in(g.walk(ops=[t["args"][1]], at=(b, T)))) for b, t in ps)
        ok = bad[kind] is None and right_ctor
        ck.ob("K", f"{f.nname.split('::')[-1]}:{fld}", ok,
              f"constraints of class `{KINDS[kind]}` are converted with {ctor[kind]} and pushed to `{fld}` (and only they)", loc=f.loc(),
              detail=None if ok else (f"a polynomial of length {bad[kind][0]} {'reaches' if bad[kind][1] else 'does not reach'} the push into `{fld}`"
                                      if bad[kind] else "the pushed value is not built by the class's constructor"))


def units(ck, prog):
    fs = prog.find_fns(r"^winter_prover::constraints::evaluator::boundary::LargePolyConstraint::new$")
    if len(fs) != 1:
        raise AnchorError("LargePolyConstraint::new not found")
    f = fs[0]
    ck.saw(f)
    g = flow(f)
    bad = []
    scale = []
    for b, t in f.calls():
        fr = t.get("fn") or {}
        if fr.get("trait") == "winter_air::air::Air" and fr.get("item") in ("ce_blowup_factor", "ce_domain_size", "lde_blowup_factor",
                                                                           "lde_domain_size", "trace_length"):
            scale.append(fr["item"])
            if fr["item"].startswith("lde_"):
                bad.append(f"{fr['item']} at {f.loc(b, 'T')}")
    ck.ob("U", "LargePolyConstraint::new:units", bool(scale) and not bad,
          "the pre-evaluated assertion polynomial and its step offset are both expressed in constraint-evaluation-domain units "
          "(the evaluator indexes it with a CE-domain step)", loc=f.loc(), detail="; ".join(bad) if bad else None)
    shift_direction(ck, prog, f, g)
    # the step offset is derived from the constraint's polynomial offset
    for b, i, s in f.assigns():
        rv = s["rv"]
        if rv["k"] == "agg" and rv.get("adt", "").endswith("LargePolyConstraint"):
            ops = dict(zip(rv["fields"], rv["ops"]))
            # the shift may live in a field of its own (`step_offset`) or be applied to the stored values once (a rotation in the
            # constructor): either way what is stored must derive from the assertion's first step and the CE blowup
            w = g.walk(ops=[ops["step_offset"]] if "step_offset" in ops else list(rv["ops"]), at=(b, i))
            ns = g.callee_names_in(w)
            ck.ob("U", "LargePolyConstraint::new:step_offset", any(n.endswith("BoundaryConstraint::poly_offset") for n in ns)
                  and any(n.endswith("Air::ce_blowup_factor") for n in ns),
                  "step_offset = (first step of the assertion) x (constraint-evaluation blowup)", loc=f.loc(b, i))


def shift_direction(ck, prog, f, g):
    """the pre-evaluated assertion polynomial b(x * g^-a) is the plain evaluation vector read `step_offset` positions EARLIER:
    value(ce_step) = values[(ce_step - step_offset) mod len]. A constructor that applies the shift once by rotating the vector must
    rotate it to the RIGHT by the step offset (new[i] = old[i - k]); `rotate_left` reads the polynomial shifted the other way (seed C17-K)."""
    for b, t in f.calls():
        cn = callee_name(t) or ""
        if cn.endswith(("slice::rotate_left", "slice::rotate_right", "VecDeque::rotate_left", "VecDeque::rotate_right")) and len(t["args"]) == 2:
            w = g.walk(ops=[t["args"][1]], at=(b, T))
            ns = g.callee_names_in(w)
            if any(n.endswith("BoundaryConstraint::poly_offset") for n in ns):
                ok = cn.endswith("rotate_right")
                ck.ob("U", "LargePolyConstraint::new:shift-direction", ok,
                      "a shift of the pre-evaluated values by the step offset, applied once by rotation, rotates to the right", loc=f.loc(b, T),
                      detail=None if ok else "rotate_left by the step offset evaluates b(x * g^(+a)) instead of b(x * g^(-a)) for every large sequence "
                                             "assertion with a non-zero first step")


def folding(ck, prog):
    f = prog.fn("winter_prover::constraints::evaluation_table::ConstraintEvaluationTable::combine")
    ck.saw(f)
    g = flow(f)
    acc = [(b, t) for b, t in f.calls() if (callee_name(t) or "").endswith("evaluation_table::acc_column")]
    ok = False
    for b, t in acc:
        w0 = g.walk(ops=[t["args"][0]], at=(b, T))
        w1 = g.walk(ops=[t["args"][1]], at=(b, T))
        f0 = {fl for a, fl in g.fields_in(w0)}
        f1 = {fl for a, fl in g.fields_in(w1)}
        from ..flow import partial_iteration
        allw = g.walk(ops=list(t["args"]), at=(b, T))
        ok = "evaluations" in f0 and "divisors" in f1 and not partial_iteration(g.callee_names_in(allw)) and \
            any(n.endswith("Iterator::zip") for n in g.callee_names_in(allw))
    ck.ob("F", "combine:every-column-with-its-divisor", ok,
          "ConstraintEvaluationTable::combine divides every evaluation column by the divisor of the same index and accumulates it",
          loc=f.loc())
    _, wret = ret_walk(f)
    ck.ob("F", "combine:result", any(n.endswith("acc_column") for n in g.callee_names_in(wret)),
          "the combined column returned is the accumulator acc_column writes into", loc=f.loc())
    # full fragment evaluator
    ff = prog.find_fns(r"DefaultConstraintEvaluator.*::evaluate_fragment_full$")
    fm = prog.find_fns(r"DefaultConstraintEvaluator.*::evaluate_fragment_main$")
    if len(ff) != 1 or len(fm) != 1:
        raise AnchorError("DefaultConstraintEvaluator::evaluate_fragment_{full,main} not found")
    ff, fm = ff[0], fm[0]
    ck.saw(ff, fm)
    nf = {callee_name(t) or "" for _, t in ff.calls()}
    nm = {callee_name(t) or "" for _, t in fm.calls()}
    ck.ob("F", "fragment_full:aux-transition", any(n.endswith("evaluate_aux_transition") for n in nf) and any(n.endswith("evaluate_main_transition") for n in nf),
          "the full-fragment evaluator evaluates both the main and the auxiliary transition constraints", loc=ff.loc())
    ck.ob("F", "fragment_full:boundary-all", any(n.endswith("BoundaryConstraints::evaluate_all") for n in nf),
          "the full-fragment evaluator evaluates boundary constraints against both segments", loc=ff.loc())
    ck.ob("F", "fragment_main:boundary-main", any(n.endswith("BoundaryConstraints::evaluate_main") for n in nm),
          "the main-only fragment evaluator evaluates the main boundary constraints", loc=fm.loc())
    # the sum of main and aux transition evaluations is what is stored
    gfull = flow(ff)
    stores = [(b, t) for b, t in ff.calls() if (callee_name(t) or "").endswith(("update_row", "EvaluationTableFragment::update_row"))]
    ok = False
    for b, t in stores:
        w = gfull.walk(ops=list(t["args"]), at=(b, T))
        ns = gfull.callee_names_in(w)
        ok = ok or (any(n.endswith("evaluate_aux_transition") for n in ns) and any(n.endswith("evaluate_main_transition") for n in ns))
    ck.ob("F", "fragment_full:row-depends-on-both", ok or not stores,
          "the row written to the evaluation table depends on both transition terms", loc=ff.loc())


def periodic_point_rule(ck, prog, rule="PERIODIC"):
    """The verifier evaluates every periodic column's polynomial at x^(n / cycle length): a function of the drawn point and of that column
    alone. Where the per-column evaluation is a closure (`polys.iter().map(|poly| ..)`), it must not carry scalar state from one column to
    the next: a field element or integer captured by MUTABLE reference (a running power of x that is squared up and never re-initialised —
    seed C17-R) makes the value of a column depend on the columns listed before it, and an honest proof with a longer cycle listed after
    a shorter one is rejected. (Capturing a collection mutably — pushing results — is not state of this kind.)"""
    ck.rule(rule, "the per-column evaluation of periodic polynomials in the verifier carries no scalar state from one column to the next")
    f = prog.fn_opt("winter_verifier::evaluator::evaluate_constraints")
    if f is None:
        ck.note(f"{rule}: winter_verifier::evaluator::evaluate_constraints not available in this program; not decided")
        return
    ck.saw(f)
    f = prog.inl(f)      # the periodic evaluation may live in a private helper
    n = 0
    for b, t in f.calls():
        for cid in f.closure_args(t):
            c = prog.fns.get(cid)
            if c is None or not any((callee_name(tt) or "").endswith("polynom::eval") for _, tt in c.calls()):
                continue
            n += 1
            stateful = []
            for bb, i, st in c.assigns():
                rv = st["rv"]
                for k in ("a",):
                    o = rv.get(k)
                    p = (o.get("copy") or o.get("move")) if isinstance(o, dict) else None
                    if p and p.get("l") == 1 and any(isinstance(e, dict) and e.get("upvar") for e in p.get("p", [])):
                        ty = c.local_ty(st["lhs"]["l"]).replace(" ", "")
                        if ty.startswith("&mut") and not any(x in ty for x in ("Vec<", "[", "BTree", "String")):
                            stateful.append(ty)
            ck.ob(rule, f"evaluate_constraints:periodic-closure#{n}", not stateful,
                  "the closure that evaluates a periodic column's polynomial at x^(n / cycle length) captures no scalar by mutable reference", loc=c.loc(),
                  detail=None if not stateful else f"captured mutably: {sorted(set(stateful))}: the evaluation point of a column depends on the columns before it")
    if n == 0:
        ck.note(f"{rule}: no closure evaluating periodic polynomials in evaluate_constraints (an explicit loop?); not decided")
