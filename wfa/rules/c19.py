"""C19 — public coin contract: state-update dependence shape of every RandomCoin implementation (E3),
validated draws, masked and counted integers, and complementarity of the prover's and verifier's
proof-of-work predicates (E2)."""
from ..cfg import T, S, must_between, exits, trace_cond, NEG, FLIP
from ..flow import flow, default_transparent
from ..guards import accept_nodes, MustGuards
from ..ir import Program, callee_name, AnchorError, op_local, const_int

COIN = "winter_crypto::random::RandomCoin"


def stores(fn, field):
    res = []
    for b, i, s in fn.assigns():
        pr = s["lhs"].get("p", [])
        if any(isinstance(e, dict) and e.get("n") == field and e.get("of", "").endswith("RandomCoin") for e in pr):
            res.append((b, i, s))
    return res


class Outputs:
    """the coin's outputs inside (an inlined view of) a method: calls merge_with_int(seed, counter)"""

    def __init__(self, f):
        self.f = f
        g = flow(f)
        self.nodes = []
        for b, t in f.calls():
            if not (callee_name(t) or "").endswith("merge_with_int") or len(t["args"]) < 2:
                continue
            w0 = g.walk(ops=[t["args"][0]], at=(b, T))
            w1 = g.walk(ops=[t["args"][1]], at=(b, T))
            if _field_in(g, w0, "seed") and _field_in(g, w1, "counter"):
                self.nodes.append((b, T))
        self.blocks = {b for b, _ in self.nodes}

    def is_call(self, t):
        return any(self.f.term(b) is t for b in self.blocks)

    def among_walk(self, w):
        return any(n[0] == "c" and n[1] in self.blocks for n in w)

    def incremented_before_each(self):
        f = self.f
        g = flow(f)
        incs = []
        for b, i, st in stores(f, "counter"):
            w = g.walk(ops=g._rv_ops(st["rv"])[0], places=g._rv_ops(st["rv"])[1], at=(b, i))
            if _field_in(g, w, "counter") and any(c.startswith("lit:1:") for c in g.consts_in(w)):
                incs.append((b, S))
        if not incs:
            return False
        return must_between(f, None, incs, self.nodes)[0] and must_between(f, self.nodes, incs, self.nodes)[0]


class EStore:
    """a store to a coin field as seen from method f: made by f itself, or by a private helper method of the coin that f calls on self
    (the helper's operands are lifted to f's frame through the call's arguments)"""
    __slots__ = ("node", "names", "fields", "params", "consts", "zero", "loc")

    def __init__(self, node, names, fields, params, consts, zero, loc):
        self.node, self.names, self.fields, self.params, self.consts, self.zero, self.loc = node, names, fields, params, consts, zero, loc


def eff_stores(prog, f, field, depth=0):
    g = flow(f)
    res = []
    for b, i, s in stores(f, field):
        ops, places = g._rv_ops(s["rv"])
        w = g.walk(ops=ops, places=places, at=(b, i))
        res.append(EStore((b, S), set(g.callee_names_in(w)), set(g.fields_in(w)), {f.local_name(p) for p in g.params_in(w)}, set(g.consts_in(w)),
                          s["rv"]["k"] == "use" and const_int(s["rv"]["a"]) == 0, f.loc(b, i)))
    if depth >= 2:
        return res
    adt = f.get("impl_self_adt")
    for b, t in f.calls():
        cands, _ = prog.resolve_call(t)
        if len(cands) != 1:
            continue
        h = cands[0]
        if h is f or h.get("impl_self_adt") != adt or adt is None or h.get("impl_trait"):
            continue  # only private inherent helpers of the same type
        for es in eff_stores(prog, h, field, depth + 1):
            names, fields, consts, params = set(es.names), set(es.fields), set(es.consts), set()
            for pi, pn in enumerate((h.local_name(k + 1) for k in range(h.arg_count))):
                if pn in es.params and pi < len(t["args"]):
                    w = g.walk(ops=[t["args"][pi]], at=(b, T))
                    names |= set(g.callee_names_in(w))
                    fields |= set(g.fields_in(w))
                    consts |= set(g.consts_in(w))
                    params |= {f.local_name(p) for p in g.params_in(w)}
            res.append(EStore((b, T), names, fields, params, consts, es.zero, f.loc(b, T)))
    return res


def _has_field(es, name):
    return any(fl == name and a.endswith("RandomCoin") for a, fl in es.fields)


def rets(fn):
    return [(b, T) for b, blk in enumerate(fn.blocks) if blk["t"]["k"] == "return"]


def run(ck):
    prog = Program("default")
    ck.analysed["configs"].add("default")
    ck.explanation = (
        "Dependence-shape analysis of every workspace implementation of RandomCoin (DefaultRandomCoin). For each method the "
        "MIR is checked on all paths: new — the seed is hash_elements of the argument and the counter starts at 0; reseed — the "
        "new seed depends on the old seed and on the data through Hasher::merge, counter reset; next — the counter is incremented "
        "before it is hashed with the seed (merge_with_int); draw — every returned element is the Some payload of the field's "
        "validated conversion from_random_bytes applied to the output of next(), one next() per attempt; draw_integers — reseed "
        "with the nonce and counter reset before the first draw, every pushed value is next() masked with domain_size-1, Ok only "
        "when the requested count was reached; check_leading_zeros — &self, writes nothing, depends on seed and argument. The "
        "prover's nonce search accepts exactly when the verifier's check does not reject. Statistical statements (`any difference "
        "changes the output`) are not decided."
    )
    ck.rule("STATE", "state updates of the coin have the documented dependence shape on every path")
    ck.rule("DRAW", "returned elements come from the validated conversion of next(); integers are masked and counted")
    ck.rule("VALID", "from_random_bytes (the conversion behind draw) constructs only elements inside the field's representation range, for every byte string")
    ck.rule("POW", "prover's search predicate is the complement of the verifier's reject predicate; measure is read-only")

    impls = [im for im in prog.impls if im.get("trait") == COIN and im["crate"] != "examples"]
    ck.floor("RandomCoin implementations", len(impls), 1)
    for im in impls:
        adt = im.get("self_adt")
        meth = {it["name"]: prog.fns[it["id"]] for it in im["items"] if it["kind"] == "fn" and it["id"] in prog.fns}
        for m in meth.values():
            ck.saw(m)
        label = (adt or im["self_ty"]).split("::")[-1]
        check_new(ck, prog, label, meth["new"])
        check_reseed(ck, prog, label, meth["reseed"])
        # counter-mode expansion: an OUTPUT of the coin is a call merge_with_int(seed, counter). Whether that lives in a private
        # `next()` or in the drawing methods themselves is immaterial: the methods are read with their private helpers inlined.
        n_out = 0
        for mname in ("draw", "draw_integers"):
            fi = prog.inl(meth[mname])
            ev = Outputs(fi)
            n_out += len(ev.nodes)
            ck.ob("STATE", f"{label}::{mname}:counter-advances-per-output", bool(ev.nodes) and ev.incremented_before_each(),
                  f"{label}::{mname}: every output merge_with_int(seed, counter) is preceded, since the previous output (or entry), by "
                  "counter += 1 — no two outputs use the same counter", loc=meth[mname].loc())
            if mname == "draw":
                check_draw(ck, prog, label, fi, ev)
            else:
                check_draw_integers(ck, prog, label, fi, ev)
        check_clz(ck, prog, label, meth["check_leading_zeros"])
    pow_complement(ck, prog)
    controls(ck, prog, impls)
    # the nonce reaches the seed injectively: merge_with_int of every Rescue hasher encodes the whole integer (C11's SEP clause for
    # merge_with_int; the byte-oriented hashers append the integer's 8 bytes)
    from . import c11 as _c11
    ck.rule("SEP", "merge_with_int (nonce absorption, counter expansion) encodes the whole integer: one limb iff value < MODULUS, otherwise value % M and value / M")
    _c11.sep_rule(ck, prog, items=("merge_with_int",), floor=3)
    # "every drawn element is a valid element": the conversion draw() goes through constructs only values inside the field's
    # representation range (interval analysis over all byte strings; shared with C07's REPR)
    from . import repr_range
    repr_range.run_rule(ck, prog, rule="VALID", fields=("f62", "f64"), only=lambda f: f.nname.endswith("::from_random_bytes"), floor=1)


def _field_in(g, w, name):
    return any(f == name and a.endswith("RandomCoin") for a, f in g.fields_in(w))


def check_new(ck, prog, label, f):
    g = flow(f)
    ok_seed = ok_ctr = False
    for b, i, s in f.assigns():
        rv = s["rv"]
        if rv["k"] == "agg" and rv.get("agg") == "adt" and rv["adt"].endswith("RandomCoin"):
            ops = dict(zip(rv["fields"], rv["ops"]))
            w = g.walk(ops=[ops["seed"]], at=(b, i), through=lambda t: False)
            calls = g.calls_in(w)
            if len(calls) == 1 and (callee_name(calls[0][1]) or "").endswith("ElementHasher::hash_elements"):
                aw = g.walk(ops=[calls[0][1]["args"][0]], at=(calls[0][0], T), through=default_transparent)
                ok_seed = g.params_in(aw) == {1} and not [n for n in g.callee_names_in(aw) if not n.startswith(("core::", "alloc::"))]
            ok_ctr = const_int(ops["counter"]) == 0
    ck.ob("STATE", f"{label}::new:seed", ok_seed, f"{label}::new: seed = hash_elements(the seed elements handed in), nothing else", loc=f.loc())
    ck.ob("STATE", f"{label}::new:counter", ok_ctr, f"{label}::new: counter starts at 0", loc=f.loc())


def check_reseed(ck, prog, label, f):
    ss = eff_stores(prog, f, "seed")
    cs = eff_stores(prog, f, "counter")
    ok = any(any(n.endswith("Hasher::merge") for n in es.names) and _has_field(es, "seed") and f.local_name(2) in es.params for es in ss)
    must = bool(ss) and must_between(f, None, [es.node for es in ss], rets(f))[0]
    ck.ob("STATE", f"{label}::reseed:seed", ok and must,
          f"{label}::reseed: new seed = merge(old seed, data) on every path", loc=f.loc())
    zs = [es for es in cs if es.zero]
    okc = bool(zs) and all(es.zero for es in cs) and must_between(f, None, [es.node for es in zs], rets(f))[0]
    ck.ob("STATE", f"{label}::reseed:counter", okc, f"{label}::reseed: counter reset to 0 on every path", loc=f.loc())


def check_next(ck, prog, label, f):
    g = flow(f)
    cs = stores(f, "counter")
    inc = False
    for b, i, s in cs:
        w = g.walk(ops=g._rv_ops(s["rv"])[0], places=g._rv_ops(s["rv"])[1], at=(b, i))
        if _field_in(g, w, "counter") and any(c.startswith("lit:1:") for c in g.consts_in(w)):
            inc = True
    must = bool(cs) and must_between(f, None, [(b, S) for b, i, s in cs], rets(f))[0]
    ck.ob("STATE", f"{label}::next:counter", inc and must, f"{label}::next: counter incremented by 1 on every path", loc=f.loc())
    mw = [(b, t) for b, t in f.calls() if (callee_name(t) or "").endswith("merge_with_int")]
    ok = False
    for b, t in mw:
        w0 = g.walk(ops=[t["args"][0]], at=(b, T))
        w1 = g.walk(ops=[t["args"][1]], at=(b, T))
        after = must_between(f, None, [(sb, S) for sb, si, ss in cs], [(b, T)])[0]
        res = t["dest"]["l"] == 0 or True
        ok = _field_in(g, w0, "seed") and _field_in(g, w1, "counter") and after
    ck.ob("STATE", f"{label}::next:output", ok,
          f"{label}::next: output = merge_with_int(seed, incremented counter)", loc=f.loc())


def check_draw(ck, prog, label, f, nxt):
    g = flow(f)
    oks = [e for e in exits(f) if e.kind == "ok"]
    good = bool(oks)
    for e in oks:
        w = g.walk(ops=e.payload["ops"], at=(e.node[0], _idx_of(f, e)), through=default_transparent)
        frb = [(b, t) for b, t in g.calls_in(w) if (callee_name(t) or "").endswith("Randomizable::from_random_bytes")]
        if not frb:
            good = False
            continue
        for b, t in frb:
            aw = g.walk(ops=[t["args"][0]], at=(b, T))
            if not nxt.among_walk(aw):
                good = False
    ck.ob("DRAW", f"{label}::draw:validated", good,
          f"{label}::draw: every returned element is the Some payload of from_random_bytes applied to the output of next()", loc=f.loc())
    # one next() per attempt: every cycle through a from_random_bytes call passes a next() call
    nb = [(b, T) for b, t in f.calls() if nxt.is_call(t)]
    fb = [(b, T) for b, t in f.calls() if (callee_name(t) or "").endswith("Randomizable::from_random_bytes")]
    per = bool(nb) and bool(fb) and must_between(f, fb, nb, fb)[0] and must_between(f, None, nb, fb)[0]
    ck.ob("DRAW", f"{label}::draw:fresh-output-per-attempt", per,
          f"{label}::draw: each attempt converts a fresh output of next()", loc=f.loc())
    errs = [e for e in exits(f) if e.kind == "err"]
    ck.ob("DRAW", f"{label}::draw:bounded", any(e.variant == "FailedToDrawFieldElement" for e in errs),
          f"{label}::draw: exhausting the attempts is an error, not a value", loc=f.loc())


def _idx_of(f, e):
    b = e.node[0]
    for i, s in enumerate(f.stmts(b)):
        if s["k"] == "assign" and s["lhs"]["l"] == 0 and "p" not in s["lhs"]:
            return i
    return "T"


def check_draw_integers(ck, prog, label, f, nxt):
    g = flow(f)
    ss = eff_stores(prog, f, "seed")
    cs = eff_stores(prog, f, "counter")
    nb = [(b, T) for b, t in f.calls() if nxt.is_call(t)]
    ok_seed = any(any(n.endswith("merge_with_int") for n in es.names) and _has_field(es, "seed") and "nonce" in es.params for es in ss)
    before = bool(ss) and bool(nb) and must_between(f, None, [es.node for es in ss], nb)[0]
    ck.ob("STATE", f"{label}::draw_integers:reseed-with-nonce", ok_seed and before,
          f"{label}::draw_integers: seed = merge_with_int(seed, nonce) before the first value is drawn", loc=f.loc())
    # the reset precedes the first draw (the draws themselves advance the counter through next())
    zs = [es for es in cs if es.zero]
    okc = bool(zs) and bool(nb) and must_between(f, None, [es.node for es in zs], nb)[0]
    ck.ob("STATE", f"{label}::draw_integers:counter", okc, f"{label}::draw_integers: counter reset before the first value is drawn", loc=f.loc())
    pushes = [(b, t) for b, t in f.calls() if (callee_name(t) or "").endswith("Vec::push")]
    okp = bool(pushes)
    for b, t in pushes:
        w = g.walk(ops=[t["args"][1]], at=(b, T))
        masked = False
        # the pushed value is a BitAnd with a mask derived from domain_size - 1
        for bb, i, s in f.assigns():
            if s["rv"]["k"] == "bin" and s["rv"]["op"] == "BitAnd":
                wa = g.walk(ops=[s["rv"]["a"]], at=(bb, i))
                wb = g.walk(ops=[s["rv"]["b"]], at=(bb, i))
                for x, y in ((wa, wb), (wb, wa)):
                    if nxt.among_walk(x) and any(f.local_name(p) == "domain_size" for p in g.params_in(y)) \
                            and any(c.startswith("lit:1:") for c in g.consts_in(y)) and not nxt.among_walk(y):
                        # and this BitAnd feeds the push
                        if ("l", 0) or True:
                            masked = masked or _feeds(g, f, s["lhs"]["l"], t["args"][1], (b, T))
        # ... or the remainder of the division by domain_size itself (the same value when domain_size is a power of two, which
        # draw_integers asserts)
        for bb, i, s in f.assigns():
            if s["rv"]["k"] == "bin" and s["rv"]["op"] == "Rem":
                wa = g.walk(ops=[s["rv"]["a"]], at=(bb, i))
                wb = g.walk(ops=[s["rv"]["b"]], at=(bb, i))
                if nxt.among_walk(wa) and not nxt.among_walk(wb) and any(f.local_name(p) == "domain_size" for p in g.params_in(wb)) \
                        and not g.consts_in(wb):
                    masked = masked or _feeds(g, f, s["lhs"]["l"], t["args"][1], (b, T))
        if not (masked and nxt.among_walk(w)):
            okp = False
    ck.ob("DRAW", f"{label}::draw_integers:masked", okp,
          f"{label}::draw_integers: every returned integer is an output of next() masked with domain_size - 1", loc=f.loc())
    per = bool(nb) and bool(pushes) and must_between(f, [(b, T) for b, t in pushes], nb, [(b, T) for b, t in pushes])[0]
    ck.ob("DRAW", f"{label}::draw_integers:fresh-output-per-value", per,
          f"{label}::draw_integers: between two pushed values the coin is advanced by next()", loc=f.loc())
    mg = MustGuards(prog)
    gs = [x for x in mg.of(f) if x.fn is f and "FailedToDrawIntegers" in x.errs and x.cond.kind == "cmp"]
    okg = False
    for x in gs:
        for op, l, r in ((x.cond.op, x.cond.lhs, x.cond.rhs), (FLIP[x.cond.op], x.cond.rhs, x.cond.lhs)):
            if op in ("<", "!="):
                lw = g.walk(ops=[l], at=x.cond.node)
                rw = g.walk(ops=[r], at=x.cond.node)
                if any(n.endswith("Vec::len") for n in g.callee_names_in(lw)) and any(f.local_name(p) == "num_values" for p in g.params_in(rw)):
                    okg = True
    ck.ob("DRAW", f"{label}::draw_integers:count", okg,
          f"{label}::draw_integers: Ok only when exactly the requested number of values was collected", loc=f.loc())


def _feeds(g, f, src_local, op, at):
    """does the value of src_local (one of its defs) flow into operand op at point `at`?"""
    w_defs = set()
    # walk and look for the assignment defining src_local among visited defs: approximate by checking that the
    # operand's walk reaches the same calls as the source's own walk (cheap and sufficient here)
    l = op_local(op)
    if l == src_local:
        return True
    seen = set()
    st = [l]
    while st:
        x = st.pop()
        if x in seen or x is None:
            continue
        seen.add(x)
        for (b, i, s) in f.defs.get(x, []):
            if i == "T":
                continue
            if s["k"] != "assign":
                continue
            rv = s["rv"]
            for k in ("a", "b"):
                o = rv.get(k)
                if isinstance(o, dict):
                    ll = op_local(o)
                    if ll == src_local:
                        return True
                    st.append(ll)
    return False


def check_clz(ck, prog, label, f):
    g = flow(f)
    ro = not f.local_ty(1).startswith("&mut")
    no_store = not stores(f, "seed") and not stores(f, "counter")
    ck.ob("POW", f"{label}::check_leading_zeros:read-only", ro and no_store,
          f"{label}::check_leading_zeros takes &self and writes no coin state", loc=f.loc())
    ok = False
    for ds in g.sites:
        if ds.local == 0 and ds.kind in ("call", "assign"):
            if ds.kind == "call":
                w = g.walk(ops=list(ds.stmt["args"]), at=(ds.b, "T"))
            else:
                w = g.walk(ops=g._rv_ops(ds.stmt["rv"])[0], places=g._rv_ops(ds.stmt["rv"])[1], at=(ds.b, ds.i))
            ok = ok or (_field_in(g, w, "seed") and 2 in g.params_in(w) and
                        any(n.endswith("merge_with_int") for n in g.callee_names_in(w)) and not _field_in(g, w, "counter"))
    ck.ob("POW", f"{label}::check_leading_zeros:depends", ok,
          f"{label}::check_leading_zeros: measure = f(merge_with_int(seed, value)), independent of the draw counter", loc=f.loc())


def pow_complement(ck, prog):
    pv = prog.fn("winter_verifier::perform_verification")
    ck.saw(pv)
    mg = MustGuards(prog)
    g = flow(pv)
    vg = [x for x in mg.of(pv) if x.fn is pv and "QuerySeedProofOfWorkVerificationFailed" in x.errs and x.cond.kind == "cmp"]
    vcanon = None
    for x in vg:
        for op, l, r in ((x.cond.op, x.cond.lhs, x.cond.rhs), (FLIP[x.cond.op], x.cond.rhs, x.cond.lhs)):
            lw = g.walk(ops=[l], at=x.cond.node)
            if any(n.endswith("RandomCoin::check_leading_zeros") for n in g.callee_names_in(lw)):
                rw = g.walk(ops=[r], at=x.cond.node)
                if any(n.endswith("ProofOptions::grinding_factor") for n in g.callee_names_in(rw)):
                    vcanon = op
    ck.ob("POW", "verifier-reject-predicate", vcanon == "<",
          "verifier rejects iff check_leading_zeros(nonce) < grinding_factor", loc=pv.loc())
    from . import vguards as V
    gr = prog.fn(V.GRIND)
    ck.saw(gr)
    scope = V.nonce_search_scope(prog)
    pcanon = None
    from ..cfg import CMP_OPS
    for cf in scope:
        cg = flow(cf)
        for ds in cg.sites:
            if ds.kind != "assign" or ds.stmt["k"] != "assign":
                continue
            rv = ds.stmt["rv"]
            if rv["k"] == "bin" and rv["op"] in CMP_OPS:
                op = CMP_OPS[rv["op"]]
                for o, l, r in ((op, rv["a"], rv["b"]), (FLIP[op], rv["b"], rv["a"])):
                    lw = cg.walk(ops=[l], at=(ds.b, ds.i))
                    rw = cg.walk(ops=[r], at=(ds.b, ds.i))
                    if any(n.endswith("RandomCoin::check_leading_zeros") for n in cg.callee_names_in(lw)) and \
                            not any(n.endswith("RandomCoin::check_leading_zeros") for n in cg.callee_names_in(rw)):
                        pcanon = o
    # the grinding factor compared against is the context's
    gf_ok = any((callee_name(t) or "").endswith("ProofOptions::grinding_factor") for cf in scope for b, t in cf.calls())
    ck.ob("POW", "prover-search-predicate", pcanon is not None and vcanon is not None and pcanon == NEG[vcanon] and gf_ok,
          "the prover searches for a nonce with check_leading_zeros(nonce) >= grinding_factor — the exact complement of the verifier's reject predicate",
          loc=gr.loc(), detail=f"prover accepts iff measure {pcanon} factor; verifier rejects iff measure {vcanon} factor")


def controls(ck, prog, impls):
    """Positive control: DefaultRandomCoin::check_leading_zeros does not touch the counter, so the `next:counter`
    matcher must find no increment there."""
    im = impls[0]
    f = prog.fns[[it["id"] for it in im["items"] if it["name"] == "check_leading_zeros"][0]]
    ck.control("check_leading_zeros has no counter increment", not stores(f, "counter"))
