"""Rule DERIVED (shared by C01, C17, C15): a value cached in a field stays consistent with the field it was computed from.

If a struct literal initialises field F with a value computed from the very variable (or parameter) that initialises field G, F is a
function of G.  Every method that later assigns G directly (`self.G = ..` in a `&mut self` method — a setter, builder-style or not) must
then assign F as well on every path from that assignment to its return; otherwise F describes the old G.  (Seed C01-L: the number of
composition columns computed once in the constructor for the default single transition exemption and not recomputed by
`set_num_transition_exemptions` — prover and verifier then agree on too few columns and honest proofs are rejected.)

The dependence is read from the construction site (reaching definitions: the definition that feeds G's operand through plain copies is
among the definitions F's operand is computed from); it is a may-dependence, so the rule is restricted to user-named variables and
parameters as the shared origin — two fields initialised from the same literal are not related by it."""
from ..cfg import T, S, must_between
from ..flow import flow
from ..ir import op_place


def _stores_to_self_field(f, adt):
    """[(block, index, field name)] direct assignments to a field of `*self` in a method whose first parameter is `&mut Self`"""
    out = []
    ins = f.get("inputs") or []
    if not ins:
        return out
    first = ins[0].replace(" ", "")
    by_ref = first.startswith("&mut")
    by_val = first.split("<")[0] == adt       # builder style: `fn set_x(mut self, ..) -> Self`
    if not (by_ref or by_val):
        return out
    for b, i, st in f.assigns():
        lhs = st.get("lhs") or {}
        proj = list(lhs.get("p", []))
        if lhs.get("l") != 1 or not proj:
            continue
        if by_ref:
            if proj[0] != "deref":
                continue
            proj = proj[1:]
        flds = [e for e in proj if isinstance(e, dict)]
        if len(flds) == 1 and "f" in flds[0] and flds[0].get("of") == adt and flds[0].get("n") and "deref" not in proj:
            out.append((b, i, flds[0]["n"]))
    return out


def derived_pairs(prog, adt):
    """{(F, G): (fn, block, index)} — at some struct literal of `adt`, F's operand is computed from the named variable / parameter that
    G's operand copies"""
    pairs = {}
    short = adt
    for f in prog.fns.values():
        if not f.blocks:
            continue
        for b, i, st in f.assigns():
            rv = st["rv"]
            if not (rv["k"] == "agg" and rv.get("adt") == adt and rv.get("fields")):
                continue
            g = flow(f)
            names = rv["fields"]
            chain = {}
            for n, op in zip(names, rv["ops"]):
                ds = set()
                g.walk(ops=[op], at=(b, i), through=lambda t: False, defs_out=ds)
                # only named variables and parameters count as a shared origin
                keep = set()
                for d in ds:
                    site = g.sites[d] if isinstance(g.sites, list) else g.sites.get(d)
                    if site is None:
                        continue
                    if site.kind == "param" or f.local_name(site.local):
                        if site.kind == "assign" and site.stmt.get("k") == "assign" and site.stmt["rv"]["k"] == "agg":
                            continue
                        keep.add(d)
                chain[n] = keep
            for n, op in zip(names, rv["ops"]):
                ds = set()
                g.walk(ops=[op], at=(b, i), defs_out=ds)
                for m in names:
                    if m != n and chain[m] and chain[m] & ds and not (chain[n] & chain[m]):
                        pairs.setdefault((n, m), (f, b, i))
    return pairs


def run(ck, prog, adts, rule="DERIVED"):
    ck.rule(rule, "a field computed at construction from the variable that initialises another field is re-assigned by every method that "
                  "assigns that other field (no stale cached value)")
    n_pairs, n_setters = 0, 0
    if adts is None:
        # every workspace type that has a method assigning one of its fields directly
        adts = sorted({(f.get("impl_self") or "").split("<")[0] for f in prog.fns.values()
                       if f.blocks and f.crate != "examples" and (f.get("impl_self") or "") and
                       _stores_to_self_field(f, (f.get("impl_self") or "").split("<")[0])})
    ck.stats[f"{rule}: types with field-assigning methods"] = len(adts)
    for adt in adts:
        pairs = derived_pairs(prog, adt)
        n_pairs += len(pairs)
        setters = {}
        for f in prog.fns.values():
            if not f.blocks or (f.get("impl_self") or "").split("<")[0] != adt:
                continue
            for b, i, name in _stores_to_self_field(f, adt):
                setters.setdefault(name, []).append((f, b, i))
        n_setters += sum(len(v) for v in setters.values())
        for (fld, src), (cf, cb, ci) in sorted(pairs.items()):
            for f, b, i in setters.get(src, []):
                ck.saw(f)
                acc = [(x, T) for x, blk in enumerate(f.blocks) if blk["t"]["k"] == "return"]
                restores = [(bb, ii) for bb, ii, nn in _stores_to_self_field(f, adt) if nn == fld]
                ok = bool(restores) and (must_between(f, [(b, T)], [(bb, T if ii == T else S) for bb, ii in restores], acc)[0]
                                         or all(bb == b for bb, ii in restores))
                ck.ob(rule, f"{adt.split('::')[-1]}.{fld}<-{src}@{f.nname.split('::')[-1]}", ok,
                      f"{f.nname.split('::')[-1]} assigns `{src}`; `{fld}` was computed from the same variable at construction "
                      f"({cf.nname.split('::')[-1]}) and is assigned again", loc=f.loc(b, i),
                      detail=None if ok else f"`{fld}` keeps the value computed for the old `{src}`")
    ck.stats[f"{rule}: derived field pairs / direct field assignments in &mut self methods"] = (n_pairs, n_setters)
    # positive control on real code: the constructor of AirContext computes its domain generators from the trace info it stores
    ctl = derived_pairs(prog, "winter_air::air::context::AirContext")
    ck.control(f"{rule}: AirContext.trace_domain_generator is recognised as computed from what initialises AirContext.trace_info",
               ("trace_domain_generator", "trace_info") in ctl)
    return n_pairs
