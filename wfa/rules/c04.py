"""C04 — Fiat-Shamir transcript: protocol-order precedence obligations over coin events (engine E1)
on the inter-procedurally expanded CFG of the verifier (`verify`) and of the prover
(`Prover::generate_proof`), plus origin requirements for what is absorbed (engine E3)."""
from ..cfg import S, T
from ..flow import partial_iteration, flow
from ..ir import Program, callee_name, op_local, AnchorError
from ..supergraph import Super, reaches_event

COIN = "winter_crypto::random::RandomCoin"
AIR = "winter_air::air::Air"
AIR_DRAWS = {
    "get_aux_rand_elements": "AIR_AUX",
    "get_constraint_composition_coefficients": "AIR_COEFFS",
    "get_deep_composition_coefficients": "AIR_DEEP",
}
FRI_PCH = "winter_fri::prover::channel::ProverChannel"
FRI_VCH = "winter_fri::verifier::channel::VerifierChannel"
TOELEMS = "winter_math::field::traits::ToElements"

# verifier: channel read -> message tag (public API of winter_verifier::VerifierChannel)
V_SOURCES = {
    "winter_verifier::channel::VerifierChannel::read_trace_commitments": "trace",
    "winter_verifier::channel::VerifierChannel::read_constraint_commitment": "constraint",
    "winter_verifier::channel::VerifierChannel::read_ood_trace_frame": "ood_trace",
    "winter_verifier::channel::VerifierChannel::read_ood_constraint_evaluations": "ood_evals",
}
# prover: ProverChannel method (item name) -> message tag
P_METHODS = {
    "commit_trace": "trace",
    "commit_constraints": "constraint",
    "send_ood_trace_states": "ood_trace",
    "send_ood_constraint_evaluations": "ood_evals",
    "commit_fri_layer": "fri",
}


from ..flow import default_transparent

DIGESTING = ("ElementHasher::hash_elements", "Hasher::hash", "Hasher::merge", "TraceOodFrame::hash",
             "TraceOodFrame::main_frame", "TraceOodFrame::aux_frame", "TraceOodFrame::lagrange_kernel_frame")


def transparent(t):
    n = callee_name(t) or ""
    return default_transparent(t) or n.endswith(DIGESTING)


def coin_event(f, b, t):
    fr = t.get("fn")
    if not fr:
        return None
    tr = fr.get("trait")
    it = fr.get("item")
    if tr == COIN:
        return {"new": "NEW", "reseed": "RESEED", "draw": "DRAW", "draw_integers": "D_INT",
                "check_leading_zeros": "POW"}.get(it)
    if tr == AIR and it in AIR_DRAWS:
        return AIR_DRAWS[it]
    # user-supplied GKR hooks receive the coin: opaque draw events
    if it == "generate_gkr_proof" and tr == "winter_prover::Prover":
        return "AIR_GKR"
    if it == "verify" and tr and tr.endswith("GkrVerifier"):
        return "AIR_GKR"
    return None


def is_event(f, b, t):
    return coin_event(f, b, t) is not None


def build_super(prog, root, ev_fns):
    def want(c, caller, b):
        if c.crate == "examples":
            return False
        if c.get("in_trait") == AIR:  # Air default methods are atomic events
            return False
        return c.id in ev_fns
    return Super(prog, root, want, max_depth=8)


def enclosing_chain(sg, node):
    ctx = node[0]
    return [sg.fn_of_ctx[ctx[:i]] for i in range(len(ctx) + 1)]


def tag_events(prog, sg, side):
    """node -> tag.  Tags: NEW, R:<msg>, D_Z, D_ALPHA, AIR_*, POW, D_INT"""
    tags = {}
    for n, f, t in sg.call_nodes():
        k = coin_event(f, n[1], t)
        if k is None:
            continue
        if k == "RESEED":
            tag = None
            if side == "V":
                g = flow(f)
                sl = g.producers(t["args"][1], (n[1], "T"), transparent)
                names = g.callee_names_in(sl)
                for src, m in V_SOURCES.items():
                    if src in names:
                        tag = m
                if any(c["fn"].get("trait") == FRI_VCH and c["fn"]["item"] == "read_fri_layer_commitments"
                       for _, c in g.calls_in(sl)):
                    tag = "fri"
                if tag == "trace":
                    iv = _index_const(f, t)
                    tag = "trace_main" if iv == 0 else ("trace_aux" if iv == 1 else "trace")
            else:
                # prover side: by the innermost enclosing channel method (the reseed itself may sit in a private helper it calls)
                tag = None
                for ef in reversed(enclosing_chain(sg, n)):
                    if ef.get("item_name") in P_METHODS:
                        tag = P_METHODS[ef.get("item_name")]
                        break
                if tag == "trace":
                    # main segment commit happens before any aux draw; distinguish by caller context
                    tag = "trace"
            tags[n] = "R:" + (tag or "unknown")
        elif k == "DRAW":
            in_fri = f.crate == "winter_fri" or f.get("trait_item", "").startswith(FRI_PCH)
            tags[n] = "D_ALPHA" if in_fri else "D_Z"
        else:
            tags[n] = k
    return tags


def _index_const(f, t):
    """If the reseed data operand is `slice[CONST]`, return the constant index."""
    l = op_local(t["args"][1], pure=True)
    if l is None:
        return None
    for (b, i, s) in f.defs.get(l, []):
        if i == "T" or s["k"] != "assign":
            continue
        rv = s["rv"]
        if rv["k"] == "use":
            p = rv["a"].get("copy") or rv["a"].get("move")
            if p:
                for e in p.get("p", []):
                    if isinstance(e, dict) and "idx" in e:
                        il = e["idx"]
                        for (b2, i2, s2) in f.defs.get(il, []):
                            if i2 != "T" and s2["k"] == "assign" and s2["rv"]["k"] == "use":
                                c = s2["rv"]["a"].get("const")
                                if c and "scalar" in c:
                                    return int(c["scalar"])
                    if isinstance(e, dict) and "cidx" in e:
                        return e["cidx"]
    return None


def nodes_with(tags, *wanted):
    return [n for n, t in tags.items() if t in wanted]


def chain_obligations(ck, sg, tags, side, seq, rule):
    """For consecutive (X, Y): every path from entry to a Y event passes an X event."""
    for X, Y in zip(seq, seq[1:]):
        xs = nodes_with(tags, X)
        ys = nodes_with(tags, Y)
        inst = f"{side}:{X}<{Y}"
        if not xs or not ys:
            ck.ob(rule, inst, False, f"{side}: event {X if not xs else Y} does not occur at all "
                  f"(required order {X} before {Y})", loc=sg.root.loc())
            continue
        ok, path = sg.must_between(None, xs, ys)
        ck.ob(rule, inst, ok,
              f"{side}: every path to {Y} passes {X}" if ok else
              f"{side}: a path reaches {Y} without passing {X} (challenge/step not preceded by the absorption/step it must follow)",
              loc=_loc(sg, ys[0]), detail=None if ok else "witness: " + sg.fmt_path(path))


def _loc(sg, node):
    f = sg.fn_of_ctx[node[0]]
    return f.loc(node[1], "T")


def between(ck, sg, tags, side, A, B, C, rule, what):
    a = nodes_with(tags, *A) if A else None
    bs = nodes_with(tags, *B)
    cs = nodes_with(tags, *C)
    inst = f"{side}:{'+'.join(A) if A else 'entry'}..[{'+'.join(B)}]..{'+'.join(C)}"
    if A is not None and not a:
        # the conditional segment does not exist on this tree: nothing to require
        ck.note(f"{inst}: no {A} event on this tree; obligation vacuous")
        return
    if not cs:
        ck.ob(rule, inst, False, f"{side}: event {C} missing", loc=sg.root.loc())
        return
    if not bs:
        ck.ob(rule, inst, False, f"{side}: {what}: no {B} event exists", loc=_loc(sg, cs[0]))
        return
    ok, path = sg.must_between(a, bs, cs)
    ck.ob(rule, inst, ok, f"{side}: {what}", loc=_loc(sg, cs[0]),
          detail=None if ok else "witness avoiding it: " + sg.fmt_path(path))


def run(ck):
    prog = Program("default")
    ck.analysed["configs"].add("default")
    ck.explanation = (
        "Static must-pass-through analysis of the Fiat-Shamir transcript. The generic (pre-"
        "monomorphisation) MIR of `winter_verifier::verify` and of `Prover::generate_proof` is expanded "
        "inter-procedurally (callees and closures that can reach a RandomCoin operation are inlined "
        "context-sensitively; trait calls on type parameters branch to every workspace impl). Coin "
        "operations are events; reseed events are tagged by the data-flow origin of the absorbed value "
        "(verifier: which VerifierChannel read produced it; prover: which ProverChannel method stores "
        "it into the proof). For each consecutive pair of the documented protocol order the check "
        "decides `every path from entry to Y passes X` by reachability with X removed; loops use the "
        "per-iteration form. Further obligations: the seed covers context and public inputs and every "
        "field of Context/TraceInfo/ProofOptions; the absorbed value is the value stored in / read "
        "from the proof; challenges that are used originate in the corresponding draw. This decides "
        "the ordering/dependence clause for all AIRs, fields, hashers and coins at once; it does not "
        "decide that both sides compute equal hash values."
    )
    ck.rule("E1.order", "for consecutive protocol events X<Y: MUST-BETWEEN(entry, X, Y) on the expanded CFG")
    ck.rule("E1.loop", "per FRI layer: every path from one alpha draw to the next passes a layer-commitment absorption")
    ck.rule("E1.aux", "multi-segment: main root absorbed before aux randomness; aux root absorbed between aux randomness and composition coefficients")
    ck.rule("E3.seed", "coin seed originates in Context::to_elements and PublicInputs::to_elements; to_elements impls read every field")
    ck.rule("E3.absorbed", "absorbed value = value carried in the proof (same data-flow origin)")
    ck.rule("E3.used", "every used challenge originates in its draw; nonce of POW = nonce of draw_integers")

    ev_fns = reaches_event(prog, is_event)
    vroot = prog.fn("winter_verifier::verify")
    proot = prog.fn("winter_prover::Prover::generate_proof")

    # ---------------------------------------------------------------- verifier
    vsg = build_super(prog, vroot, ev_fns)
    vtags = tag_events(prog, vsg, "V")
    for n in vsg.explore():
        ck.saw(vsg.fn_of_ctx[n[0]])
    n_reseed_v = sum(1 for t in vtags.values() if t.startswith("R:"))
    ck.stats["verifier_events"] = len(vtags)
    # FRI commit phase as a single event: the call into FriVerifier::new
    fri_new = [n for n, f, t in vsg.call_nodes() if callee_name(t) == "winter_fri::verifier::FriVerifier::new"]
    for n in fri_new:
        vtags[n] = "FRI_COMMIT"
    unknown = [n for n, t in vtags.items() if t == "R:unknown"]
    for n in unknown:
        ck.ob("E3.absorbed", f"V:reseed-origin@{vsg.fn_of_ctx[n[0]].nname}", False,
              "verifier absorbs a value that does not originate in a channel read of a prover message",
              loc=_loc(vsg, n))
    seq_v = ["NEW", "R:trace_main", "AIR_COEFFS", "R:constraint", "D_Z", "R:ood_trace", "R:ood_evals",
             "AIR_DEEP", "FRI_COMMIT", "POW", "D_INT"]
    chain_obligations(ck, vsg, vtags, "verifier", seq_v, "E1.order")
    between(ck, vsg, vtags, "verifier", None, ["R:fri"], ["D_ALPHA"], "E1.loop",
            "first FRI alpha is drawn after a layer commitment was absorbed")
    between(ck, vsg, vtags, "verifier", ["D_ALPHA"], ["R:fri"], ["D_ALPHA"], "E1.loop",
            "between two FRI alpha draws a layer commitment is absorbed")
    between(ck, vsg, vtags, "verifier", None, ["AIR_DEEP"], ["R:fri"], "E1.order",
            "FRI commitments are absorbed after the DEEP coefficients were drawn")
    between(ck, vsg, vtags, "verifier", None, ["R:trace_main"], ["AIR_AUX", "AIR_GKR"], "E1.aux",
            "auxiliary randomness is drawn after the main trace root was absorbed")
    between(ck, vsg, vtags, "verifier", ["AIR_AUX"], ["R:trace_aux"], ["AIR_COEFFS"], "E1.aux",
            "aux trace root is absorbed between aux randomness and composition coefficients")
    between(ck, vsg, vtags, "verifier", ["AIR_GKR"], ["R:trace_aux"], ["AIR_COEFFS"], "E1.aux",
            "aux trace root is absorbed between the GKR verifier's draws and composition coefficients")
    between(ck, vsg, vtags, "verifier", ["AIR_AUX"], ["R:trace_aux"], ["AIR_GKR"], "E1.aux",
            "the GKR verifier uses the coin BEFORE the auxiliary random elements are drawn (the prover generates the GKR proof first): "
            "no GKR event follows an aux draw without the aux root absorbed in between")
    verifier_origin_rules(ck, prog, vsg, vtags)

    # ---------------------------------------------------------------- prover
    psg = build_super(prog, proot, ev_fns)
    ptags = tag_events(prog, psg, "P")
    for n in psg.explore():
        ck.saw(psg.fn_of_ctx[n[0]])
    ck.stats["prover_events"] = len(ptags)
    fri_build = [n for n, f, t in psg.call_nodes() if callee_name(t) == "winter_fri::prover::FriProver::build_layers"]
    for n in fri_build:
        ptags[n] = "FRI_COMMIT"
    # the nonce search runs check_leading_zeros inside an iterator closure (zero or more times); the
    # ordering event on the prover side is the call of the grinding method itself
    for n in [n for n, t in ptags.items() if t == "POW"]:
        del ptags[n]
    for n, f, t in psg.call_nodes():
        if callee_name(t) == "winter_prover::channel::ProverChannel::grind_query_seed":
            ptags[n] = "POW"
    for n in [n for n, t in ptags.items() if t == "R:unknown"]:
        ck.ob("E3.absorbed", f"P:reseed-site@{psg.fn_of_ctx[n[0]].nname}", False,
              "prover reseeds the coin outside the channel methods that store the message in the proof",
              loc=_loc(psg, n))
    seq_p = ["NEW", "R:trace", "AIR_COEFFS", "R:constraint", "D_Z", "R:ood_trace", "R:ood_evals",
             "AIR_DEEP", "FRI_COMMIT", "POW", "D_INT"]
    chain_obligations(ck, psg, ptags, "prover", seq_p, "E1.order")
    between(ck, psg, ptags, "prover", None, ["R:fri"], ["D_ALPHA"], "E1.loop",
            "first FRI alpha is drawn after a layer commitment was absorbed")
    between(ck, psg, ptags, "prover", ["D_ALPHA"], ["R:fri"], ["D_ALPHA"], "E1.loop",
            "between two FRI alpha draws a layer commitment is absorbed")
    between(ck, psg, ptags, "prover", ["D_ALPHA"], ["R:fri"], ["POW"], "E1.loop",
            "after the last alpha the remainder commitment is absorbed before the query seed is ground")
    between(ck, psg, ptags, "prover", None, ["AIR_DEEP"], ["R:fri"], "E1.order",
            "FRI commitments are absorbed after the DEEP coefficients were drawn")
    between(ck, psg, ptags, "prover", None, ["R:fri"], ["POW"], "E1.order",
            "at least the remainder commitment is absorbed before the query seed is ground")
    between(ck, psg, ptags, "prover", None, ["R:trace"], ["AIR_AUX", "AIR_GKR"], "E1.aux",
            "auxiliary randomness is drawn after the main trace root was absorbed")
    between(ck, psg, ptags, "prover", ["AIR_AUX"], ["R:trace"], ["AIR_COEFFS"], "E1.aux",
            "aux trace root is absorbed between aux randomness and composition coefficients")
    between(ck, psg, ptags, "prover", ["AIR_AUX"], ["R:trace"], ["AIR_GKR"], "E1.aux",
            "the GKR proof is generated (coin handed to the user's hook) BEFORE the auxiliary random elements are drawn: no GKR event "
            "follows an aux draw without a trace root absorbed in between")
    prover_origin_rules(ck, prog, psg, ptags)
    seed_field_coverage(ck, prog)
    digest_coverage(ck, prog)
    from .stale import unsorted_dedup_sites
    for f_, b_, ok_ in unsorted_dedup_sites(prog, lambda f: f.crate in ("winter_verifier",) or f.nname.startswith("winter_prover::channel::")):
        ck.saw(f_)
        ck.ob("E3.used", f"{'V' if f_.crate == 'winter_verifier' else 'P'}:positions-sorted-before-dedup", ok_,
              f"{f_.nname.split('::')[-1]}: the drawn query positions are sorted before duplicates are removed (both sides derive the same set)",
              loc=f_.loc(b_, "T"))
    from . import c15 as _c15
    _c15.remainder_sent(ck, prog, rule="SENT")   # FRI: the remainder carried in the proof is the one whose hash was absorbed

    # floors counted on the pinned tree
    ck.floor("verifier reseed sites (expanded)", n_reseed_v, 18)
    ck.floor("prover events (expanded)", len(ptags), 30)
    controls(ck, prog, ev_fns)


# ---- origin rules --------------------------------------------------------------------------------

def arg_slice(f, b, idx):
    """full backward slice (through every call) of argument idx of the call ending block b"""
    return flow(f).walk(ops=[f.term(b)["args"][idx]], at=(b, T))


def arg_prod(f, b, idx):
    return flow(f).walk(ops=[f.term(b)["args"][idx]], at=(b, T), through=transparent)


def any_arg_from(f, b, blocks, skip=()):
    t = f.term(b)
    for i in range(len(t["args"])):
        if i in skip:
            continue
        if any(nd[0] == "c" and nd[1] in blocks for nd in arg_slice(f, b, i)):
            return True
    return False


def verifier_origin_rules(ck, prog, sg, tags):
    # seed
    for n in nodes_with(tags, "NEW"):
        f = sg.fn_of_ctx[n[0]]
        g = flow(f)
        sl = arg_slice(f, n[1], 0)
        ctx_ok = False
        pub_ok = False
        for b, c in g.calls_in(sl):
            if c["fn"].get("trait") == TOELEMS and c["fn"]["item"] == "to_elements":
                rf = prog.fns.get(c["fn"].get("resolved", ""))
                if rf is not None and rf.get("impl_self_adt") == "winter_air::proof::context::Context":
                    ctx_ok = True
                else:
                    if _param_named(f, g.params_in(arg_slice(f, b, 0)), "pub_inputs"):
                        pub_ok = True
        ck.ob("E3.seed", f"V:seed-context@{f.nname}", ctx_ok,
              "verifier coin seed originates in Context::to_elements of the proof", loc=f.loc(n[1], "T"))
        ck.ob("E3.seed", f"V:seed-pubinputs@{f.nname}", pub_ok,
              "verifier coin seed originates in to_elements of the public inputs", loc=f.loc(n[1], "T"))
    pv = None
    for n in nodes_with(tags, "R:ood_trace"):
        pv = sg.fn_of_ctx[n[0]]
    if pv is None:
        return
    g = flow(pv)

    def calls_named(name):
        return [(b, t) for b, t in pv.calls() if callee_name(t) == name]

    def producer_reads(b, idx, readname):
        return {bb for bb, c in g.calls_in(arg_prod(pv, b, idx)) if callee_name(c) == readname}

    RD_OOD = "winter_verifier::channel::VerifierChannel::read_ood_trace_frame"
    RD_EV = "winter_verifier::channel::VerifierChannel::read_ood_constraint_evaluations"
    ec = calls_named("winter_verifier::evaluator::evaluate_constraints")
    comp = calls_named("winter_verifier::composer::DeepComposer::compose_trace_columns")
    cce = calls_named("winter_verifier::composer::DeepComposer::compose_constraint_evaluations")
    absorbed_frame = set()
    absorbed_evals = set()
    for n in nodes_with(tags, "R:ood_trace"):
        absorbed_frame |= producer_reads(n[1], 1, RD_OOD)
    for n in nodes_with(tags, "R:ood_evals"):
        absorbed_evals |= producer_reads(n[1], 1, RD_EV)
    for name, sites, absorbed, rd in (("evaluate_constraints", ec, absorbed_frame, RD_OOD),
                                      ("compose_trace_columns", comp, absorbed_frame, RD_OOD),
                                      ("compose_constraint_evaluations", cce, absorbed_evals, RD_EV)):
        if not sites:
            raise AnchorError(f"verifier: no call of {name} in {pv.nname}")
        for b, t in sites:
            used = set()
            for i in range(len(t["args"])):
                used |= producer_reads(b, i, rd)
            ck.ob("E3.absorbed", f"V:same-value:{name}", bool(used) and used <= absorbed,
                  f"the OOD values handed to {name} are the ones absorbed into the coin (same channel read)",
                  loc=pv.loc(b, "T"))
    z_nodes = {n[1] for n in nodes_with(tags, "D_Z") if sg.fn_of_ctx[n[0]] is pv}
    coeff_nodes = {n[1] for n in nodes_with(tags, "AIR_COEFFS") if sg.fn_of_ctx[n[0]] is pv}
    deep_nodes = {n[1] for n in nodes_with(tags, "AIR_DEEP") if sg.fn_of_ctx[n[0]] is pv}
    int_nodes = {n[1] for n in nodes_with(tags, "D_INT") if sg.fn_of_ctx[n[0]] is pv}
    for b, t in ec:
        ck.ob("E3.used", "V:z->evaluate_constraints", any_arg_from(pv, b, z_nodes),
              "the OOD point handed to evaluate_constraints is the one drawn from the coin", loc=pv.loc(b, "T"))
        ck.ob("E3.used", "V:coeffs->evaluate_constraints", any_arg_from(pv, b, coeff_nodes),
              "the composition coefficients handed to evaluate_constraints are the ones drawn", loc=pv.loc(b, "T"))
    dc = calls_named("winter_verifier::composer::DeepComposer::new")
    if not dc:
        raise AnchorError("verifier: no call of DeepComposer::new")
    for b, t in dc:
        ck.ob("E3.used", "V:z->DeepComposer", any_arg_from(pv, b, z_nodes), "DeepComposer uses the drawn z", loc=pv.loc(b, "T"))
        ck.ob("E3.used", "V:deep->DeepComposer", any_arg_from(pv, b, deep_nodes), "DeepComposer uses the drawn DEEP coefficients", loc=pv.loc(b, "T"))
        ck.ob("E3.used", "V:positions->DeepComposer", any_arg_from(pv, b, int_nodes), "DeepComposer uses the drawn query positions", loc=pv.loc(b, "T"))
    for name in ("winter_verifier::channel::VerifierChannel::read_queried_trace_states",
                 "winter_verifier::channel::VerifierChannel::read_constraint_evaluations",
                 "winter_fri::verifier::FriVerifier::verify"):
        sites = calls_named(name)
        if not sites:
            raise AnchorError(f"verifier: no call of {name}")
        for b, t in sites:
            # skip the receiver (channel state depends on everything that touched it)
            ck.ob("E3.used", f"V:positions->{name.split('::')[-1]}", any_arg_from(pv, b, int_nodes, skip=(0,)),
                  f"{name.split('::')[-1]} is queried at the positions drawn from the coin", loc=pv.loc(b, "T"))
    RD_N = "winter_verifier::channel::VerifierChannel::read_pow_nonce"
    for n in nodes_with(tags, "POW"):
        if sg.fn_of_ctx[n[0]] is pv:
            ck.ob("E3.used", "V:pow-nonce", bool(producer_reads(n[1], 1, RD_N)),
                  "the proof-of-work check is applied to the nonce carried in the proof", loc=pv.loc(n[1], "T"))
    for n in nodes_with(tags, "D_INT"):
        if sg.fn_of_ctx[n[0]] is pv:
            ck.ob("E3.used", "V:draw-integers-nonce", bool(producer_reads(n[1], 3, RD_N)),
                  "query positions are drawn with the nonce carried in the proof", loc=pv.loc(n[1], "T"))
    # alpha storage in FriVerifier::new: alphas pushed originate in the draw
    fv = prog.fn("winter_fri::verifier::FriVerifier::new")
    pushes = [(b, t) for b, t in fv.calls() if (callee_name(t) or "").endswith("Vec::push")]
    draw_blocks = {b for b, t in fv.calls() if coin_event(fv, b, t) == "DRAW"}
    okp = any(any(nd[0] == "c" and nd[1] in draw_blocks for nd in arg_slice(fv, b, 1)) for b, t in pushes)
    ck.ob("E3.used", "V:alpha->layer_alphas", okp, "the stored FRI alphas originate in the coin draws", loc=fv.loc())
    for n in nodes_with(tags, "R:fri"):
        f = sg.fn_of_ctx[n[0]]
        g2 = flow(f)
        sl = arg_prod(f, n[1], 1)
        bad = partial_iteration(g2.callee_names_in(sl))
        ck.ob("E3.absorbed", f"V:all-fri-roots@{f.nname}", not bad,
              "the loop absorbing FRI layer commitments ranges over all commitments read from the channel",
              loc=f.loc(n[1], "T"), detail=f"partial iteration adaptors: {bad}" if bad else None)


def _param_named(f, params, name):
    return any(f.local_name(p) == name for p in params)


def prover_origin_rules(ck, prog, sg, tags):
    STORES = {
        "winter_air::proof::commitments::Commitments::add",
        "winter_air::proof::ood_frame::OodFrame::set_trace_states",
        "winter_air::proof::ood_frame::OodFrame::set_constraint_evaluations",
    }
    seen_methods = set()
    for n, tg in tags.items():
        if not tg.startswith("R:"):
            continue
        f = sg.fn_of_ctx[n[0]]
        if f.id in seen_methods:
            continue
        seen_methods.add(f.id)
        g = flow(f)
        dsl = arg_prod(f, n[1], 1)
        dparams = g.params_in(dsl) - {1}
        stores = [(b, c) for b, c in f.calls() if callee_name(c) in STORES or (callee_name(c) or "").endswith("Vec::push")]
        ok = False
        for b, c in stores:
            if ("c", b) in dsl:
                ok = True
            sp = set()
            for i in range(1, len(c["args"])):
                sp |= g.params_in(arg_prod(f, b, i))
            if dparams & (sp - {1}):
                ok = True
        ck.ob("E3.absorbed", f"P:stored=absorbed@{f.nname}", ok,
              "the value the prover absorbs is the value it stores into the proof (same origin)",
              loc=f.loc(n[1], "T"))
    for n in nodes_with(tags, "NEW"):
        f = sg.fn_of_ctx[n[0]]
        g = flow(f)
        sl = arg_slice(f, n[1], 0)
        ctx_ok = False
        for b, c in g.calls_in(sl):
            if c["fn"].get("trait") == TOELEMS and c["fn"]["item"] == "to_elements":
                rf = prog.fns.get(c["fn"].get("resolved", ""))
                if rf is not None and rf.get("impl_self_adt") == "winter_air::proof::context::Context":
                    ctx_ok = True
        pub_ok = _param_named(f, g.params_in(sl), "pub_inputs_elements")
        ck.ob("E3.seed", f"P:seed-context@{f.nname}", ctx_ok,
              "prover coin seed originates in Context::to_elements", loc=f.loc(n[1], "T"))
        ck.ob("E3.seed", f"P:seed-pubinputs@{f.nname}", pub_ok,
              "prover coin seed includes the public-input elements handed to the channel", loc=f.loc(n[1], "T"))
    root = sg.root
    g = flow(root)
    newc = [(b, t) for b, t in root.calls() if callee_name(t) == "winter_prover::channel::ProverChannel::new"]
    if not newc:
        raise AnchorError("prover: ProverChannel::new is not called from generate_proof")
    for b, t in newc:
        sl = arg_slice(root, b, 1)
        ok = any(c["fn"].get("trait") == TOELEMS and c["fn"]["item"] == "to_elements" for _, c in g.calls_in(sl)) and \
            any((callee_name(c) or "").endswith("Prover::get_pub_inputs") for _, c in g.calls_in(sl))
        ck.ob("E3.seed", "P:pub-inputs-elements", ok,
              "the elements seeding the prover's coin are to_elements() of the trace's public inputs", loc=root.loc(b, "T"))

    def blocks_of(tag):
        res = set()
        for n in nodes_with(tags, tag):
            if n[0]:
                if n[0][0][0] == root.id:
                    res.add(n[0][0][1])
            else:
                res.add(n[1])
        return res

    zb = blocks_of("D_Z")
    cb = blocks_of("AIR_COEFFS")
    db = blocks_of("AIR_DEEP")
    ib = blocks_of("D_INT")
    uses = [
        ("winter_prover::trace::poly_table::TracePolyTable::get_ood_frame", zb, "z->get_ood_frame", "trace polynomials are evaluated at the drawn z", (0,)),
        ("winter_prover::constraints::composition_poly::CompositionPoly::evaluate_at", zb, "z->evaluate_at", "composition polynomial is evaluated at the drawn z", (0,)),
        ("winter_prover::composer::DeepCompositionPoly::new", zb, "z->DeepCompositionPoly", "DEEP composition uses the drawn z", ()),
        ("winter_prover::composer::DeepCompositionPoly::new", db, "deep->DeepCompositionPoly", "DEEP composition uses the drawn coefficients", ()),
        ("winter_prover::Prover::new_evaluator", cb, "coeffs->new_evaluator", "constraint evaluator uses the drawn composition coefficients", (0,)),
        ("winter_fri::prover::FriProver::build_proof", ib, "positions->fri_build_proof", "FRI proof is built for the drawn query positions", (0,)),
        ("winter_prover::trace::trace_lde::TraceLde::query", ib, "positions->trace_query", "trace is queried at the drawn positions", (0,)),
        ("winter_prover::constraints::commitment::ConstraintCommitment::query", ib, "positions->constraint_query", "constraint commitment is queried at the drawn positions", (0,)),
    ]
    for name, blocks, inst, what, skip in uses:
        sites = [(b, t) for b, t in root.calls() if callee_name(t) == name]
        if not sites:
            raise AnchorError(f"prover: no call of {name} in generate_proof")
        for b, t in sites:
            ck.ob("E3.used", "P:" + inst, any_arg_from(root, b, blocks, skip), what, loc=root.loc(b, "T"))
    for send, use in (("send_ood_trace_states", "add_trace_polys"), ("send_ood_constraint_evaluations", "add_composition_poly")):
        ss = [(b, t) for b, t in root.calls() if (callee_name(t) or "").endswith("ProverChannel::" + send)]
        us = [(b, t) for b, t in root.calls() if (callee_name(t) or "").endswith("DeepCompositionPoly::" + use)]
        if not ss or not us:
            raise AnchorError(f"prover: {send}/{use} not found in generate_proof")
        so = set()
        for b, t in ss:
            so |= {nd for nd in arg_prod(root, b, 1) if nd[0] == "c"}
        for b, t in us:
            uo = {nd for nd in arg_prod(root, b, 2) if nd[0] == "c"}
            ck.ob("E3.absorbed", f"P:same-value:{use}", bool(so & uo),
                  f"the OOD values absorbed by {send} are the ones used by {use}", loc=root.loc(b, "T"))
    bl = prog.fn("winter_fri::prover::FriProver::build_layer")
    drp = [(b, t) for b, t in bl.calls() if callee_name(t) == "winter_fri::folding::apply_drp"]
    da = {b for b, t in bl.calls() if t["fn"].get("trait") == FRI_PCH and t["fn"]["item"] == "draw_fri_alpha"}
    if not drp or not da:
        raise AnchorError("fri prover: apply_drp / draw_fri_alpha not found in build_layer")
    for b, t in drp:
        ck.ob("E3.used", "P:alpha->apply_drp", any_arg_from(bl, b, da), "the folding challenge is the alpha drawn from the channel", loc=bl.loc(b, "T"))
    from ..cfg import must_between as mb
    ok, path = mb(bl, None, [(b, T) for b, t in bl.calls() if t["fn"].get("trait") == FRI_PCH and t["fn"]["item"] == "commit_fri_layer"],
                  [(b, T) for b in da])
    ck.ob("E1.loop", "P:build_layer:commit<alpha", ok, "in build_layer the layer root is committed before alpha is drawn", loc=bl.loc())
    bp = prog.fn("winter_prover::channel::ProverChannel::build_proof")
    ck.saw(bp)
    found = False
    gp = flow(bp)
    for b, i, s in bp.assigns():
        rv = s["rv"]
        if rv["k"] == "agg" and rv.get("adt") == "winter_air::proof::Proof":
            found = True
            for fname, op in zip(rv["fields"], rv["ops"]):
                if fname in ("context", "commitments", "ood_frame", "pow_nonce"):
                    sl = gp.walk(ops=[op], at=(b, i), through=transparent)
                    flds = {fl for (adt, fl) in gp.fields_in(sl) if adt == "winter_prover::channel::ProverChannel"}
                    ck.ob("E3.absorbed", f"P:proof.{fname}<-channel.{fname}", fname in flds,
                          f"Proof.{fname} is the channel's {fname} (the value that was absorbed / searched)", loc=bp.loc(b, i))
    if not found:
        raise AnchorError("ProverChannel::build_proof does not construct a Proof")
    gq = prog.fn("winter_prover::channel::ProverChannel::get_query_positions")
    gg = flow(gq)
    for b, t in gq.calls():
        if coin_event(gq, b, t) == "D_INT":
            flds = {fl for (adt, fl) in gg.fields_in(arg_prod(gq, b, 3))}
            ck.ob("E3.used", "P:draw-integers-nonce", "pow_nonce" in flds,
                  "query positions are drawn with the channel's pow_nonce", loc=gq.loc(b, "T"))
    from . import vguards as V
    gr = prog.fn(V.GRIND)
    ggr = flow(gr)
    scope = V.nonce_search_scope(prog)
    scope_names = {c.nname for c in scope}
    pred_ok = any(coin_event(c, b2, t2) == "POW" for c in scope for b2, t2 in c.calls())
    wrote = False
    for b, i, s in gr.assigns():
        flds = [e for e in s["lhs"].get("p", []) if isinstance(e, dict) and e.get("n") == "pow_nonce"]
        if flds and s["rv"]["k"] == "use":
            sl = ggr.walk(ops=[s["rv"]["a"]], at=(b, i))
            # the stored value is produced by the search: a call that takes a closure of the search, or a call of a search helper
            produced = False
            for nd in sl:
                if nd[0] != "c":
                    continue
                tt = gr.term(nd[1])
                if any(cid in {c.id for c in scope} for cid in gr.closure_args(tt)) or callee_name(tt) in scope_names:
                    produced = True
            wrote = wrote or (pred_ok and produced)
    ck.ob("E3.used", "P:pow-nonce-stored", wrote,
          "the nonce stored in the channel is the one found by the check_leading_zeros search", loc=gr.loc())


def digest_coverage(ck, prog):
    """The digest absorbed for the OOD trace frame covers every data-carrying field of the frame,
    on the prover side (OodFrame::set_trace_states) and on the verifier side (TraceOodFrame::hash)."""
    from ..flow import Summaries
    adt = "winter_air::proof::ood_frame::TraceOodFrame"
    data_fields = [f["name"] for f in prog.adt(adt)["variants"][0]["fields"] if "E" in f["ty"].replace("Evaluation", "")]
    if len(data_fields) < 3:
        raise AnchorError(f"TraceOodFrame data fields: {data_fields}")
    deep = Summaries(prog)
    for fname in ("winter_air::proof::ood_frame::TraceOodFrame::hash",
                  "winter_air::proof::ood_frame::OodFrame::set_trace_states"):
        f = prog.fn(fname)
        ck.saw(f)
        g = flow(f)
        # the digest is the function's result: follow it back through hash_elements (here or in a helper the function delegates
        # to — deep return summaries) to the fields of the frame it depends on
        covered = set()
        rets = [b for b, blk in enumerate(f.blocks) if blk["t"]["k"] == "return"]
        hashed = False
        for b in rets:
            # content flow only: a field whose LENGTH alone reaches the hashed buffer (a capacity computed from `len()`) is not covered
            sl = g.walk(ops=[{"copy": {"l": 0}}], at=(b, T), deep=deep,
                        through=lambda tt: not (callee_name(tt) or "").endswith(("::len", "::is_empty", "::capacity", "::count")))
            covered |= {fl for (a, fl) in g.fields_in(sl) if a == adt}
            names = g.callee_names_in(sl) | {n[1] for n in sl if n[0] == "cn"}
            hashed = hashed or any(n.endswith("ElementHasher::hash_elements") for n in names)
        if not hashed:
            raise AnchorError(f"{fname}: the result does not originate in hash_elements")
        for fld in data_fields:
            ck.ob("E3.absorbed", f"digest-covers:{fname.split('::')[-1]}:{fld}", fld in covered,
                  f"the digest computed by {fname.split('::')[-2]}::{fname.split('::')[-1]} (absorbed into the coin for the "
                  f"OOD trace frame) depends on TraceOodFrame.{fld}", loc=f.loc())


def seed_field_coverage(ck, prog):
    """Context/TraceInfo/ProofOptions::to_elements read every field of their struct."""
    for adt in ("winter_air::proof::context::Context", "winter_air::air::trace_info::TraceInfo",
                "winter_air::options::ProofOptions"):
        f = prog.impl_method(adt, TOELEMS, "to_elements")
        ck.saw(f)
        fields = prog.adt_fields(adt)
        read = set()
        # direct field reads and reads through &self accessor methods of the same ADT
        def collect(fn, depth=0):
            for b, blk in enumerate(fn.blocks):
                items = [s.get("rv") for s in blk["s"] if s["k"] == "assign"]
                for rv in items:
                    for p in _rv_places(rv):
                        for e in p.get("p", []):
                            if isinstance(e, dict) and e.get("of") == adt and e.get("n"):
                                read.add(e["n"])
                t = blk["t"]
                if t["k"] == "call":
                    for a in t["args"]:
                        p = a.get("copy") or a.get("move")
                        if p:
                            for e in p.get("p", []):
                                if isinstance(e, dict) and e.get("of") == adt and e.get("n"):
                                    read.add(e["n"])
                    if depth < 2:
                        cs, _ = prog.resolve_call(t)
                        for c in cs:
                            if c.get("impl_self_adt") == adt and c.get("impl_trait") is None:
                                collect(c, depth + 1)
        collect(f)
        # ... and encodes ALL of it: no iterator over a field's bytes/elements is cut short (take, skip, step_by, ...)
        from ..flow import partial_iteration
        names = {callee_name(t) or "" for b, t in f.calls()}
        for b, t in f.calls():
            for cid in f.closure_args(t):
                if cid in prog.fns:
                    names |= {callee_name(tt) or "" for _, tt in prog.fns[cid].calls()}
        cut = partial_iteration(names)
        ck.ob("E3.seed", f"seed-whole:{adt.split('::')[-1]}", not cut,
              f"{adt.split('::')[-1]}::to_elements iterates over the whole of every field it encodes (a truncated iteration leaves the tail "
              "of a field out of the coin seed)", loc=f.loc(), detail=None if not cut else {"adaptors": cut})
        # ... injectively: a variable-length byte field cut into zero-padded chunks must contribute its length as well (otherwise values
        # that differ only in trailing zero bytes give the same elements)
        from ..flow import flow as _flow
        gfl = _flow(f)
        for b, t in f.calls():
            cn = callee_name(t) or ""
            if getattr(ck, "prop", "") == "C01":
                break     # injectivity of the seed encoding is a binding matter (C02/C03/C04), not a condition of completeness
            if not cn.endswith(("slice::chunks", "slice::chunks_exact")) or not t["args"]:
                continue
            w = gfl.walk(ops=t["args"][:1], at=(b, T), through=lambda tt: (callee_name(tt) or "").endswith(("Deref::deref", "Vec::as_slice", "AsRef::as_ref")))
            flds = sorted({n[2] for n in w if n[0] == "f" and n[1] == adt})
            for fld in flds:
                has_len = False
                for pb, pt in f.calls():
                    if (callee_name(pt) or "").endswith("Vec::push") and len(pt["args"]) > 1:
                        pw = gfl.walk(ops=[pt["args"][1]], at=(pb, T))
                        lens = [n for n in pw if n[0] == "c" and (callee_name(f.term(n[1])) or "").endswith(("Vec::len", "slice::len"))]
                        for n in lens:
                            lw = gfl.walk(ops=f.term(n[1])["args"][:1], at=(n[1], T), through=lambda tt: (callee_name(tt) or "").endswith(("Deref::deref",)))
                            if any(x[0] == "f" and x[1] == adt and x[2] == fld for x in lw):
                                has_len = True
                ck.ob("E3.seed", f"seed-length:{adt.split('::')[-1]}.{fld}", has_len,
                      f"{adt.split('::')[-1]}::to_elements encodes the LENGTH of the variable-length field `{fld}` that it cuts into zero-padded chunks "
                      "(without it, values differing only in trailing zero bytes seed the coin identically)", loc=f.loc(b, T))
        _manual_chunks(ck, prog, f, adt)
        from .stale import short_copy_sites
        for sb, arr, fresh in short_copy_sites(prog.inl(f)):
            ck.ob("E3.seed", f"seed-fresh-buffer:{adt.split('::')[-1]}", fresh,
                  f"{adt.split('::')[-1]}::to_elements: a chunk of variable length is staged in a buffer re-initialised since the chunk was fetched "
                  "(no bytes of the previous chunk are encoded behind a short last chunk)", loc=f.loc(),
                  detail=None if fresh else "the staging buffer keeps the tail of the previous chunk: values that continue a short last chunk with those bytes "
                                            "seed the coin identically")
        for fld in fields:
            ck.ob("E3.seed", f"seed-field:{adt.split('::')[-1]}.{fld}", fld in read,
                  f"{adt.split('::')[-1]}::to_elements encodes field `{fld}` into the coin seed "
                  "(what is not in the seed is not bound to the proof)", loc=f.loc())


def _manual_chunks(ck, prog, f, adt):
    """A to_elements that cuts a byte field by hand — `for i in 0..N { push(from_bytes(&field[start(i)..end(i)])) }` — covers the whole
    field only if the slices [start(i), end(i)), i < N, tile [0, len): N, start and end are extracted as expressions over the field's
    length L, the element size and the loop variable, and the tiling is evaluated for every L up to four elements' worth of bytes and
    every element size of the workspace (8, 16, 24, 32). A field tail that no slice reaches is not in the coin seed."""
    from .exempt import expr_at, strip_conv

    def ev(e, env):
        e = strip_conv(e)
        if e[0] == "k":
            if isinstance(e[1], int):
                return e[1]
            return env["EB"] if str(e[1]).endswith("::ELEMENT_BYTES") else None
        if e[0] == "field" and len(e) == 3 and isinstance(e[2], tuple) and e[2][0] == "call" and e[2][1].endswith("Iterator::next"):
            return env.get("i")
        if e[0] == "op":
            a, b = ev(e[2], env), ev(e[3], env)
            if a is None or b is None:
                return None
            try:
                return {"Add": a + b, "Sub": a - b, "Mul": a * b, "Div": a // b if b else None, "Rem": a % b if b else None}.get(e[1])
            except Exception:
                return None
        if e[0] == "call":
            name = e[1].split("::")[-1]
            if name == "len" and len(e[2]) == 1:
                base = strip_conv(e[2][0])
                return env["L"] if base == env["field"] else None
            if len(e[2]) == 2 and name in ("min", "max", "div_ceil", "saturating_sub"):
                a, b = ev(e[2][0], env), ev(e[2][1], env)
                if a is None or b is None:
                    return None
                return {"min": min(a, b), "max": max(a, b), "div_ceil": -(-a // b) if b else None, "saturating_sub": max(a - b, 0)}[name]
        return None

    for b, t in f.calls():
        if not (callee_name(t) or "").endswith(("Index::index",)) or len(t["args"]) != 2:
            continue
        base = strip_conv(expr_at(f, t["args"][0]))
        rng = strip_conv(expr_at(f, t["args"][1]))
        if not (base[0] == "field" and base[2] == ("p", 1) and rng[0] == "agg" and str(rng[1]).endswith("range::Range") and len(rng[2]) == 2):
            continue
        start, end = rng[2]

        def find_next(e):
            if isinstance(e, tuple):
                if e[0] == "call" and e[1].endswith("Iterator::next"):
                    return e
                for x in e[1:]:
                    if isinstance(x, tuple):
                        r = find_next(x)
                        if r:
                            return r
            return None
        nx = find_next(start) or find_next(end)
        if nx is None:
            continue
        it = strip_conv(nx[2][0])
        while it[0] == "call" and it[1].endswith("IntoIterator::into_iter") and it[2]:
            it = strip_conv(it[2][0])
        if not (it[0] == "agg" and str(it[1]).endswith("range::Range") and len(it[2]) == 2):
            ck.note("E3.seed: a hand-written chunk loop over something other than a plain range; its coverage is not decided")
            continue
        names = [x if isinstance(x, str) else x.get("name") for x in prog.adt_fields(adt)]
        fname = names[base[1]] if isinstance(base[1], int) and base[1] < len(names) else str(base[1])
        bad, undecided = None, False
        for EB in (8, 16, 24, 32):
            for L in range(0, 4 * EB + 4):
                env = {"EB": EB, "L": L, "field": base}
                lo, n = ev(it[2][0], env), ev(it[2][1], env)
                if lo is None or n is None:
                    undecided = True
                    break
                cur = 0
                for i in range(lo, n):
                    env["i"] = i
                    a, z = ev(start, env), ev(end, env)
                    if a is None or z is None:
                        undecided = True
                        break
                    if a > cur:
                        break
                    cur = max(cur, z)
                if undecided:
                    break
                if cur < L and bad is None:
                    bad = (L, EB, cur)
            if undecided:
                break
        if undecided:
            ck.note(f"E3.seed: the hand-written chunk loop over `{fname}` has bounds the rule cannot evaluate; its coverage is not decided")
            continue
        ck.ob("E3.seed", f"seed-whole:{adt.split('::')[-1]}.{fname}:chunk-loop", bad is None,
              f"{adt.split('::')[-1]}::to_elements: the hand-written chunk loop over `{fname}` reaches every byte of the field "
              "(evaluated for every length up to four elements and every element size)", loc=f.loc(b, T),
              detail=None if bad is None else f"a {bad[0]}-byte `{fname}` with {bad[1]}-byte elements: only the first {bad[2]} bytes are encoded; "
                                              "the rest does not reach the coin seed")


def _rv_places(rv):
    if rv is None:
        return
    for k in ("a", "b"):
        o = rv.get(k)
        if isinstance(o, dict):
            p = o.get("copy") or o.get("move")
            if p:
                yield p
    if "p" in rv and isinstance(rv["p"], dict):
        yield rv["p"]
    for o in rv.get("ops", []) or []:
        p = o.get("copy") or o.get("move")
        if p:
            yield p


def controls(ck, prog, ev_fns):
    """Positive control: on the real verifier graph, deleting an absorption must be detected by the
    same engine.  We remove the `R:constraint` events from the B-set and require MUST-BETWEEN to fail."""
    vroot = prog.fn("winter_verifier::verify")
    sg = build_super(prog, vroot, ev_fns)
    tags = tag_events(prog, sg, "V")
    ys = nodes_with(tags, "D_Z")
    ok, path = sg.must_between(None, [], ys)
    ck.control("verifier graph with the constraint-root absorption removed reaches the z draw", (not ok) and bool(ys))
