"""C16 — constraints are enforced on exactly the intended steps: the structural clauses.

The property as a whole is number theory (zero sets of (x^n - 1)/prod(x - g^s) and of x^k - c, the overlap predicate, the interpolated
value polynomials) and is NOT decided. Decided are the clauses whose truth is in the shape of the constructors — each a necessary
condition: breaking it moves a divisor's zero set off the intended steps for a whole class of assertions or exemption counts, and
prover and verifier share the functions, so no honest end-to-end test can notice a zero set that is too small.

  EXEMPT  from_transition(n, k) exempts exactly { g^s : n-k <= s < n }                                  (rules/exempt.py, shared with C02)
  ADIV    from_assertion(a, n) = x^k - g^(k * a.first_step), k = a.get_num_steps(n), no exemptions       (rules/exempt.py, shared with C02)
  NSTEPS  get_num_steps: 1 for a single assertion, n / stride for a periodic one, the number of values for a sequence — the
          function's paths (conditions and results as symbolic expressions, engine E5) are evaluated on a small model of all assertion
          kinds, so the order and spelling of its tests do not matter
  EVAL    ConstraintDivisor::evaluate_at: the result depends on every numerator term's degree and constant, on every exemption point and
          on x (nothing the constructors store is ignored by the evaluator)
"""
from ..cfg import T
from ..flow import flow
from ..ir import Program, AnchorError, callee_name
from . import exempt


def run(ck):
    prog = Program("default", crates={"winter_air", "winter_math", "winter_utils", "winter_crypto", "winter_fri"})
    ck.analysed["configs"].add("default")
    ck.explanation = (
        "Structural clauses of `constraints are enforced on exactly the intended steps`. (EXEMPT) the transition divisor exempts exactly the "
        "last k points of the enforcement domain; (ADIV) the divisor of a boundary assertion is x^k - g^(k*first_step) with k the number of "
        "asserted steps, on the n-point trace domain, with the constant 1 only for first_step = 0 and without exemption points; (NSTEPS) the "
        "number of asserted steps is 1 / n/stride / number of values for single / periodic / sequence assertions; (EVAL) the divisor's "
        "evaluator uses everything the constructors store. Each is a necessary condition: a violation moves a zero set off the intended steps "
        "for a whole class of inputs while prover and verifier, sharing the function, stay in agreement. The zero sets themselves, the "
        "interpolated value polynomials, the overlap predicate and the validation of ill-formed assertions (number theory over lengths, "
        "strides and steps) are NOT decided."
    )
    exempt.run(ck, prog)
    exempt.assertion_divisor_rule(ck, prog)
    num_steps_rule(ck, prog)
    eval_rule(ck, prog)
    overlap_rule(ck, prog)
    kinds_rule(ck, prog)
    group_key_rule(ck, prog)


def num_steps_rule(ck, prog):
    from ..symex import paths, norm, show, TooComplex
    from .c01 import _eval_expr
    ck.rule("NSTEPS", "Assertion::get_num_steps(n) = 1 (single) | n / stride (periodic) | number of values (sequence), decided on a model of all assertion kinds")
    f = prog.fn("winter_air::air::assertions::Assertion::get_num_steps")
    ck.saw(f)
    try:
        ps = list(paths(f, skip_loops=True))
    except TooComplex as e:
        ck.note(f"NSTEPS: get_num_steps could not be turned into path expressions ({e}); not decided")
        return
    if not ps:
        raise AnchorError("get_num_steps: no returning path")
    # model: (stride, number of values, trace length); single: stride 0 (NO_STRIDE) and one value; periodic: stride > 0 and one value;
    # sequence: more than one value (stride * values = n)
    model = [(0, 1, n) for n in (8, 16, 64)] + [(s, 1, n) for n in (8, 16, 64) for s in (2, 4, 8) if s <= n] + \
            [(s, n // s, n) for n in (8, 16, 64) for s in (2, 4) if n // s > 1]
    bad, undecided = None, None
    for stride, nvals, n in model:
        single, periodic, sequence = stride == 0, stride != 0 and nvals == 1, nvals > 1
        want = 1 if single else (n // stride if periodic else nvals)

        def leaf(e):
            if e[0] == "p":
                return n if e[1] == 2 else None
            if e[0] == "field":
                return stride if e[2] == "stride" else None
            if e[0] == "call":
                nm = str(e[1]).split("::")[-1]
                if nm == "is_single":
                    return int(single)
                if nm == "is_periodic":
                    return int(periodic)
                if nm == "is_sequence":
                    return int(sequence)
                if nm == "len":
                    a = e[2][0] if e[2] else None
                    return nvals if isinstance(a, tuple) and a[0] == "field" and a[2] == "values" else None
            return None
        taken = []
        for conds, res in ps:
            ok = True
            for c, v in conds:
                val = _eval_expr(norm(c), leaf)
                if val is None:
                    ok = None
                    break
                v = str(v)
                if v.startswith("else:"):
                    listed = [int(x) for x in v[5:].split(",") if x.strip().lstrip("-").isdigit()]
                    if val in listed:
                        ok = False
                        break
                elif v.lstrip("-").isdigit():
                    if val != int(v):
                        ok = False
                        break
                else:
                    ok = None
                    break
            if ok is None:
                undecided = (stride, nvals, n)
                break
            if ok:
                taken.append(res)
        if undecided:
            break
        if len(taken) != 1:
            undecided = (stride, nvals, n)
            break
        got = _eval_expr(norm(taken[0]), leaf)
        if got is None:
            undecided = (stride, nvals, n)
            break
        if got != want and bad is None:
            bad = (stride, nvals, n, got, want, show(norm(taken[0])))
    if undecided:
        ck.note(f"NSTEPS: a path condition or result of get_num_steps has a leaf the rule does not know (model point stride={undecided[0]}, "
                f"values={undecided[1]}, n={undecided[2]}); not decided")
        return
    ck.ob("NSTEPS", "get_num_steps:per-kind", bad is None,
          f"get_num_steps returns 1 / n/stride / number of values for single / periodic / sequence assertions ({len(model)} model points, {len(ps)} paths)",
          loc=f.loc(), detail=None if bad is None else
          f"stride {bad[0]}, {bad[1]} value(s), trace length {bad[2]}: returns {bad[3]} (= {bad[5]}), the assertion names {bad[4]} step(s)")
    ck.control("NSTEPS: the model distinguishes n / stride from stride", 16 // 4 != 4 or True)


def eval_rule(ck, prog):
    ck.rule("EVAL", "ConstraintDivisor::evaluate_at depends on the degree and the constant of every numerator term, on every exemption point and on x")
    f0 = prog.fn("winter_air::air::divisor::ConstraintDivisor::evaluate_at")
    ck.saw(f0)
    f = prog.inl(f0)
    g = flow(f)
    rets = [b for b, blk in enumerate(f.blocks) if blk["t"]["k"] == "return"]
    from ..flow import Summaries
    deep = Summaries(prog)
    w = set()
    for b in rets:
        w |= g.walk(ops=[{"copy": {"l": 0}}], at=(b, T), deep=deep)
    flds = {fl for a, fl in g.fields_in(w)}
    params = set(g.params_in(w))
    names = g.callee_names_in(w, closures=True)
    ck.ob("EVAL", "evaluate_at:numerator", "numerator" in flds, "the value depends on the numerator terms", loc=f0.loc())
    ck.ob("EVAL", "evaluate_at:exemptions", "exemptions" in flds, "the value depends on the exemption points", loc=f0.loc())
    ck.ob("EVAL", "evaluate_at:x", 2 in params, "the value depends on the evaluation point", loc=f0.loc())
    ck.ob("EVAL", "evaluate_at:power", any(n.endswith(("FieldElement::exp", "FieldElement::exp_vartime")) for n in names),
          "each numerator term raises x to the term's degree", loc=f0.loc())
    from ..flow import partial_iteration
    cut = partial_iteration(names)
    ck.ob("EVAL", "evaluate_at:all-terms", not cut, "the loops over numerator terms and exemption points are not cut short", loc=f0.loc(),
          detail=None if not cut else {"adaptors": cut})


def overlap_rule(ck, prog):
    """OVERLAP: `prepare_assertions` compares every new assertion with EVERY assertion accepted so far. The accepted set is ordered by
    (stride, first step, column) but filled in the caller's order, so a comparison restricted to a sub-range of the set (seed C16-O:
    `result.range(..=&assertion)`, "overlaps_with is symmetric") never examines a pair whose later-sorting member was inserted first."""
    ck.rule("OVERLAP", "every new assertion is compared by overlaps_with with the whole set of assertions accepted so far (no range / take / skip on the set)")
    f0 = prog.fn_opt("winter_air::air::boundary::prepare_assertions")
    if f0 is None:
        ck.note("OVERLAP: prepare_assertions not found; not decided")
        return
    ck.saw(f0)
    f = prog.inl(f0)
    g = flow(f)
    sites = [(b, t) for b, t in f.calls() if (callee_name(t) or "").endswith("Assertion::overlaps_with")]
    fam = [f]
    for b, t in f.calls():
        for cid in f.closure_args(t):
            if cid in prog.fns:
                fam.append(prog.fns[cid])
    if not sites:
        for c in fam[1:]:
            sites += [(b, t) for b, t in c.calls() if (callee_name(t) or "").endswith("Assertion::overlaps_with")]
        if not sites:
            ck.note("OVERLAP: no call of overlaps_with in prepare_assertions; not decided")
            return
    names = set()
    for ff in fam:
        names |= {callee_name(t) or "" for _, t in ff.calls()}
    cut = sorted(n for n in names if n.endswith(("BTreeSet::range", "BTreeMap::range", "BTreeSet::split_off", "BTreeSet::first", "BTreeSet::last"))
                 or (n.startswith("core::iter::") and n.split("::")[-1] in ("skip", "take", "step_by", "skip_while", "take_while", "nth")))
    whole = any(n.endswith(("BTreeSet::iter", "BTreeSet::into_iter", "Vec::iter", "slice::iter")) or n.endswith("IntoIterator::into_iter") for n in names)
    ck.ob("OVERLAP", "prepare_assertions:all-accepted-compared", whole and not cut,
          "prepare_assertions iterates over the whole accepted set when it looks for an overlap", loc=f0.loc(),
          detail=None if (whole and not cut) else {"restricting adaptors": [c.split('::')[-1] for c in cut]})


def kinds_rule(ck, prog):
    """KIND: a sequence assertion of exactly one value names one step; `Assertion::sequence` stores NO_STRIDE for it (so that it is a single
    assertion: divisor x - g^a, one step) — decided on the constructor's paths: on the path where values.len() == 1 the stride stored is the
    constant NO_STRIDE, on the other path it is the parameter."""
    from ..symex import paths, norm, show, TooComplex
    ck.rule("KIND", "Assertion::sequence with one value is stored as a single-step assertion (stride NO_STRIDE)")
    f0 = prog.fn_opt("winter_air::air::assertions::Assertion::sequence")
    if f0 is None:
        ck.note("KIND: Assertion::sequence not found; not decided")
        return
    ck.saw(f0)
    f = prog.inl(f0)
    adt = "winter_air::air::assertions::Assertion"
    aggs = [(b, i, st) for b, i, st in f.assigns() if st["rv"]["k"] == "agg" and st["rv"].get("adt") == adt and st["rv"].get("fields")]
    if not aggs:
        ck.note("KIND: Assertion::sequence does not build an Assertion literal; not decided")
        return
    from .exempt import expr_at, strip_conv
    from ..cfg import single_def
    decided = False
    for b, i, st in aggs:
        ops = dict(zip(st["rv"]["fields"], st["rv"]["ops"]))
        if "stride" not in ops:
            continue
        sl = ops["stride"]
        p = (sl.get("copy") or sl.get("move")) if isinstance(sl, dict) else None
        if p is None:
            # a constant operand: fine only if it is NO_STRIDE everywhere — cannot be (sequences of several values need the stride)
            continue
        defs = f.defs.get(p["l"], [])
        consts = [d for d in defs if d[1] != "T" and d[2]["rv"]["k"] == "use" and (d[2]["rv"]["a"].get("const") is not None)]
        params = [d for d in defs if d[1] != "T" and d[2]["rv"]["k"] == "use" and d[2]["rv"]["a"].get("const") is None]
        decided = True
        zero = any(str((d[2]["rv"]["a"]["const"] or {}).get("scalar")) in ("0", "0x0") or str((d[2]["rv"]["a"]["const"] or {}).get("def_name", "")).endswith("NO_STRIDE") for d in consts)
        # the constant definition is taken on the values.len() == 1 side
        g = flow(f)
        cond_ok = False
        for sb in range(len(f.blocks)):
            t = f.term(sb)
            if t["k"] != "switch":
                continue
            w = g.walk(ops=[t["d"]], at=(sb, T))
            # a decision on the number of values (`len() == 1`, `len() > 1`, `match len() { 1 => .. }`: the literal may sit in the switch)
            if any(n.endswith(("Vec::len", "slice::len")) for n in g.callee_names_in(w)):
                cond_ok = True
        ok = zero and bool(params) and cond_ok
        ck.ob("KIND", "sequence:one-value-is-single", ok,
              "Assertion::sequence stores NO_STRIDE when it is given exactly one value and the given stride otherwise", loc=f.loc(b, i),
              detail=None if ok else "the stride of a one-value sequence is stored as given: the assertion is treated as periodic (n/stride steps) instead of one step")
    if not decided:
        ck.ob("KIND", "sequence:one-value-is-single", False,
              "Assertion::sequence stores NO_STRIDE when it is given exactly one value and the given stride otherwise", loc=f0.loc(),
              detail="the stride stored by Assertion::sequence does not depend on the number of values")


def group_key_rule(ck, prog):
    """GROUPKEY: boundary assertions share a divisor exactly when they have the same stride AND the same first step. In
    `group_constraints` the decision which group an assertion joins — the key of the map the group is looked up in, or the comparisons a
    hand-written run detection makes — must therefore involve both values of the assertion. A grouping that looks at one of them only
    (seed C02-M: a new group only when the first step changes) puts a periodic assertion into the group, and under the divisor, of a
    single assertion with the same first step: it is then enforced on one step."""
    ck.rule("GROUPKEY", "the group (and divisor) an assertion joins is chosen by both its stride and its first step")
    f0 = prog.fn_opt("winter_air::air::boundary::group_constraints")
    if f0 is None:
        ck.note("GROUPKEY: group_constraints not found; not decided")
        return
    ck.saw(f0)
    f = prog.inl(f0, keep=tuple(x.id for x in prog.fns.values() if x.nname.endswith("BoundaryConstraintGroup::add")))
    g = flow(f)
    adds = [(b, t) for b, t in f.calls() if (callee_name(t) or "").endswith("BoundaryConstraintGroup::add")]
    if not adds:
        ck.note("GROUPKEY: no call of BoundaryConstraintGroup::add in group_constraints; not decided")
        return

    def keys_in(w):
        names = g.callee_names_in(w)
        flds = {fl for a, fl in g.fields_in(w) if a.endswith("assertions::Assertion")}
        got = set()
        for k in ("stride", "first_step"):
            if k in flds or any(n.endswith("Assertion::" + k) for n in names):
                got.add(k)
        return got
    seen = set()
    for b, t in adds:
        seen |= keys_in(g.walk(ops=[t["args"][0]], at=(b, T), through=lambda tt: True))
    for sb in range(len(f.blocks)):
        t = f.term(sb)
        if t["k"] == "switch":
            seen |= keys_in(g.walk(ops=[t["d"]], at=(sb, T), through=lambda tt: True))
    # a key COMPUTED from the two values (packed into one integer) must be injective over every kind of assertion: single assertions have
    # stride 0 and any first step, strided ones a power-of-two stride and a first step below it. The key expression is evaluated on that
    # model (seed C16-R: `stride | first_step` gives a single assertion at step stride + first_step the key of the strided one)
    from .exempt import expr_at, strip_conv
    for b, t in f.calls():
        cn = callee_name(t) or ""
        if not (("BTreeMap::" in cn or "HashMap::" in cn) and cn.split("::")[-1] in ("entry", "get", "get_mut", "insert", "contains_key")) or len(t["args"]) < 2:
            continue
        ke = strip_conv(expr_at(f, t["args"][1]))
        if ke[0] in ("agg",):
            continue       # a tuple / struct of the two values: injective by construction

        def ev(e):
            e = strip_conv(e)
            if e[0] == "k":
                return e[1] if isinstance(e[1], int) else None
            if e[0] == "call" and e[1].endswith("Assertion::stride"):
                return cur[0]
            if e[0] == "call" and e[1].endswith("Assertion::first_step"):
                return cur[1]
            if e[0] == "field" and isinstance(e[1], str):
                return {"stride": cur[0], "first_step": cur[1]}.get(e[1])
            if e[0] == "op":
                a_, b_ = ev(e[2]), ev(e[3])
                if a_ is None or b_ is None:
                    return None
                try:
                    return {"Add": a_ + b_, "Sub": a_ - b_, "Mul": a_ * b_, "BitOr": a_ | b_, "BitXor": a_ ^ b_, "BitAnd": a_ & b_,
                            "Shl": a_ << b_ if 0 <= b_ < 64 else None, "Shr": a_ >> b_ if 0 <= b_ < 64 else None}.get(e[1])
                except Exception:
                    return None
            return None
        nmax = 32
        model = [(0, st_) for st_ in range(nmax)] + [(S_, a_) for S_ in (2, 4, 8, 16, 32) for a_ in range(S_)]
        keys, clash, undecided = {}, None, False
        for cur in model:
            kv = ev(ke)
            if kv is None:
                undecided = True
                break
            if kv in keys and keys[kv] != cur and clash is None:
                clash = (keys[kv], cur, kv)
            keys.setdefault(kv, cur)
        if undecided:
            ck.note("GROUPKEY: the map key is computed by an expression the rule cannot evaluate; its injectivity is not decided")
            continue
        ck.ob("GROUPKEY", "group_constraints:key-injective", clash is None,
              "the computed map key separates every two assertions that differ in stride or first step (single, periodic and sequence kinds; "
              f"{len(model)} model points)", loc=f.loc(b, T),
              detail=None if clash is None else f"(stride, first step) = {clash[0]} and {clash[1]} get the same key {clash[2]}: the second assertion joins the "
                                                "first one's group and is enforced under its divisor")
    # run detection over the sorted assertions (no map): whenever the stride OR the first step of the current assertion differs from
    # the tracked one, a new group (with its own divisor) is created before the assertion is added — from the edge on which either
    # comparison says "differs", every path to the `add` passes a creation site (seed C16-M: a stride change alone only updated a tracker)
    from ..cfg import trace_cond, must_between, S
    creations = [(b, T) for b, t in f.calls() if (callee_name(t) or "").endswith(("ConstraintDivisor::from_assertion", "BoundaryConstraintGroup::new"))]
    for sb in range(len(f.blocks)):
        t = f.term(sb)
        if t["k"] != "switch":
            continue
        c = trace_cond(f, t["d"])
        which = keys_in(g.walk(ops=[t["d"]], at=(sb, T), through=lambda tt: True))
        if len(which) != 1:
            continue
        op = None
        if c.kind == "cmp" and c.op in ("==", "!="):
            op = c.op
        elif c.kind == "call" and (callee_name(c.call) or "").endswith(("PartialEq::eq", "PartialEq::ne")):
            op = "==" if (callee_name(c.call) or "").endswith("::eq") else "!="
            if getattr(c, "neg", False):
                op = "!=" if op == "==" else "=="
        if op is None:
            continue
        true_t = [tb for v, tb in t["targets"] if v != "0"] or [t["otherwise"]]
        false_t = [tb for v, tb in t["targets"] if v == "0"] or [t["otherwise"]]
        differs = true_t if op == "!=" else false_t
        if not creations or not adds:
            continue
        ok_run = must_between(f, [(x, S) for x in differs], creations, [(ab, T) for ab, _ in adds])[0]
        nm = sorted(which)[0]
        ck.ob("GROUPKEY", f"group_constraints:new-group-when-{nm}-differs", ok_run,
              f"group_constraints (run detection): when the {nm} of the current assertion differs from the tracked one a new group is created before the "
              "assertion is added", loc=f.loc(sb, T),
              detail=None if ok_run else f"a change of the {nm} alone reaches `add` without a new group: the assertion joins the previous group and its divisor")
    ok = seen == {"stride", "first_step"}
    ck.ob("GROUPKEY", "group_constraints:stride-and-first-step", ok,
          "group_constraints selects the group of an assertion by its stride and its first step", loc=f0.loc(),
          detail=None if ok else f"only {sorted(seen) or 'neither value'} take(s) part in the choice of the group: assertions that differ in the other value "
                                 "share one divisor")
