"""C15 — FRI completeness: clean/dirty typestate of FriProver (engine E2 must-pass), the remainder
commitment's exemption from the divisibility requirement, and prover/verifier agreement on layer count and
position folding (sibling cross-check)."""
from ..cfg import single_def, T, S, must_between, trace_cond, reach, guards as local_guards
from ..flow import flow
from ..guards import accept_nodes
from ..ir import Program, callee_name, AnchorError, op_local

FP = "winter_fri::prover::FriProver"


def _state_fields(prog):
    """(layers field, remainder field) of FriProver, found by their TYPES (private fields may be renamed): the vector of committed layers
    and the stored remainder"""
    flds = prog.adt(FP)["variants"][0]["fields"]
    lay = [f["name"] for f in flds if f["ty"].replace(" ", "").startswith("alloc::vec::Vec<") and "Layer" in f["ty"]]
    rem = [f["name"] for f in flds if "Remainder" in f["ty"] or (f["ty"].replace(" ", "").startswith("alloc::vec::Vec<E") and "Layer" not in f["ty"])]
    if len(lay) != 1 or len(rem) != 1:
        raise AnchorError(f"FriProver: cannot tell the layers field and the remainder field apart by type ({lay}, {rem})")
    return lay[0], rem[0]


def returns(fn):
    return [(b, T) for b, blk in enumerate(fn.blocks) if blk["t"]["k"] == "return"]


def field_arg_calls(fn, suffixes, field):
    """calls whose callee ends with a suffix and whose first argument refers to self.<field>"""
    g = flow(fn)
    res = []
    for b, t in fn.calls():
        cn = callee_name(t) or ""
        if cn.endswith(suffixes) and t["args"]:
            w = g.walk(ops=[t["args"][0]], at=(b, T), through=lambda x: False)
            if any(f == field and a.endswith("FriProver") for a, f in g.fields_in(w)):
                res.append((b, t))
    return res


def clears(prog, fn, depth=0):
    """fields of FriProver that are emptied on every path of fn (directly or via FriProver methods)"""
    out = set()
    for field in _state_fields(prog):
        sites = [(b, T) for b, t in field_arg_calls(fn, ("Vec::clear", "Vec::truncate", "mem::take", "mem::replace", "Vec::drain"), field)]
        if depth < 3:
            for b, t in fn.calls():
                cs, precise = prog.resolve_call(t)
                for c in cs:
                    if precise and c.get("impl_self_adt") == FP and c.id != fn.id and field in clears(prog, c, depth + 1):
                        sites.append((b, T))
        if sites and must_between(fn, None, sites, returns(fn))[0]:
            out.add(field)
    return out


def panic_guard(fn, field, want_empty):
    """nodes of a switch on is_empty(self.field) one edge of which diverges into a panic; returns the switch
    nodes whose NON-panicking edge corresponds to is_empty == want_empty"""
    g = flow(fn)
    res = []
    for b, blk in enumerate(fn.blocks):
        t = blk["t"]
        if t["k"] != "switch":
            continue
        c = trace_cond(fn, t["d"])
        if c.kind != "call" or not (callee_name(c.call) or "").endswith(("Vec::is_empty", "slice::is_empty")):
            continue
        w = g.walk(ops=[c.call["args"][0]], at=c.node, through=lambda x: False)
        if not any(f == field and a.endswith("FriProver") for a, f in g.fields_in(w)):
            continue
        listed = [v for v, _ in t["targets"]]
        edges = [(v != "0", tb) for v, tb in t["targets"]]
        if listed == ["0"]:
            edges.append((True, t["otherwise"]))
        for truth, tb in edges:
            truth = truth != c.neg
            r = reach(fn, [(tb, S)])
            diverges = not any(n in r for n in returns(fn))
            if diverges and truth != want_empty:
                res.append((b, T))
    return res


def run(ck):
    prog = Program("default", crates={"winter_fri", "winter_utils", "winter_math", "winter_crypto", "winter_air", "winter_verifier"})
    ck.analysed["configs"].add("default")
    ck.explanation = (
        "Typestate and agreement clauses of FRI completeness. (T) FriProver is clean (no layers, empty remainder) or dirty: "
        "build_layers panics unless clean and every path of it stores the remainder (dirty); build_proof panics unless dirty and "
        "every return path of it clears both the layers and the remainder (directly or through reset()) — the necessary condition "
        "of `a prover instance can be reused`. (X) the FRI verifier's constructor exempts the last (remainder) commitment from the "
        "divisibility requirement, as the query phase does, so honest proofs with a remainder shorter than the folding factor are "
        "not refused. (A) prover and verifier derive the number of layers from FriOptions::num_fri_layers, fold positions with the "
        "same function once per layer and shrink the domain by the folding factor once per layer. The folding identity and "
        "acceptance of all honest proofs are not decided."
    )
    ck.rule("T", "typestate clean/dirty of FriProver: asserted on entry, established on every return path")
    ck.rule("X", "the remainder commitment is exempt from the degree-divisibility requirement in FriVerifier::new")
    ck.rule("A", "prover and verifier agree on layer count, position folding and per-layer domain reduction")

    bl = prog.fn(FP + "::build_layers")
    bp = prog.fn(FP + "::build_proof")
    rs = prog.fn(FP + "::reset")
    for f in (bl, bp, rs):
        ck.saw(f)
    # private helpers of build_layers (build_layer, set_remainder, however they are cut) are read in place
    bli = prog.inl(bl)
    for n in getattr(bli, "inlined", ()) or ():
        ck.analysed["functions"].add(n)
    LAY, REM = _state_fields(prog)
    # T1: build_proof leaves the prover clean
    cl = clears(prog, bp)
    ck.ob("T", "build_proof:clears-layers", LAY in cl,
          "FriProver::build_proof empties `layers` on every return path (otherwise the next build_layers panics)", loc=bp.loc())
    ck.ob("T", "build_proof:clears-remainder", REM in cl,
          "FriProver::build_proof empties the remainder on every return path", loc=bp.loc())
    ck.ob("T", "reset:clears-both", clears(prog, rs) == {LAY, REM},
          "FriProver::reset empties both the layers and the remainder", loc=rs.loc())
    # T2: build_layers requires clean: the refusal precedes every commitment sent and every store of the remainder
    stores = [(b, S) for b, i, s in bli.assigns()
              if any(isinstance(e, dict) and e.get("n") == REM for e in s["lhs"].get("p", []))]
    pg = panic_guard(bli, LAY, want_empty=True)
    work = [(b, T) for b, t in bli.calls() if (callee_name(t) or "").endswith("commit_fri_layer")] + stores
    ok = bool(pg) and bool(work) and must_between(bli, None, pg, work)[0]
    ck.ob("T", "build_layers:requires-clean", ok, "FriProver::build_layers refuses to start unless no layers are stored", loc=bl.loc())
    # T3: build_layers makes the prover dirty
    ok = bool(stores) and must_between(bli, None, stores, returns(bli))[0]
    ck.ob("T", "build_layers:stores-remainder", ok,
          "every path of build_layers (private helpers read in place) assigns remainder_poly before it returns", loc=bl.loc())
    # T4: build_proof requires dirty
    pg = panic_guard(bp, REM, want_empty=False)
    ck.ob("T", "build_proof:requires-dirty", bool(pg) and must_between(bp, None, pg, returns(bp))[0],
          "FriProver::build_proof refuses to run before layers were built", loc=bp.loc())
    carried_state(ck, prog, bli, rs)
    remainder_exemption(ck, prog)
    layer_count_rule(ck, prog)
    agreement(ck, prog)
    remainder_sent(ck, prog)
    foldable_rule(ck, prog)
    from . import width
    width.run(ck, prog, only=("FriProof", "FriProofLayer"), floor=3)   # the FRI proof of a legal schedule survives serialization
    ck.control("FriProver::build_layers does not clear the layers", LAY not in clears(prog, bl))


def remainder_exemption(ck, prog):
    fv = prog.fn("winter_fri::verifier::FriVerifier::new")
    ck.saw(fv)
    g = flow(fv)
    acc = set(accept_nodes(fv))
    lg = [x for x in local_guards(fv, okset=acc) if any(e.variant == "DegreeTruncation" for e in x.errs)]
    if not lg:
        ck.note("FriVerifier::new has no DegreeTruncation decision (the query phase has its own): exemption vacuous")
        return
    ok = True
    for x in lg:
        # the decision must only be reachable through the true edge of `depth != len(commitments) - 1`
        found = False
        for b, blk in enumerate(fv.blocks):
            t = blk["t"]
            if t["k"] != "switch":
                continue
            c = trace_cond(fv, t["d"])
            if c.kind != "cmp" or c.op not in ("!=", "==", "<", ">="):
                continue
            wl = g.walk(ops=[c.lhs], at=c.node)
            wr = g.walk(ops=[c.rhs], at=c.node)
            for a, bb in ((wl, wr), (wr, wl)):
                if any(n.endswith("Iterator::enumerate") for n in g.callee_names_in(a)) and \
                        any(n.endswith("Vec::len") for n in g.callee_names_in(bb)) and \
                        (any(k.startswith("lit:1:") for k in g.consts_in(bb)) != any(k.startswith("lit:1:") for k in g.consts_in(a))):
                    # `depth == len - 1` and `depth + 1 == len` are the same decision (the literal on exactly one side)
                    # edges on which depth == last are the ones that must not lead to the decision
                    listed = [v for v, _ in t["targets"]]
                    for v, tb in [(v, tb) for v, tb in t["targets"]] + ([("1", t["otherwise"])] if listed == ["0"] else []):
                        truth = (v != "0")
                        is_last = truth if c.op == "==" else (not truth if c.op == "!=" else None)
                        if c.op == "<":
                            is_last = not truth
                        if c.op == ">=":
                            is_last = truth
                        if is_last:
                            r = reach(fv, [(tb, S)], avoid=frozenset([(b, T)]))
                            if (x.block, T) not in r:
                                found = True
        ok = ok and found
    ck.ob("X", "FriVerifier::new:remainder-exempt", ok,
          "FriVerifier::new applies the divisibility requirement to every commitment but the last (the remainder is never folded)",
          loc=fv.loc(lg[0].block, "T"))
    # ... and it examines the degree bound of THIS layer: the bound is divided by the folding factor only after it was examined; a division
    # that reaches the remainder test without passing the head of the loop makes the test look at the next layer's bound (for the last
    # folded layer: at the remainder, which the exemption above was meant to spare)
    rems = [(b, i, st) for b, i, st in fv.assigns() if st["rv"]["k"] == "bin" and st["rv"]["op"] == "Rem"]
    heads = [b for b, t in fv.calls() if (callee_name(t) or "").endswith("Iterator::next")]
    order_ok, decided = True, False
    for x in lg:
        c = trace_cond(fv, fv.term(x.block)["d"])
        cw = g.walk(ops=[fv.term(x.block)["d"]], at=(x.block, T), through=lambda tt: False)
        if ("b", "Rem") not in cw:
            continue
        for rb, ri, rst in rems:
            root = op_local(rst["rv"]["a"], pure=True)
            for _ in range(6):
                d = single_def(fv, root) if root is not None and not fv.local_name(root) else None
                if d is None or d[1] == "T" or d[2]["rv"]["k"] != "use":
                    break
                root = op_local(d[2]["rv"]["a"], pure=True)
            if root is None or not heads:
                continue
            for db, di, dst in fv.assigns():
                rv = dst["rv"]
                if rv["k"] != "bin" or rv["op"] != "Div":
                    continue
                # the quotient is stored back into the examined variable
                tgt = dst["lhs"]["l"]
                back = tgt == root or any(s2["rv"]["k"] == "use" and op_local(s2["rv"]["a"], pure=True) == tgt and s2["lhs"]["l"] == root
                                          for _, _, s2 in fv.assigns())
                src = op_local(rv["a"], pure=True)
                for _ in range(6):
                    d = single_def(fv, src) if src is not None and not fv.local_name(src) else None
                    if d is None or d[1] == "T" or d[2]["rv"]["k"] != "use":
                        break
                    src = op_local(d[2]["rv"]["a"], pure=True)
                if not back or src != root:
                    continue
                decided = True
                r = reach(fv, [(db, T)], avoid=frozenset([(h, S) for h in heads] + [(h, T) for h in heads]), include_starts=False)
                same_block_later = db == rb and ri > di
                if (rb, S) in r or same_block_later:
                    order_ok = False
    if decided:
        ck.ob("X", "FriVerifier::new:bound-examined-before-division", order_ok,
              "FriVerifier::new tests the divisibility of the degree bound of the current layer: the division by the folding factor follows the test "
              "within an iteration", loc=fv.loc(lg[0].block, "T"))
    else:
        ck.note("X: the order of the divisibility test and the division of the degree bound in FriVerifier::new is not of a recognised shape; not decided")


def agreement(ck, prog):
    bl = prog.fn(FP + "::build_layers")
    bp = prog.fn(FP + "::build_proof")
    vg = prog.fn("winter_fri::verifier::FriVerifier::verify_generic")
    ck.saw(vg)
    for f, label in ((bl, "prover:build_layers"), (vg, "verifier:verify_generic")):
        g = flow(f)
        ok = False
        for b, t in f.calls():
            cn = callee_name(t) or ""
            if cn.endswith("IntoIterator::into_iter") and "Range<usize>" in t.get("dest_ty", ""):
                w = g.walk(ops=[t["args"][0]], at=(b, T))
                if any(n.endswith("FriOptions::num_fri_layers") for n in g.callee_names_in(w)):
                    ok = True
        ck.ob("A", f"layer-count:{label}", ok, f"{label} iterates over FriOptions::num_fri_layers(domain size) layers", loc=f.loc())
    for f, label in ((bp, "prover:build_proof"), (vg, "verifier:verify_generic")):
        g = flow(f)
        fps = [(b, T) for b, t in f.calls() if (callee_name(t) or "").endswith("folding::fold_positions")]
        ok = bool(fps)
        if not ok:
            # the per-layer loop written with iterator adaptors: the folding happens in the closure applied to every layer
            clos = [prog.fns[cid] for b, t in f.calls() for cid in f.closure_args(t) if cid in prog.fns]
            inner = [c for c in clos if any((callee_name(t) or "").endswith("folding::fold_positions") for _, t in c.calls())]
            if inner:
                ok = True
                c = inner[0]
                shrinks = any(st["rv"]["k"] == "bin" and st["rv"]["op"] == "Div" for _, _, st in c.assigns())
                if shrinks:
                    ck.ob("A", f"domain-shrinks-per-layer:{label}", True,
                          f"{label}: the closure applied to every layer folds the positions and divides the domain size by the folding factor", loc=c.loc())
                else:
                    ck.note(f"A: {label}: the per-layer closure folds the positions; where the domain size shrinks was not recognised; not decided")
                ck.ob("A", f"fold_positions:{label}", True, f"{label} folds the query positions with folding::fold_positions", loc=f.loc())
                continue
        if ok:
            # per iteration: between two fold_positions calls the domain size is divided
            divs = []
            for b, i, s in f.assigns():
                rv = s["rv"]
                if rv["k"] == "bin" and rv["op"] == "Div":
                    la = op_local(rv["a"])
                    if la is not None and (f.local_name(la) == "domain_size" or f.local_name(s["lhs"]["l"]) == "domain_size"):
                        divs.append((b, S))
                    else:
                        # domain_size /= N shows up as tmp = Div(domain_size, ..); domain_size = tmp
                        w = g.walk(ops=[rv["a"]], at=(b, i), through=lambda x: False)
                        if any(f.local_name(n[1]) == "domain_size" for n in w if n[0] == "p") :
                            divs.append((b, S))
            ds = [(b, S) for b, i, s in f.assigns() if "p" not in s["lhs"] and f.local_name(s["lhs"]["l"]) == "domain_size"
                  and s["rv"]["k"] in ("bin", "use") and (s["rv"].get("op") == "Div" or True) and _is_div_update(f, b, i, s)]
            per = bool(ds) and must_between(f, fps, ds, fps)[0]
            ck.ob("A", f"domain-shrinks-per-layer:{label}", per,
                  f"{label}: between two position foldings the domain size is divided by the folding factor", loc=f.loc())
        ck.ob("A", f"fold_positions:{label}", ok, f"{label} folds the query positions with folding::fold_positions", loc=f.loc())


def layer_count_rule(ck, prog):
    """num_fri_layers folds while — and only while — the domain is strictly larger than the maximal remainder domain
    ((remainder_max_degree + 1) * blowup). Folding once more (`>=`) leaves a remainder with fewer coefficients than the schedule
    promises (none at all for minimal remainders: the prover cannot build the proof); stopping early (`>` against a smaller bound) makes
    the remainder exceed its bound."""
    from ..cfg import trace_cond, FLIP
    f = prog.fn("winter_fri::options::FriOptions::num_fri_layers")
    ck.saw(f)
    g = flow(f)
    ok, found = False, "no loop decision comparing the running domain size with the maximal remainder domain"
    for b, blk in enumerate(f.blocks):
        t = blk["t"]
        if t["k"] != "switch" or t.get("dty") != "bool":
            continue
        c = trace_cond(f, t["d"])
        if c.kind != "cmp":
            continue
        for op, l, r in ((c.op, c.lhs, c.rhs), (FLIP[c.op], c.rhs, c.lhs)):
            lw, rw = g.walk(ops=[l], at=c.node), g.walk(ops=[r], at=c.node)
            l_dom = any(f.local_name(p) == "domain_size" for p in g.params_in(lw))
            r_rem = {"remainder_max_degree", "blowup_factor"} <= {fl for a, fl in g.fields_in(rw)} and not any(f.local_name(p) == "domain_size" for p in g.params_in(rw))
            if not (l_dom and r_rem):
                continue
            # the edge on which `domain op bound` holds must be the one that folds again (reaches the division), the other one leaves the loop
            listed = [v for v, _ in t["targets"]]
            true_t = [tb for v, tb in t["targets"] if v != "0"] or ([t["otherwise"]] if listed == ["0"] else [])
            false_t = [tb for v, tb in t["targets"] if v == "0"] or ([t["otherwise"]] if "0" not in listed else [])
            divs = [(bb, S) for bb, ii, ss in f.assigns() if ss["rv"]["k"] == "bin" and ss["rv"]["op"] == "Div"]
            from ..cfg import reach
            folds_on_true = bool(true_t) and any(d in reach(f, [(true_t[0], S)], avoid=frozenset([(b, T)])) for d in divs)
            folds_on_false = bool(false_t) and any(d in reach(f, [(false_t[0], S)], avoid=frozenset([(b, T)])) for d in divs)
            cont = op if folds_on_true and not folds_on_false else ({"<": ">=", "<=": ">", ">": "<=", ">=": "<"}.get(op) if folds_on_false and not folds_on_true else None)
            found = f"folds again iff domain_size {cont} (remainder_max_degree + 1) * blowup_factor"
            ok = cont == ">"
    ck.ob("A", "num_fri_layers:fold-while-strictly-larger", ok,
          "FriOptions::num_fri_layers folds again iff the domain is strictly larger than the maximal remainder domain "
          f"({found})", loc=f.loc())


def _is_div_update(f, b, i, s):
    rv = s["rv"]
    if rv["k"] == "bin" and rv["op"] == "Div":
        return f.local_name(op_local(rv["a"])) == "domain_size" if op_local(rv["a"]) is not None else False
    if rv["k"] == "use":
        l = op_local(rv["a"])
        if l is None:
            return False
        for (bb, ii, ss) in f.defs.get(l, []):
            if ii != "T" and ss["k"] == "assign" and ss["rv"]["k"] == "bin" and ss["rv"]["op"] == "Div":
                la = op_local(ss["rv"]["a"])
                if la is not None and f.local_name(la) == "domain_size":
                    return True
    return False


# ---- SENT: the remainder sent is the remainder committed ------------------------------------------------------------------------------

COPY_ONLY = ("Clone::clone", "slice::to_vec", "ToOwned::to_owned", "Deref::deref", "DerefMut::deref_mut", "Into::into", "From::from", "Vec::as_slice",
             "AsRef::as_ref", "Borrow::borrow", "slice::iter", "Iterator::cloned", "Iterator::copied", "Iterator::collect", "IntoIterator::into_iter",
             "Vec::from", "Box::new", "box_assume_init_into_vec_unsafe", "Box::new_uninit", "mem::take", "mem::replace", "Vec::new", "Default::default")


def remainder_sent(ck, prog, rule="SENT"):
    """The verifier recomputes the hash of the remainder it receives and compares it with the commitment the prover absorbed. So (a) the
    vector handed to `FriProof::new` by `FriProver::build_proof` must be the stored remainder polynomial itself — reached from the field
    through copies only, never shortened, extended or edited on the way (seed C15-K: high-order zero coefficients trimmed after the
    commitment was made: every honest proof of a polynomial of less than half the degree bound is rejected) — and (b) where the remainder
    is stored, the value hashed for the commitment and the value stored are the same vector."""
    ck.rule(rule, "the remainder placed in the FRI proof is the committed remainder polynomial itself: copied from the prover's state without "
                  "modification, and the state holds the very vector whose hash was committed")
    LAY, REM = _state_fields(prog)
    bp = prog.inl(prog.fn(FP + "::build_proof"), keep=tuple(f.id for f in prog.fns.values() if f.nname.endswith("proof::FriProof::new")))
    ck.saw(bp)
    g = flow(bp)
    news = [(b, t) for b, t in bp.calls() if (callee_name(t) or "").endswith("FriProof::new") and len(t["args"]) >= 2]
    if not news:
        raise AnchorError("FriProver::build_proof does not call FriProof::new")
    for b, t in news:
        w = g.walk(ops=[t["args"][1]], at=(b, T), through=lambda tt: (callee_name(tt) or "").endswith(COPY_ONLY))
        flds = {fl for a, fl in g.fields_in(w)}
        calls = sorted({(callee_name(bp.term(n[1])) or "?") for n in w if n[0] == "c"})
        # a call counts only if it can change or produce the vector: it returns a vector of the remainder's type, or takes `&mut` to one
        vty = bp.local_ty(op_local(t["args"][1])).replace(" ", "") if op_local(t["args"][1]) is not None else ""
        elem = vty.split("Vec<", 1)[-1].split(",")[0].rstrip(">") if "Vec<" in vty else "E"

        def touches(tt):
            if (tt.get("dest_ty") or "").replace(" ", "") == vty:
                return True
            for a in tt["args"]:
                al = op_local(a)
                aty = bp.local_ty(al).replace(" ", "") if al is not None else ""
                if aty.startswith("&mut") and (vty in aty or f"[{elem}]" in aty):
                    return True
            return False
        foreign = sorted({(callee_name(bp.term(n[1])) or "?") for n in w if n[0] == "c" and not (callee_name(bp.term(n[1])) or "?").endswith(COPY_ONLY)
                          and touches(bp.term(n[1]))})
        ok = REM in flds and not foreign
        ck.ob(rule, "build_proof:remainder-is-the-stored-one", ok,
              "FriProver::build_proof hands FriProof::new the stored remainder polynomial, reached through copies only", loc=bp.loc(b, T),
              detail=None if ok else (f"the vector is modified or produced by {[c.split('::')[-1] for c in foreign]} between the prover's state and the proof: "
                                      "its hash no longer equals the commitment absorbed in the commit phase" if foreign else
                                      f"the vector does not originate in the field `{REM}`"))
    # (b) the store site
    bl = prog.inl(prog.fn(FP + "::build_layers"))
    gl = flow(bl)
    stores = []
    for b, i, st in bl.assigns():
        lhs = st.get("lhs") or {}
        if any(isinstance(e, dict) and e.get("n") == REM for e in lhs.get("p", [])):
            stores.append((b, i, st))
    hashes = [(b, t) for b, t in bl.calls() if (callee_name(t) or "").endswith("ElementHasher::hash_elements")]
    commits = [(b, t) for b, t in bl.calls() if (callee_name(t) or "").endswith("ProverChannel::commit_fri_layer")]
    done = False
    for sb, si, st in stores:
        ops, places = gl._rv_ops(st["rv"])
        ws = gl.walk(ops=ops, places=places, at=(sb, si), through=lambda tt: (callee_name(tt) or "").endswith(COPY_ONLY))
        roots_s = {n for n in ws if n[0] == "c" and not (callee_name(bl.term(n[1])) or "").endswith(COPY_ONLY)}
        for hb, ht in hashes:
            # is this the hash that is committed?
            if not any(("c", hb) in gl.walk(ops=[ct["args"][1]], at=(cb, T)) for cb, ct in commits if len(ct["args"]) > 1):
                continue
            wh = gl.walk(ops=[ht["args"][0]], at=(hb, T), through=lambda tt: (callee_name(tt) or "").endswith(COPY_ONLY))
            roots_h = {n for n in wh if n[0] == "c" and not (callee_name(bl.term(n[1])) or "").endswith(COPY_ONLY)}
            if not roots_s or not roots_h:
                continue
            done = True
            ok = roots_s == roots_h
            ck.ob(rule, "set_remainder:stored-is-the-hashed-one", ok,
                  "the remainder stored in the prover's state and the vector whose hash is committed are produced by the same computation",
                  loc=bl.loc(sb, si), detail=None if ok else
                  f"stored value produced by {sorted((callee_name(bl.term(n[1])) or '?').split('::')[-1] for n in roots_s)}, hashed value by "
                  f"{sorted((callee_name(bl.term(n[1])) or '?').split('::')[-1] for n in roots_h)}")
    if not done:
        ck.note(f"{rule}: the site that stores the remainder and commits its hash was not recognised; clause (b) is not decided")


# ---- T5: no state of an earlier proof decides anything in a later one ----------------------------------------------------------------

def _mut_fields(f, adt=FP):
    """fields of *self that f assigns or borrows mutably: {field: [(block, index, 'store'|'borrow')]}"""
    out = {}
    for b, i, st in f.assigns():
        lhs = st.get("lhs") or {}
        pr = lhs.get("p", [])
        fl = [e for e in pr if isinstance(e, dict) and e.get("of") == adt and e.get("n")]
        if lhs.get("l") == 1 and fl:
            out.setdefault(fl[0]["n"], []).append((b, i, "store" if len([e for e in pr if isinstance(e, dict)]) == 1 else "part"))
        rv = st["rv"]
        if rv["k"] == "ref" and rv.get("mut") and rv["p"].get("l") == 1:
            fl = [e for e in rv["p"].get("p", []) if isinstance(e, dict) and e.get("of") == adt and e.get("n")]
            if fl:
                out.setdefault(fl[0]["n"], []).append((b, i, "borrow"))
    return out


def carried_state(ck, prog, bli, rs):
    """`reset()` is what makes a prover reusable: every field that building a proof writes must be re-initialised by it, or be overwritten
    unconditionally by the next build. A field that survives `reset()` and is rebuilt only behind an ORDERING test on its own size (`len <
    needed`) is a cache that is kept whenever it is merely large enough — its contents then belong to the previous proof's domain (seed
    C15-L). A rebuild decided by an equality test on a key is not judged (a correctly keyed cache has that shape); it is reported as not
    decided."""
    w = _mut_fields(bli)
    r = _mut_fields(rs)
    survivors = sorted(set(w) - set(r))
    ck.stats["T: fields written while building layers / re-initialised by reset"] = (sorted(w), sorted(r))
    for fld in survivors:
        stores = [(b, i) for b, i, k in w[fld] if k == "store"]
        if not stores:
            ck.note(f"T: field `{fld}` is modified in place while building layers and not touched by reset(); not decided")
            continue
        verdicts = []
        for b, i in stores:
            # the decisions this store is control-dependent on
            conds = []
            for sb in range(len(bli.blocks)):
                t = bli.term(sb)
                if t["k"] != "switch":
                    continue
                succs = {tb for _, tb in t["targets"]} | {t["otherwise"]}
                reach_sets = [((b, S) in reach(bli, [(x, S)])) for x in succs]
                if any(reach_sets) and not all(reach_sets):
                    conds.append(trace_cond(bli, t["d"]))
            orderings = [c for c in conds if c.kind == "cmp" and c.op in ("<", "<=", ">", ">=")]
            equalities = [c for c in conds if c.kind == "cmp" and c.op in ("==", "!=")]
            g = flow(bli)
            own = []
            for c in orderings:
                fl = set()
                for side in (c.lhs, c.rhs):
                    fl |= {x for a, x in g.fields_in(g.walk(ops=[side], at=(b, i)))}
                if fld in fl:
                    own.append(c)
            if not conds:
                verdicts.append("always")
            elif own and not equalities:
                verdicts.append("size-only")
            else:
                verdicts.append("other")
        if all(v == "always" for v in verdicts):
            continue     # overwritten by every build: nothing is carried over
        if "size-only" in verdicts:
            ck.ob("T", f"reset:reinitialises:{fld}", False,
                  f"state written while building a proof does not outlive reset(): `{fld}`", loc=bli.loc(*stores[0]),
                  detail=f"`{fld}` survives reset() and is rebuilt only when an ordering test on its own size fails: a prover reused for a different "
                         "(smaller) domain keeps the table computed for the previous one")
        else:
            ck.note(f"T: field `{fld}` survives reset() and is rebuilt conditionally; whether the condition identifies its contents is not decided")


# ---- FOLDABLE: the parser's "layer can be folded" test looks at the layer's own domain --------------------------------------------------

def foldable_rule(ck, prog, rule="X"):
    """While parsing the layers of a FRI proof, a layer is refused when its domain is smaller than the folding factor. The value compared
    with the folding factor must be the domain size of the layer being parsed — not that size already divided by the folding factor (seed
    C15-M: the guard moved into FriProofLayer::parse and applied to the folded size: honest proofs whose remainder domain is smaller than
    the folding factor — (256 coefficients, blowup 2, folding 4, remainder degree 0) — are refused)."""
    fns = [f for f in prog.fns.values() if f.crate == "winter_fri" and f.blocks and f.nname.startswith("winter_fri::proof::")
           and f.nname.split("::")[-1] in ("parse_layers", "parse")]
    n = 0
    for f in fns:
        g = flow(f)
        params = {i + 1: f.local_name(i + 1) for i in range(f.arg_count)}
        ff = [l for l, nm in params.items() if nm == "folding_factor"]
        if not ff:
            continue
        for b in range(len(f.blocks)):
            t = f.term(b)
            if t["k"] != "switch":
                continue
            c = trace_cond(f, t["d"])
            if c.kind != "cmp" or c.op not in ("<", "<=", ">", ">="):
                continue
            for x_side, f_side in ((c.lhs, c.rhs), (c.rhs, c.lhs)):
                fl = op_local(f_side, pure=True)
                for _ in range(6):
                    d = single_def(f, fl) if fl is not None and fl not in ff else None
                    if d is None or d[1] == "T" or d[2]["rv"]["k"] != "use":
                        break
                    fl = op_local(d[2]["rv"]["a"], pure=True)
                if fl not in ff:
                    continue
                # the other side: is it a fresh quotient by the folding factor?
                xl = op_local(x_side, pure=True)
                divided = False
                for _ in range(8):
                    if xl is not None and 1 <= xl <= f.arg_count:
                        break      # the (mutable) parameter itself: the loop-carried size of the current layer
                    d = single_def(f, xl) if xl is not None else None
                    if d is None or d[1] == "T":
                        break
                    rv = d[2]["rv"]
                    if rv["k"] == "bin" and rv["op"] == "Div":
                        dl = op_local(rv["b"], pure=True)
                        for _ in range(6):
                            dd = single_def(f, dl) if dl is not None and dl not in ff else None
                            if dd is None or dd[1] == "T" or dd[2]["rv"]["k"] != "use":
                                break
                            dl = op_local(dd[2]["rv"]["a"], pure=True)
                        divided = dl in ff
                        break
                    if rv["k"] in ("use", "cast"):
                        xl = op_local(rv["a"], pure=True)
                        continue
                    break
                n += 1
                ck.ob(rule, f"{f.nname.split('::')[-2]}::{f.nname.split('::')[-1]}:foldable-test-on-own-domain", not divided,
                      f"{f.nname.split('::')[-1]}: the size compared with the folding factor is the domain of the layer being parsed, not that size "
                      "already divided by the folding factor", loc=f.loc(b, T),
                      detail=None if not divided else "the quotient domain_size / folding_factor is compared with the folding factor: the last layer of an honest "
                                                      "proof whose remainder domain is smaller than the folding factor is refused")
    if n == 0:
        ck.note(f"{rule}: no comparison with the folding factor found in the FRI proof parsers; the foldability clause is not decided")
