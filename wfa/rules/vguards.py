"""Shared machinery for the verifier guard inventory (Rule G): MUST-GUARDS(verify) and matchers."""
from ..cfg import T, FLIP
from ..flow import flow, default_transparent, Summaries
from ..guards import MustGuards
from ..ir import Program, callee_name, AnchorError

_state = {}


def get(prog_key="default"):
    """(prog, must-guards of verify) cached per process"""
    import os
    key = (prog_key, os.environ.get("WF_CONFIG_OVERRIDE", ""))   # thorough tier re-runs the packs on other configurations
    if key not in _state:
        prog = Program(prog_key)
        mg = MustGuards(prog)
        root = prog.fn("winter_verifier::verify")
        gs = mg.of(root)
        _state[key] = (prog, mg, root, gs)
    return _state[key]


DIGESTING = ("ElementHasher::hash_elements", "Hasher::hash", "Hasher::merge", "TraceOodFrame::hash")


def transparent(t):
    n = callee_name(t) or ""
    return default_transparent(t) or n.endswith(DIGESTING)


def by_err(gs, variant, kind="switch"):
    return [g for g in gs if g.kind == kind and variant in g.errs]


class Lifted(list):
    """backward slice of an operand as a list of (function, nodes): the slice inside the function that contains the decision and,
    when that function is a helper the decision was inherited from, the slices of the corresponding arguments at the call sites
    (so that `fn check(&self, expected: usize)` called with `n * m` is seen to compare against n and m)"""

    def nodes_of(self, fn):
        out = set()
        for f, ns in self:
            if f is fn:
                out |= set(ns)
        return out


def side_walk(g, op, through=None, deep=None):
    """backward walk of a condition operand of guard g, at the comparison's program point, lifted through the call sites the guard
    was inherited through"""
    res = Lifted()
    if isinstance(op, InClosure):
        # the operand lives in a closure: slice it there, then continue with everything the closure captures, at the point in the
        # guard's function where the closure is built
        cf = op.fn
        cn_ = flow(cf).walk(ops=[op.op], at=op.node, through=through, deep=deep)
        res.append((cf, cn_))
        cur_fn = g.fn
        nodes = set()
        if any(n[0] == "p" and n[1] == 1 for n in cn_):
            fl = flow(cur_fn)
            for cb, ci, cs in cur_fn.assigns():
                rv = cs["rv"]
                if rv["k"] == "agg" and rv.get("agg") == "closure" and rv.get("closure") == cf.id:
                    nodes |= fl.walk(ops=list(rv["ops"]), at=(cb, ci), through=through, deep=deep)
        res.append((cur_fn, nodes))
    else:
        b, i = g.cond.node
        cur_fn = g.fn
        nodes = flow(cur_fn).walk(ops=[op], at=(b, i), through=through, deep=deep)
        res.append((cur_fn, nodes))
    for caller, sites in getattr(g, "via", ()):
        params = {n[1] for n in nodes if n[0] == "p"}
        if not params:
            break
        nxt = set()
        fl = flow(caller)
        for (cb, ct) in sites:
            for p in params:
                if 1 <= p <= len(ct["args"]):
                    nxt |= fl.walk(ops=[ct["args"][p - 1]], at=(cb, T), through=through, deep=deep)
        res.append((caller, nxt))
        cur_fn, nodes = caller, nxt
    return res


def _pairs(g, sl):
    return sl if isinstance(sl, Lifted) else [(g.fn, sl)]


def names(g, sl):
    out = set()
    for f, ns in _pairs(g, sl):
        out |= flow(f).callee_names_in(ns)
    return out


def fields(g, sl):
    out = set()
    for f, ns in _pairs(g, sl):
        out |= flow(f).fields_in(ns)
    return out


class InClosure:
    """an operand of a comparison that lives in a closure handed to Iterator::all / Iterator::any by the guard's function"""
    __slots__ = ("fn", "node", "op")

    def __init__(self, fn, node, op):
        self.fn, self.node, self.op = fn, node, op


def _iter_predicate(g):
    """`if it.all(|x| a == b) { Ok } else { Err }` / `if it.any(|x| a != b) { Err }`: the per-element comparison under which the guard
    rejects, as (op, lhs, rhs) with operands living in the closure; None if the guard is not of that shape"""
    from ..cfg import trace_cond, NEG
    c = g.cond
    if c.kind != "call" or c.call is None:
        return None
    cn = callee_name(c.call) or ""
    if not cn.endswith(("Iterator::all", "Iterator::any")):
        return None
    cids = [cid for cid in g.fn.closure_args(c.call) if cid in g.fn.prog.fns]
    if len(cids) != 1:
        return None
    cf = g.fn.prog.fns[cids[0]]
    rets_ = [b for b, blk in enumerate(cf.blocks) if blk["t"]["k"] == "return"]
    if len(rets_) != 1:
        return None
    cc = trace_cond(cf, {"copy": {"l": 0}})
    if cc.kind != "cmp":
        return None
    # reject iff the call's value is (c.neg ? false : true)
    if cn.endswith("Iterator::all"):
        if not c.neg:
            return None          # rejecting when every element satisfies p is not a per-element rejection
        op = NEG[cc.op]          # reject iff some element fails p
    else:
        if c.neg:
            return None
        op = cc.op               # reject iff some element satisfies p
    return op, InClosure(cf, cc.node, cc.lhs), InClosure(cf, cc.node, cc.rhs)


def cmp_sides(g):
    """[(op, lhs, rhs)] in both orientations for a comparison guard (reject iff lhs op rhs)"""
    c = g.cond
    if c.kind != "cmp":
        ip = _iter_predicate(g)
        if ip is None:
            return []
        op, l, r = ip
        return [(op, l, r), (FLIP[op], r, l)]
    return [(c.op, c.lhs, c.rhs), (FLIP[c.op], c.rhs, c.lhs)]


def match_cmp(g, ops, left_pred, right_pred, through=None, deep=None):
    """True iff guard g rejects iff `L op R` with op in ops, L satisfying left_pred(walk) and R right_pred."""
    for op, l, r in cmp_sides(g):
        if op not in ops:
            continue
        lw = side_walk(g, l, through, deep)
        rw = side_walk(g, r, through, deep)
        if left_pred(g, lw) and right_pred(g, rw):
            return True
    return False


def has_callee(*suffixes):
    def pred(g, sl):
        ns = names(g, sl) | {n[1] for _, nodes in _pairs(g, sl) for n in nodes if n[0] == "cn"}
        return any(n.endswith(suffixes) for n in ns)
    return pred


def has_callee_deep(*suffixes):
    """like has_callee, also looking into the closures handed to the calls of the slice (`fold(.., |acc, x| acc + f(x))`)"""
    def pred(g, sl):
        ns = set()
        for f, nodes in _pairs(g, sl):
            ns |= flow(f).callee_names_in(nodes, closures=True)
        return any(n.endswith(suffixes) for n in ns)
    return pred


def has_field(adt_suffix, fld):
    def pred(g, sl):
        return any(a.endswith(adt_suffix) and f == fld for (a, f) in fields(g, sl))
    return pred


def has_param(name):
    def pred(g, sl):
        return any(f.local_name(p) == name for f, ns in _pairs(g, sl) for p in flow(f).params_in(ns))
    return pred


def any_of(*preds):
    return lambda g, sl: any(p(g, sl) for p in preds)


def all_of(*preds):
    return lambda g, sl: all(p(g, sl) for p in preds)


def anything(g, sl):
    return True


def require(ck, rule, inst, gs, what, strength=("always",), loc_hint=None, detail=None):
    """Record the obligation that at least one guard in gs (already filtered by a matcher) exists with
    an admissible strength."""
    good = [g for g in gs if g.strength in strength]
    ok = bool(good)
    loc = good[0].loc() if good else (gs[0].loc() if gs else loc_hint)
    ck.ob(rule, inst, ok, what, loc=loc,
          detail=detail if ok else (detail or "") + (" (a matching decision exists but is not on every accepting path)" if gs else " (no matching decision found among the decisions every accepting path of verify() passes)"))
    for g in good[:1]:
        ck.saw(g.fn)
    return ok


GRIND = "winter_prover::channel::ProverChannel::grind_query_seed"


def nonce_search_scope(prog):
    """grind_query_seed together with the private helpers only it (transitively) calls, and the closures of all of them: the code
    that searches for the proof-of-work nonce, wherever a refactoring put the pieces"""
    root = prog.fn(GRIND)
    callers = {}
    for f in prog.fns.values():
        for b, t in f.calls():
            cands, _ = prog.resolve_call(t)
            for c in cands:
                callers.setdefault(c.id, set()).add(_owner(prog, f).id)
    scope = {root.id: root}
    changed = True
    while changed:
        changed = False
        for f in list(scope.values()):
            for b, t in f.calls():
                cands, _ = prog.resolve_call(t)
                for c in cands:
                    if c.id in scope or c.crate != root.crate or c.get("impl_trait") or c.get("vis") == "pub":
                        continue
                    if callers.get(c.id, set()) <= set(scope):
                        scope[c.id] = c
                        changed = True
                for cid in f.closure_args(t):
                    if cid in prog.fns and cid not in scope:
                        scope[cid] = prog.fns[cid]
                        changed = True
            for cid in set(getattr(f, "closure_locals", {}).values()):
                if cid in prog.fns and cid not in scope:
                    scope[cid] = prog.fns[cid]
                    changed = True
    return list(scope.values())


def _owner(prog, f):
    """the named function a closure belongs to"""
    seen = 0
    while f.kind == "closure" and f.get("parent_fn") in prog.fns and seen < 6:
        f = prog.fns[f.get("parent_fn")]
        seen += 1
    return f
