"""C05 — FRI soundness: guard inventory of the FRI verifier (engine E2) with operand origins (E3)."""
from ..cfg import T
from ..flow import flow, partial_iteration
from ..ir import callee_name, AnchorError
from . import vguards as V
from .vguards import (by_err, match_cmp, has_callee, has_field, has_param, any_of, all_of, anything, require)

FV = "winter_fri::verifier::FriVerifier"


def run(ck):
    prog, mg, root, gs_all = V.get()
    ck.analysed["configs"].add("default")
    fverify = prog.fn("winter_fri::verifier::FriVerifier::verify")
    gs = mg.of(fverify)
    for g in gs:
        ck.saw(g.fn)
    ck.saw(fverify)
    ck.explanation = (
        "Guard inventory of the FRI verifier. MUST-GUARDS(FriVerifier::verify) is computed from the generic MIR: "
        "every reject decision (a branch one side of which cannot reach an Ok return) that all accepting paths pass, "
        "including decisions inside callees whose call site is must-pass and whose error is propagated, with the "
        "per-iteration form for decisions inside the layer and remainder loops. Each required decision is matched by "
        "its canonical comparison (reject iff L op R) and by the data-flow origin of L and R, never by position. "
        "Decides: no path accepts without the degree-truncation, layer-commitment, folding-consistency, remainder-size, "
        "remainder-evaluation and remainder-commitment comparisons having been made on values derived from the "
        "channel and the verifier's state. Does not decide that the folding arithmetic itself is right (C15)."
    )
    ck.rule("G", "MUST-GUARDS(FriVerifier::verify) contains the decision, with the stated canonical comparison and operand origins")
    ck.rule("G.loop", "the layer loop ranges over num_fri_layers(domain_size) and the remainder loop over all positions")
    ck.rule("G.flow", "values consumed by the decisions come from the verifier state fixed before the queries (commitments, alphas)")
    ck.floor("decisions in MUST-GUARDS(FriVerifier::verify)", len(gs), 20)

    full = None  # through every call

    # 1. evaluation / position count
    m = [g for g in by_err(gs, "NumPositionEvaluationMismatch")
         if match_cmp(g, ("!=",), has_param("evaluations"), has_param("positions"))]
    require(ck, "G", "NumPositionEvaluationMismatch", m, "reject iff evaluations.len() != positions.len()")

    # 2. degree truncation (at least one of the two copies, inside the layer loop or the commit loop)
    m = [g for g in by_err(gs_all, "DegreeTruncation")
         if match_cmp(g, ("!=",), any_of(has_field("FriVerifier", "max_poly_degree"), has_param("max_poly_degree")), anything)]
    require(ck, "G", "DegreeTruncation", m, "per layer: reject iff the degree bound is not divisible by the folding factor",
            strength=("always", "per-iteration"))

    # 3. layer opening authenticated against the layer commitment
    calls = [g for g in gs if g.kind == "call" and (g.callee or "").endswith("MerkleTree::verify_batch")
             and "LayerCommitmentMismatch" in g.errs]
    okc = []
    for g in calls:
        fl = flow(g.fn)
        a0 = fl.walk(ops=[g.call_term["args"][0]], at=(g.block, T), through=V.transparent)
        a1 = fl.walk(ops=[g.call_term["args"][1]], at=(g.block, T), through=V.transparent)
        a2 = fl.walk(ops=[g.call_term["args"][2]], at=(g.block, T), through=V.transparent)
        if has_param("commitment")(g, a0) and has_param("positions")(g, a1) and \
                has_callee("VerifierChannel::take_next_fri_layer_proof")(g, a2):
            okc.append(g)
    require(ck, "G", "LayerCommitmentMismatch", okc,
            "per layer: the opening read from the channel is verified against the commitment and positions handed in",
            strength=("always", "per-iteration"))
    # ... and the commitment handed in is the committed one (verifier state), the positions the folded ones
    vg = prog.find_fns(r"^winter_fri::verifier::FriVerifier::verify_generic$")
    if len(vg) != 1:
        raise AnchorError("FriVerifier::verify_generic not found")
    vg = vg[0]
    fl = flow(vg)
    rl = [(b, t) for b, t in vg.calls() if t["fn"].get("item") == "read_layer_queries"]
    if not rl:
        raise AnchorError("verify_generic does not call read_layer_queries")
    for b, t in rl:
        cw = fl.walk(ops=[t["args"][2]], at=(b, T), through=V.transparent)
        pw = fl.walk(ops=[t["args"][1]], at=(b, T))
        ck.ob("G.flow", "layer-commitment<-FriVerifier.layer_commitments",
              any(a.endswith("FriVerifier") and f == "layer_commitments" for a, f in fl.fields_in(cw)),
              "the commitment each layer opening is checked against is the verifier's stored layer commitment", loc=vg.loc(b, "T"))
        ck.ob("G.flow", "layer-positions<-fold_positions",
              any(n.endswith("folding::fold_positions") for n in fl.callee_names_in(pw)) and
              any(n.endswith("map_positions_to_indexes") for n in fl.callee_names_in(pw)),
              "layer openings are requested at the folded query positions", loc=vg.loc(b, "T"))

    # 4. folding consistency
    m = [g for g in by_err(gs, "InvalidLayerFolding")
         if match_cmp(g, ("!=",), anything, all_of(has_callee("read_layer_queries"), V.has_param("positions")))]
    require(ck, "G", "InvalidLayerFolding", m,
            "per layer: reject iff the carried evaluations differ from the values opened at the queried positions",
            strength=("per-iteration", "always"))
    # the carried evaluations are recomputed from the opened rows and the stored alpha
    for g in m[:1]:
        sides = [V.side_walk(g, l) for op, l, r in V.cmp_sides(g)]
        # the carried side is whichever is not just the values opened at this layer (it goes back to the caller's evaluations)
        carried = [lw for lw in sides if has_param("evaluations")(g, lw)] or sides
        ck.ob("G.flow", "evaluations<-interpolate(rows)@alpha",
              any(any(n.endswith("polynom::interpolate_batch") for n in V.names(g, lw)) and
                  any(a.endswith("FriVerifier") and f == "layer_alphas" for a, f in V.fields(g, lw)) and
                  any(n.endswith("read_layer_queries") for n in V.names(g, lw)) for lw in carried),
              "the evaluations compared at the next layer are the opened rows interpolated and evaluated at the stored alpha",
              loc=g.loc())
        ck.ob("G.flow", "evaluations<-param", any(has_param("evaluations")(g, lw) for lw in sides),
              "the first layer compares the evaluations handed in by the caller", loc=g.loc())

    # 5. remainder size
    m = [g for g in by_err(gs, "RemainderDegreeMismatch")
         if match_cmp(g, (">", ">="), has_callee("read_remainder"), has_field("FriVerifier", "max_poly_degree"))]
    require(ck, "G", "RemainderDegreeMismatch", m,
            "reject iff the remainder has more coefficients than the degree bound left after folding (bound derived from max_poly_degree)")
    for g in m[:1]:
        strict = [op for op, l, r in V.cmp_sides(g) if has_callee("read_remainder")(g, V.side_walk(g, l))]
        ck.ob("G", "RemainderDegreeMismatch:operator", strict and strict[0] == ">",
              "the size comparison is `len > bound` (a remainder of exactly `bound` coefficients is admissible, one more is not)", loc=g.loc())

    # 6. remainder evaluation
    m = [g for g in by_err(gs, "InvalidRemainderFolding")
         if match_cmp(g, ("!=",), all_of(has_callee("eval_horner"), has_callee("read_remainder")), anything)]
    require(ck, "G", "InvalidRemainderFolding", m,
            "per position: reject iff the remainder polynomial evaluated at the position differs from the last folded evaluation",
            strength=("per-iteration", "always"))

    # 7. remainder commitment
    m = [g for g in by_err(gs, "RemainderCommitmentMismatch")
         if match_cmp(g, ("!=",), has_field("FriVerifier", "layer_commitments"),
                      all_of(has_callee("hash_elements"), has_callee("read_remainder")))]
    require(ck, "G", "RemainderCommitmentMismatch", m,
            "reject iff H(remainder) differs from the remainder commitment absorbed before the queries were drawn")

    # 8. loops range over everything
    layer_loop(ck, prog, vg)
    # 9. result of FriVerifier::verify is the result of perform_verification
    pv = [g for g in gs_all if g.kind == "call" and (g.callee or "") == "winter_fri::verifier::FriVerifier::verify"]
    require(ck, "G", "fri-result-propagated", pv, "the result of FriVerifier::verify is propagated as the verifier's result")
    commit_phase(ck, prog)
    controls(ck, prog, mg)


def commit_phase(ck, prog):
    """Folding challenges are drawn only after the layer they fold was committed (both sides)."""
    from ..cfg import must_between
    COIN = "winter_crypto::random::RandomCoin"
    fv = prog.fn("winter_fri::verifier::FriVerifier::new")
    ck.saw(fv)
    rs = [(b, T) for b, t in fv.calls() if t["fn"].get("trait") == COIN and t["fn"]["item"] == "reseed"]
    ds = [(b, T) for b, t in fv.calls() if t["fn"].get("trait") == COIN and t["fn"]["item"] == "draw"]
    if not rs or not ds:
        raise AnchorError("FriVerifier::new: coin reseed/draw not found")
    ok1, p1 = must_between(fv, None, rs, ds)
    ok2, p2 = must_between(fv, ds, rs, ds)
    ck.ob("G.flow", "verifier:commitment-absorbed-before-alpha", ok1 and ok2,
          "FriVerifier::new absorbs a layer commitment before drawing that layer's folding challenge (every iteration)",
          loc=fv.loc(ds[0][0], "T"))
    PCH = "winter_fri::prover::channel::ProverChannel"
    bl = prog.fn("winter_fri::prover::FriProver::build_layer")
    ck.saw(bl)
    cs = [(b, T) for b, t in bl.calls() if t["fn"].get("trait") == PCH and t["fn"]["item"] == "commit_fri_layer"]
    das = [(b, T) for b, t in bl.calls() if t["fn"].get("trait") == PCH and t["fn"]["item"] == "draw_fri_alpha"]
    if not cs or not das:
        raise AnchorError("FriProver::build_layer: commit_fri_layer/draw_fri_alpha not found")
    ok3, _ = must_between(bl, None, cs, das)
    ck.ob("G.flow", "prover:layer-committed-before-alpha", ok3,
          "FriProver::build_layer commits to the layer before drawing the challenge that folds it", loc=bl.loc(das[0][0], "T"))


def layer_loop(ck, prog, vg):
    vg = prog.inl(vg)   # the loops may live in private methods verify_generic was split into
    fl = flow(vg)
    # the range iterated by the layer loop: an `into_iter` of Range whose end originates in num_fri_layers
    found = False
    for b, t in vg.calls():
        cn = callee_name(t) or ""
        if cn.endswith("IntoIterator::into_iter") and "Range<usize>" in t.get("dest_ty", ""):
            sl = fl.walk(ops=[t["args"][0]], at=(b, T))
            if any(n.endswith("FriOptions::num_fri_layers") for n in fl.callee_names_in(sl)):
                found = True
                flds = fl.fields_in(sl)
                ck.ob("G.loop", "layer-loop-range", any(f == "domain_size" for a, f in flds),
                      "the layer loop runs over 0..num_fri_layers(domain_size of the verifier)", loc=vg.loc(b, "T"))
                starts = [c for c in fl.consts_in(sl) if c.startswith("lit:0:")]
                ck.ob("G.loop", "layer-loop-start", bool(starts), "the layer loop starts at layer 0", loc=vg.loc(b, "T"))
    ck.ob("G.loop", "layer-loop-exists", found, "verify_generic iterates over the FRI layers", loc=vg.loc())
    # remainder loop: zip(positions.iter(), evaluations)
    zips = [(b, t) for b, t in vg.calls() if (callee_name(t) or "").endswith("Iterator::zip")]
    okz = False
    for b, t in zips:
        sl = fl.walk(ops=list(t["args"]), at=(b, T), through=V.transparent)
        ns = fl.callee_names_in(sl)
        if not partial_iteration(ns):
            okz = True
    ck.ob("G.loop", "remainder-loop-all-positions", okz,
          "the remainder check ranges over every (position, evaluation) pair", loc=vg.loc())


def controls(ck, prog, mg):
    """Positive control: the default FRI verifier channel's read_remainder returns the remainder without any
    decision; the matcher for the commitment comparison must not be satisfied by it."""
    rr = prog.fn("winter_fri::verifier::channel::VerifierChannel::read_remainder")
    gs = mg.of(rr)
    flagged = not [g for g in gs if "RemainderCommitmentMismatch" in g.errs]
    ck.control("read_remainder alone contains no remainder-commitment decision", flagged)
