"""C13 — streaming byte reader: cursor discipline of the ByteReader implementations (engine E2, pairing).

(a) advance        every successful consuming read passes an advance of the cursor (sibling impls agree)
(b) &self          peek_u8 / check_eor / has_more_bytes never reach a consumption
(c) pairing        truncation of the spill buffer is followed by a store to `pos`; buffered data is only
                   read positioned by `pos`; `buf.len()` is never compared without `pos`
(d) end of data    UnexpectedEOF is constructed, and `guaranteed_eof` set, only where an empty fill or
                   an error of the underlying reader has been observed
"""
from ..cfg import T, S, must_between, reach, exits, trace_cond, single_def
from ..flow import flow
from ..guards import accept_nodes
from ..ir import callee_name, AnchorError, op_local, op_place

BR = "winter_utils::serde::byte_reader::ByteReader"
RA = "winter_utils::serde::byte_reader::ReadAdapter"
SR = "winter_utils::serde::byte_reader::SliceReader"
CONSUMING = ("read_u8", "read_slice", "read_array")
PEEKING = ("peek_u8", "check_eor", "has_more_bytes")


def field_stores(fn, adt, field):
    """[(b, i, stmt)] assignments to (*self).field"""
    res = []
    for b, i, s in fn.assigns():
        for e in s["lhs"].get("p", []):
            if isinstance(e, dict) and e.get("of") == adt and e.get("n") == field:
                res.append((b, i, s))
    return res


def reads_field(fn, b, i, s, adt, field):
    g = flow(fn)
    ops, places = g._rv_ops(s["rv"])
    w = g.walk(ops=ops, places=places, at=(b, i))
    return (adt, field) in g.fields_in(w)


def blocked_err_edges(fn):
    """Nodes that are only entered when a Result local that is later returned as-is is known to be Err
    (`if r.is_ok() {..} else {..}; r`): targets of the is_ok-false / is_err-true edges."""
    res = set()
    returned = set()
    for e in exits(fn):
        if e.kind == "other":
            b = e.node[0]
            for s in fn.stmts(b):
                if s["k"] == "assign" and s["lhs"]["l"] == 0 and s["rv"]["k"] == "use":
                    l = op_local(s["rv"]["a"], pure=True)
                    if l is not None:
                        returned.add(l)
    for b, blk in enumerate(fn.blocks):
        t = blk["t"]
        if t["k"] != "switch":
            continue
        c = trace_cond(fn, t["d"])
        if c.kind != "call":
            continue
        cn = callee_name(c.call) or ""
        if not cn.endswith(("Result::is_ok", "Result::is_err")):
            continue
        g = flow(fn)
        al = op_local(c.call["args"][0])
        tgt = set(g.ref_of.get(al, ())) | {al}
        if not (tgt & returned):
            continue
        is_ok = cn.endswith("is_ok")
        truth_when_err = not is_ok  # is_err() true  <=> Err ; is_ok() false <=> Err
        if c.neg:
            truth_when_err = not truth_when_err
        for v, tb in t["targets"]:
            if (v == "0") == (not truth_when_err):
                res.add((tb, S))
        if truth_when_err:
            # the otherwise edge is the "true" edge of a bool switch listing only 0
            if [v for v, _ in t["targets"]] == ["0"]:
                res.add((t["otherwise"], S))
    return res


class Advances:
    """must-advance summaries for the methods of one ByteReader implementation"""

    def __init__(self, prog, adt, pos_field, extra_calls=()):
        self.prog = prog
        self.adt = adt
        self.pos_field = pos_field
        self.extra = extra_calls
        self.memo = {}

    def advance_sites(self, fn, depth=0):
        sites = []
        if self.pos_field:
            for b, i, s in field_stores(fn, self.adt, self.pos_field):
                rv = s["rv"]
                if rv["k"] == "use" and "const" in rv["a"]:
                    continue  # `pos = 0` is a reset, not an advance
                if reads_field(fn, b, i, s, self.adt, self.pos_field):
                    sites.append((b, S))
        for b, t in fn.calls():
            cn = callee_name(t) or ""
            if cn.endswith(self.extra):
                sites.append((b, T))
                continue
            cands, precise = self.prog.resolve_call(t)
            for c in cands:
                if c.get("impl_self_adt") == self.adt and c.id != fn.id and depth < 4:
                    if self.must_advance(c, depth + 1):
                        sites.append((b, T))
        return sites

    def must_advance(self, fn, depth=0):
        if fn.id in self.memo:
            return self.memo[fn.id]
        self.memo[fn.id] = False
        acc = [e.node for e in exits(fn) if e.kind in ("ok", "other", "call")]
        acc = [n for n in acc if not _is_empty_request_exit(fn, n)]
        sites = self.advance_sites(fn, depth)
        blocked = blocked_err_edges(fn)
        ok = bool(sites) and bool(acc) and must_between(fn, None, set(sites) | blocked, acc)[0]
        self.memo[fn.id] = ok
        return ok

    def witness(self, fn):
        acc = [e.node for e in exits(fn) if e.kind in ("ok", "other", "call")]
        acc = [n for n in acc if not _is_empty_request_exit(fn, n)]
        sites = self.advance_sites(fn)
        blocked = blocked_err_edges(fn)
        ok, path = must_between(fn, None, set(sites) | blocked, acc)
        return path


def _is_empty_request_exit(fn, node):
    """accepting exits on the true side of a `len == 0` / `N == 0` test (nothing to consume)"""
    b = node[0]
    seen = set()
    st = [b]
    while st:
        x = st.pop()
        if x in seen:
            continue
        seen.add(x)
        for p in fn.pred[x]:
            t = fn.term(p)
            if t["k"] == "switch":
                c = trace_cond(fn, t["d"])
                if c.kind != "cmp" or c.op not in ("==", "!="):
                    continue
                zero_side = None
                for side, other in ((c.lhs, c.rhs), (c.rhs, c.lhs)):
                    k = other.get("const")
                    if k is not None and k.get("scalar") == "0":
                        kk = side.get("const")
                        if kk is not None and ("tyconst" in kk or kk.get("def")):
                            zero_side = side
                        elif op_local(side, pure=True) is not None:
                            g = flow(fn)
                            w = g.walk(ops=[side], at=c.node)
                            if g.params_in(w) and not g.callee_names_in(w):
                                zero_side = side
                if zero_side is None:
                    continue
                # which edge of the switch leads to x?
                listed = {v: tb for v, tb in t["targets"]}
                on_true = (x == t["otherwise"] and list(listed) == ["0"]) or any(v != "0" and tb == x for v, tb in listed.items())
                on_false = listed.get("0") == x
                is_zero_edge = (on_true and c.op == "==") or (on_false and c.op == "!=")
                if is_zero_edge:
                    return True
                continue
            if fn.term(p)["k"] in ("goto", "drop", "call", "assert"):
                st.append(p)
    return False


def run(ck):
    from ..ir import Program
    prog = Program("default", crates={"winter_utils"})
    ck.analysed["configs"].add("default")
    ck.explanation = (
        "Cursor discipline of the three ByteReader implementations, decided on the CFG of every method. "
        "(a) each successful path of read_u8/read_slice/read_array (except the nothing-to-read early exit) passes an advance: "
        "a store to the implementation's position that depends on its old value, Cursor::set_position, BufRead::consume, or a "
        "call to a sibling method that itself must advance (summaries); paths on which a Result that is returned as-is is known "
        "to be Err are excluded. (b) the &self methods cannot reach a consumption in the call graph. (c) every truncation of the "
        "spill buffer is followed on all paths by a store to pos; buffered bytes are read only through views positioned by pos; "
        "buf.len() is not compared on its own. (d) UnexpectedEOF is constructed and guaranteed_eof set only under an observed "
        "empty fill or reader error. These are necessary conditions of `consumes each byte exactly once` / `never reports "
        "missing data that is available`; equality of returned values for all chunkings is not decided."
    )
    ck.rule("ADV", "every accepting path of a consuming read passes an advance of the cursor (all ByteReader impls)")
    ck.rule("PEEK", "peek_u8/check_eor/has_more_bytes reach no consumption")
    ck.rule("PAIR", "buffer truncation is followed by a store to pos; buffered data is read positioned by pos; buf.len() is not compared alone")
    ck.rule("EOF", "UnexpectedEOF / guaranteed_eof only under an observed empty fill or reader error")

    impls = {
        "SliceReader": (SR, "pos", ()),
        "ReadAdapter": (RA, "pos", ("BufRead::consume",)),
        "Cursor": (None, None, ("Cursor::set_position",)),
    }
    n_methods = 0
    for label, (adt, posf, extra) in impls.items():
        for m in CONSUMING:
            cands = [f for f in prog.fns.values() if f.get("impl_trait") == BR and f.get("item_name") == m and
                     ((adt and f.get("impl_self_adt") == adt) or (adt is None and "Cursor" in (f.get("impl_self") or "")))]
            if len(cands) != 1:
                raise AnchorError(f"ByteReader::{m} for {label}: {len(cands)} impls")
            f = cands[0]
            ck.saw(f)
            n_methods += 1
            adv = Advances(prog, adt or "std::io::cursor::Cursor", posf, extra)
            ok = adv.must_advance(f)
            detail = None
            if not ok:
                p = adv.witness(f)
                from ..cfg import fmt_path
                detail = "accepting path without an advance: " + (fmt_path(f, p) if p else "(no advance site at all)")
            ck.ob("ADV", f"{label}::{m}", ok,
                  f"{label}::{m}: every successful path consumes (advances the cursor by) what it returns", loc=f.loc(), detail=detail)
    ck.floor("consuming ByteReader methods", n_methods, 9)
    ra_methods = [f for f in prog.fns.values() if f.get("impl_self_adt") == RA and f.kind != "closure"]
    ck.floor("ReadAdapter methods", len(ra_methods), 15)
    for f in ra_methods:
        ck.saw(f)
    peek_rule(ck, prog, ra_methods)
    pair_rule(ck, prog, ra_methods)
    eof_rule(ck, prog, ra_methods)
    ck.rule("REFILL", "the underlying reader (which reports end of data) is consulted only after the method established that the local buffer cannot "
                      "serve the request: buffered < requested (strictly), or the local buffer is empty")
    refill_rule(ck, prog, ra_methods)
    ck.rule("AMT", "every copy out of the local buffer is followed on all accepting paths by `pos += <the copied count>`, every copy out of the "
                   "reader's buffer by `consume(<the copied count>)` (the same value, not merely a value of the same kind)")
    amount_rule(ck, prog, ra_methods)
    stale_rule(ck, prog, ra_methods)
    more_rule(ck, prog)
    controls(ck, prog)


def peek_rule(ck, prog, ra_methods):
    for m in PEEKING:
        f = prog.impl_method(RA, BR, m)
        seen = set()
        st = [f]
        bad = []
        while st:
            x = st.pop()
            if x.id in seen:
                continue
            seen.add(x.id)
            for b, i, s in field_stores(x, RA, "pos") + field_stores(x, RA, "buf"):
                bad.append(f"{x.nname}: store to a cursor field at {x.loc(b, i)}")
            for b, t in x.calls():
                cn = callee_name(t) or ""
                if cn.endswith(("BufRead::consume", "Read::read", "Read::read_exact", "BufRead::read_until", "Vec::set_len", "Vec::clear")):
                    bad.append(f"{x.nname}: {cn.split('::')[-1]} at {x.loc(b, 'T')}")
                cands, precise = prog.resolve_call(t)
                for c in cands:
                    if precise and (c.get("impl_self_adt") == RA or c.kind == "closure"):
                        st.append(c)
                for cid in x.closure_args(t):
                    if cid in prog.fns:
                        st.append(prog.fns[cid])
        ck.ob("PEEK", f"ReadAdapter::{m}", not bad, f"ReadAdapter::{m} (a &self method) reaches no consumption of input",
              loc=f.loc(), detail="; ".join(bad) if bad else None)


def pair_rule(ck, prog, ra_methods):
    n_trunc = 0
    for f in ra_methods:
        g = flow(f)
        # (c1) truncation followed by a store to pos
        for b, t in f.calls():
            cn = callee_name(t) or ""
            if cn.endswith(("Vec::set_len", "Vec::clear", "Vec::truncate")):
                w = g.walk(ops=[t["args"][0]], at=(b, T))
                if (RA, "buf") not in g.fields_in(w):
                    continue
                n_trunc += 1
                stores = [(sb, S) for sb, si, ss in field_stores(f, RA, "pos")]
                rets = [(rb, T) for rb, blk in enumerate(f.blocks) if blk["t"]["k"] == "return"]
                ok = bool(stores) and must_between(f, [(b, T)], stores, rets)[0]
                ck.ob("PAIR", f"truncate->pos@{f.nname.split('::')[-1]}:{cn.split('::')[-1]}", ok,
                      f"{f.nname.split('::')[-1]}: after {cn.split('::')[-1]} on the spill buffer every path to the return stores to `pos` "
                      "(otherwise pos may exceed buf.len() and freshly buffered bytes are skipped)", loc=f.loc(b, "T"))
        # (c2) direct reads of buf data must be positioned by pos
        for b, t in f.calls():
            cn = callee_name(t) or ""
            last = cn.split("::")[-1]
            if last in ("as_ptr", "deref", "as_slice", "index", "get", "get_unchecked", "first", "iter") and t["args"]:
                w = g.walk(ops=[t["args"][0]], at=(b, T), through=lambda tt: False)
                if (RA, "buf") not in g.fields_in(w):
                    continue
                allw = g.walk(ops=list(t["args"]), at=(b, T), through=lambda tt: False)
                positioned = (RA, "pos") in g.fields_in(allw)
                if not positioned and last in ("deref", "as_slice"):
                    # a whole-buffer view is fine if what is read from it is indexed by pos downstream
                    positioned = _view_indexed_by_pos(f, g, b, t)
                ck.ob("PAIR", f"positioned-read@{f.nname.split('::')[-1]}:{last}", positioned,
                      f"{f.nname.split('::')[-1]}: bytes are read from the spill buffer through a view positioned by `pos` "
                      "(reading from the start of `buf` returns bytes that were already consumed)", loc=f.loc(b, "T"))
        # (c3) buf.len() never compared alone
        for b, t in f.calls():
            cn = callee_name(t) or ""
            if cn.endswith(("Vec::len", "Vec::is_empty")) and t["args"]:
                w = g.walk(ops=[t["args"][0]], at=(b, T), through=lambda tt: False)
                if (RA, "buf") not in g.fields_in(w):
                    continue
                ok = _combined_with_pos(f, g, t["dest"]["l"])
                ck.ob("PAIR", f"len-with-pos@{f.nname.split('::')[-1]}", ok,
                      f"{f.nname.split('::')[-1]}: the number of unread buffered bytes is buf.len() - pos; buf.len() is not used on its own",
                      loc=f.loc(b, "T"))
    ck.stats["buffer truncation sites"] = n_trunc


def _view_indexed_by_pos(f, g, b, t):
    d = t["dest"]["l"]
    # find statements/calls using the view local (one forwarding step allowed) with an index/range depending on pos
    views = {d}
    for bb, i, s in f.assigns():
        if s["rv"]["k"] in ("use", "ref") and "p" not in s["lhs"]:
            src = op_local(s["rv"]["a"]) if s["rv"]["k"] == "use" else s["rv"]["p"]["l"]
            if src in views:
                views.add(s["lhs"]["l"])
    for bb, tt in f.calls():
        if any(op_local(a) in views for a in tt["args"]):
            w = g.walk(ops=list(tt["args"]), at=(bb, T), through=lambda x: False)
            if (RA, "pos") in g.fields_in(w):
                return True
            # range construction in a previous statement
            w2 = g.walk(ops=list(tt["args"]), at=(bb, T))
            if (RA, "pos") in g.fields_in(w2) and (callee_name(tt) or "").endswith(("index", "get", "get_unchecked")):
                return True
    return False


def _combined_with_pos(f, g, l):
    for bb, i, s in f.assigns():
        rv = s["rv"]
        if rv["k"] == "bin" and (op_local(rv["a"]) == l or op_local(rv["b"]) == l):
            w = g.walk(ops=[rv["a"], rv["b"]], at=(bb, i))
            if (RA, "pos") in g.fields_in(w):
                return True
    return False


def eof_rule(ck, prog, ra_methods):
    n_sites = 0
    allf = list(ra_methods)
    for f in ra_methods:
        for b, t in f.calls():
            for cid in f.closure_args(t):
                if cid in prog.fns:
                    allf.append(prog.fns[cid])
    for f in allf:
        sites = []
        for b, i, s in f.assigns():
            rv = s["rv"]
            if rv["k"] == "agg" and rv.get("agg") == "adt" and rv["adt"].endswith("DeserializationError") and rv["vn"] == "UnexpectedEOF":
                sites.append((b, i, "UnexpectedEOF"))
        for b, i, s in field_stores(f, RA, "guaranteed_eof"):
            c = s["rv"]["a"].get("const") if s["rv"]["k"] == "use" else None
            if c is None or c.get("scalar") != "0":
                sites.append((b, i, "guaranteed_eof=true"))
        if not sites:
            continue
        just = justified_edges(f)
        for b, i, what in sites:
            n_sites += 1
            # the site must be unreachable once the justified EDGES are removed (an edge, not its target block: `eof || short_chunk`
            # reaches the same error block through a second, unjustified edge)
            ok = b not in _reach_blocks_avoiding_edges(f, just)
            if f.kind == "closure":
                # closures mapping an io::Error (map_err): the error kind was observed
                ok = ok or "ErrorKind" in " ".join(l["ty"] for l in f.locals) or "std::io::error::Error" in " ".join(l["ty"] for l in f.locals)
            ck.ob("EOF", f"{what}@{f.nname.split('::')[-2] if f.kind == 'closure' else f.nname.split('::')[-1]}", ok,
                  f"{f.nname.split('::')[-1]}: {what} happens only where an empty fill of the underlying reader, a reader error, or "
                  "guaranteed_eof was observed (a short chunk is not the end of the stream)", loc=f.loc(b, i))
    ck.floor("end-of-data sites in ReadAdapter", n_sites, 5)


REFILLS = ("ReadAdapter::non_empty_reader_buffer_mut", "ReadAdapter::non_empty_reader_buffer")
LOCAL_VIEWS = ("ReadAdapter::buffer", "ReadAdapter::non_empty_buffer")


def _is_local_view(g, w):
    """does the slice look at the adapter's own unread bytes: through buffer()/non_empty_buffer(), or directly as buf[pos..]"""
    if any(x.endswith(LOCAL_VIEWS) for x in g.callee_names_in(w)):
        return True
    flds = {fl for a, fl in g.fields_in(w) if a == RA}
    return {"buf", "pos"} <= flds and "reader" not in flds


def _is_reader_view(g, w):
    if any(x.endswith(READER_VIEWS) for x in g.callee_names_in(w)):
        return True
    return any(a == RA and fl == "reader" for a, fl in g.fields_in(w))


def _must_edges(f, target_block):
    """switch edges (block, successor, value-or-'else') that every path from entry to target_block takes"""
    res = []
    for b, blk in enumerate(f.blocks):
        t = blk["t"]
        if t["k"] != "switch":
            continue
        edges = [(v, tb) for v, tb in t["targets"]] + [("else", t["otherwise"])]
        for v, tb in edges:
            # is target reachable from entry when this edge is removed?
            seen, st = {0}, [0]
            found = False
            while st and not found:
                x = st.pop()
                for y in f.succ[x]:
                    if x == b and y == tb and sum(1 for _, z in edges if z == tb) == 1:
                        continue
                    if y not in seen:
                        if y == target_block:
                            found = True
                            break
                        seen.add(y)
                        st.append(y)
            if not found and target_block != 0:
                res.append((b, tb, v))
    return res


def _local_cannot_serve(f, g, cb):
    """(ok, decisions seen): every path to block cb takes an edge that establishes `buffered < requested` or `the local buffer is empty`"""
    ok, seen_conds = False, []
    for (b, tb, v) in _must_edges(f, cb):
        t = f.term(b)
        c = trace_cond(f, t["d"])
        listed = [x for x, _ in t["targets"]]
        if t.get("dty") == "bool" and c.kind == "cmp":
            truth = (v != "0") if v != "else" else ("0" in listed)
            cc = c if truth else c.negated()
            for op, l, r in ((cc.op, cc.lhs, cc.rhs), (FLIPS[cc.op], cc.rhs, cc.lhs)):
                lw = g.walk(ops=[l], at=c.node, through=lambda tt: not (callee_name(tt) or "").endswith(LOCAL_VIEWS))
                rw = g.walk(ops=[r], at=c.node, through=lambda tt: not (callee_name(tt) or "").endswith(LOCAL_VIEWS))
                l_local = _is_local_view(g, lw)
                r_local = _is_local_view(g, rw)
                if l_local and not r_local:
                    seen_conds.append(f"buffered {op} requested")
                    if op == "<":
                        ok = True
        else:
            # emptiness of the local view: `match buffer().len() { 0 => .. }`, `non_empty_buffer()` is None, `buffer().first()` is None
            dl = op_local(t["d"], pure=True)
            w = g.walk(ops=[t["d"]], at=(b, T), through=lambda tt: not (callee_name(tt) or "").endswith(LOCAL_VIEWS))
            if _is_local_view(g, w):
                is_zero_edge = v == "0" or (v == "else" and listed == ["1"] and t.get("dty") == "isize")
                if c.kind == "discr" and is_zero_edge:
                    ok = True   # Option discriminant 0 = None
                    seen_conds.append("local view is None")
                elif c.kind == "call" and (callee_name(c.call) or "").endswith("::len") and v == "0" and t.get("dty") != "bool":
                    ok = True
                    seen_conds.append("buffered == 0")
                elif c.kind == "call" and (callee_name(c.call) or "").endswith("is_empty") and ((v != "0" and v != "else") or (v == "else" and "0" in listed)) != c.neg:
                    ok = True
                    seen_conds.append("local view is empty")
    return ok, seen_conds


def refill_rule(ck, prog, ra_methods):
    n = 0
    ordinal = {}
    for f in ra_methods:
        g = flow(f)
        for cb, ct in f.calls():
            cn = callee_name(ct) or ""
            if not cn.endswith(REFILLS):
                continue
            n += 1
            ordinal[f.nname] = ordinal.get(f.nname, 0) + 1
            ok, seen_conds = _local_cannot_serve(f, g, cb)
            ck.ob("REFILL", f"{f.nname.split('::')[-1]}:{cn.split('::')[-1]}#{ordinal[f.nname]}", ok,
                  f"{f.nname.split('::')[-1]} consults the underlying reader ({cn.split('::')[-1]}) only on paths where it established that the local "
                  f"buffer cannot serve the request (found: {seen_conds or 'no such decision'})", loc=f.loc(cb, T))
    ck.floor("refill call sites in ReadAdapter", n, 5)


FLIPS = {"<": ">", "<=": ">=", ">": "<", ">=": "<=", "==": "==", "!=": "!="}
READER_VIEWS = ("ReadAdapter::reader_buffer", "ReadAdapter::non_empty_reader_buffer_mut", "ReadAdapter::non_empty_reader_buffer",
                "BufRead::fill_buf", "BufReader::buffer")


def _value_root(f, op, depth=0):
    """identity of the value an operand carries: a constant, or the statement that computed it (copies and moves are followed)"""
    c = op.get("const")
    if c is not None:
        return ("const", c.get("scalar"), c.get("tyconst"), c.get("def"))
    p = op_place(op)
    if p is None or p.get("p") or depth > 8:
        return ("place", json_key(p))
    d = single_def(f, p["l"])
    if d is None:
        return ("local", p["l"])
    b, i, st = d
    if i != "T" and st["k"] == "assign" and st["rv"]["k"] == "use":
        return _value_root(f, st["rv"]["a"], depth + 1)
    return ("def", b, i)


def json_key(x):
    import json
    return json.dumps(x, sort_keys=True)


def _pos_increments(f):
    """[(block, index, amount operand)] for every `self.pos = self.pos + X`"""
    res = []
    for b, i, st in field_stores(f, RA, "pos"):
        rv = st["rv"]
        if rv["k"] == "bin" and rv["op"] in ("Add", "AddUnchecked"):
            # without overflow checks the sum is stored directly
            for x, y in ((rv["a"], rv["b"]), (rv["b"], rv["a"])):
                px = op_place(x)
                if px is not None and any(isinstance(e, dict) and e.get("n") == "pos" for e in px.get("p", [])):
                    res.append((b, i, y))
            continue
        if rv["k"] != "use":
            continue
        p = op_place(rv["a"])
        if p is None:
            continue
        d = single_def(f, p["l"])
        if d is None or d[1] == "T":
            continue
        drv = d[2]["rv"]
        if drv["k"] == "bin" and drv["op"] in ("Add", "AddWithOverflow"):
            for x, y in ((drv["a"], drv["b"]), (drv["b"], drv["a"])):
                px = op_place(x)
                if px is not None and any(isinstance(e, dict) and e.get("n") == "pos" for e in px.get("p", [])):
                    res.append((b, i, y))
    return res


def _slice_len_operand(f, op, depth=0):
    """for an operand that is `&x[..end]` (or `&x[0..end]`): the operand `end`; None when the slice has another shape"""
    p = op_place(op)
    if p is None or depth > 10:
        return None
    d = single_def(f, p["l"])
    if d is None:
        return None
    b, i, st = d
    if i == "T":
        cn = callee_name(st) or ""
        if cn.endswith(("Index::index", "IndexMut::index_mut")) and len(st["args"]) == 2:
            rp = op_place(st["args"][1])
            rd = single_def(f, rp["l"]) if rp is not None else None
            if rd is not None and rd[1] != "T" and rd[2]["rv"]["k"] == "agg":
                adt = str(rd[2]["rv"].get("adt") or "")
                ops = rd[2]["rv"]["ops"]
                if adt.endswith("RangeTo") and len(ops) == 1:
                    return ops[0]
                if adt.endswith("::Range") and len(ops) == 2 and (ops[0].get("const") or {}).get("scalar") in ("0", 0, "0x0"):
                    return ops[1]
            return None
        if cn.endswith(("Deref::deref", "DerefMut::deref_mut", "AsRef::as_ref", "Borrow::borrow")) and st["args"]:
            return _slice_len_operand(f, st["args"][0], depth + 1)
        return None
    rv = st["rv"]
    if rv["k"] == "use":
        return _slice_len_operand(f, rv["a"], depth + 1)
    if rv["k"] in ("ref", "rawptr"):
        return _slice_len_operand(f, {"copy": {"l": rv["p"]["l"]}}, depth + 1)
    if rv["k"] == "cast":
        return _slice_len_operand(f, rv["a"], depth + 1)
    return None


def amount_rule(ck, prog, ra_methods):
    n = 0
    for f in ra_methods:
        g = flow(f)
        # (block, terminator, source operand, destination operand, count operand or None): raw copies and slice copies alike
        copies = [(b, t, t["args"][0], t["args"][1], t["args"][2]) for b, t in f.calls()
                  if (callee_name(t) or "").endswith(("ptr::copy_nonoverlapping", "intrinsics::copy_nonoverlapping")) and len(t["args"]) == 3]
        copies += [(b, t, t["args"][1], t["args"][0], _slice_len_operand(f, t["args"][1])) for b, t in f.calls()
                   if (callee_name(t) or "").endswith(("slice::copy_from_slice", "slice::clone_from_slice")) and len(t["args"]) == 2]
        copies.sort(key=lambda c: c[0])
        if not copies:
            continue
        incs = _pos_increments(f)
        cons = [(b, t["args"][1]) for b, t in f.calls() if (callee_name(t) or "").endswith("BufRead::consume") and len(t["args"]) > 1]
        acc = [(x, T) for x, blk in enumerate(f.blocks) if blk["t"]["k"] == "return"]
        ordinal = 0
        stop = lambda tt: not (callee_name(tt) or "").endswith(LOCAL_VIEWS + READER_VIEWS)
        for b, t, src, dst, cnt in copies:
            w = g.walk(ops=[src], at=(b, T), through=stop)
            from_reader = _is_reader_view(g, w)
            from_local = _is_local_view(g, w) and not from_reader
            if from_local == from_reader:
                # neither view: either a move inside the spill buffer (compaction: the destination is the buffer itself), or a copy OUT
                # of the raw storage `self.buf` that ignores the read position — the bytes before `pos` were already handed out
                sf = {fl for a, fl in g.fields_in(w) if a == RA}
                wd = g.walk(ops=[dst], at=(b, T), through=stop)
                df = {fl for a, fl in g.fields_in(wd) if a == RA}
                if "buf" in sf and "pos" not in sf and not df and not from_reader:
                    ordinal += 1
                    n += 1
                    ck.ob("AMT", f"{f.nname.split('::')[-1]}:copy#{ordinal}:unread-view", False,
                          f"{f.nname.split('::')[-1]}: bytes handed to the caller are copied from the unread part of the local buffer "
                          "(buffer() / buf[pos..]), not from the start of its storage", loc=f.loc(b, T),
                          detail="the source of this copy is `self.buf` without the read position: bytes that were already consumed are returned again")
                continue
            ordinal += 1
            n += 1
            if cnt is None:
                ck.note(f"AMT: {f.nname.split('::')[-1]}: copy #{ordinal} has a source slice of an unrecognised shape; its amount is not decided")
                continue
            want = _value_root(f, cnt)
            if from_local:
                match = [(bb, ii) for bb, ii, amt in incs if _value_root(f, amt) == want]
                kind = "pos += count"
            else:
                match = [(bb, T) for bb, amt in cons if _value_root(f, amt) == want]
                kind = "consume(count)"
            ok = bool(match) and must_between(f, [(b, T)], [(bb, T if ii == T else S) for bb, ii in match], acc)[0]
            ck.ob("AMT", f"{f.nname.split('::')[-1]}:copy#{ordinal}:{'local' if from_local else 'reader'}", ok,
                  f"{f.nname.split('::')[-1]}: the {'local-buffer' if from_local else 'reader-buffer'} copy is followed on every accepting path by "
                  f"`{kind}` with exactly the copied count", loc=f.loc(b, T),
                  detail=None if ok else f"{len(match)} advance(s) carry the copied count; amounts seen: "
                                         f"{[_value_root(f, a) for _, _, a in incs] if from_local else [_value_root(f, a) for _, a in cons]} vs count {want}")
    ck.floor("copies out of ReadAdapter buffers", n, 4)


def _reach_blocks_avoiding_edges(f, edges):
    seen, st = {0}, [0]
    while st:
        x = st.pop()
        for y in f.succ[x]:
            if (x, y) in edges and sum(1 for z in f.succ[x] if z == y) == 1:
                continue
            if y not in seen:
                seen.add(y)
                st.append(y)
    return seen


def justified_edges(f):
    """CFG edges (block, successor) taken only under an observed end of data: true edge of is_empty() on a fill_buf result, Err side
    of a result originating from the reader, true edge of a test of guaranteed_eof."""
    g = flow(f)
    res = set()
    for b, blk in enumerate(f.blocks):
        t = blk["t"]
        if t["k"] != "switch":
            continue
        c = trace_cond(f, t["d"])
        true_targets = []
        false_targets = []
        listed = [v for v, _ in t["targets"]]
        for v, tb in t["targets"]:
            (false_targets if v == "0" else true_targets).append(tb)
        if listed == ["0"]:
            true_targets.append(t["otherwise"])
        if c.kind == "call":
            cn = callee_name(c.call) or ""
            if cn.endswith(("slice::is_empty", "is_empty")):
                w = g.walk(ops=[c.call["args"][0]], at=c.node)
                if any(n.endswith("BufRead::fill_buf") for n in g.callee_names_in(w)):
                    for tb in (false_targets if c.neg else true_targets):
                        res.add((b, tb))
            if cn.endswith(("Result::is_ok", "Result::is_err")):
                w = g.walk(ops=[c.call["args"][0]], at=c.node)
                names = g.callee_names_in(w)
                if any(n.endswith(("non_empty_reader_buffer_mut", "non_empty_reader_buffer", "BufRead::fill_buf")) for n in names):
                    err_true = cn.endswith("is_err") != c.neg
                    for tb in (true_targets if err_true else false_targets):
                        res.add((b, tb))
        elif c.kind == "discr" and c.place is not None:
            # `match result { Ok(..) => .., Err(..) => .. }` on a result that originates in the reader: the Err arm observed the end
            lty = f.local_ty(c.place["l"])
            if lty.startswith("core::result::Result<"):
                w = g.walk(places=[c.place], at=c.node) if hasattr(g, "walk") else set()
                names = g.callee_names_in(w)
                if any(n.endswith(("non_empty_reader_buffer_mut", "non_empty_reader_buffer", "BufRead::fill_buf")) for n in names):
                    err_t = [tb for v, tb in t["targets"] if v == "1"]
                    if not err_t and "1" not in listed and f.term(t["otherwise"])["k"] != "unreachable":
                        err_t = [t["otherwise"]]
                    for tb in err_t:
                        res.add((b, tb))
        # test of the guaranteed_eof flag itself
        dl = op_local(t["d"], pure=True)
        if dl is not None:
            sd = single_def(f, dl)
            if sd is not None and sd[1] != "T" and sd[2]["rv"]["k"] == "use":
                p = op_place(sd[2]["rv"]["a"])
                if p and any(isinstance(e, dict) and e.get("n") == "guaranteed_eof" for e in p.get("p", [])):
                    for tb in true_targets:
                        res.add((b, tb))
    return res


def controls(ck, prog):
    """Positive controls on real code: SliceReader::peek_u8 returns a byte without advancing — the advance rule must not be
    satisfied by it."""
    pk = prog.impl_method(SR, BR, "peek_u8")
    adv = Advances(prog, SR, "pos", ())
    ck.control("SliceReader::peek_u8 is recognised as non-advancing", not adv.must_advance(pk))


def _locals_of(x, out):
    if isinstance(x, dict):
        for k, v in x.items():
            if k in ("l", "idx") and isinstance(v, int) and not isinstance(v, bool):
                out.add(v)
            else:
                _locals_of(v, out)
    elif isinstance(x, list):
        for v in x:
            _locals_of(v, out)


def stale_rule(ck, prog, ra_methods):
    """An offset into the spill buffer must be the position as it is AFTER the last repositioning. For every copy of `self.pos` into a local,
    no path leads from the copy through a repositioning store to `self.pos` (a store whose value does not derive from the previous position:
    `pos = 0` after moving the unread bytes to the front) to a use of that copy (or of a value computed from it). `pos += n` is an advance, not
    a repositioning, so `let start = self.pos; self.pos += len; &buf[start..]` is fine; taking `start` before the compaction is not."""
    ck.rule("STALE", "a copy of the position taken before the buffer is compacted (position reset) is not used afterwards")
    n = 0
    for f in ra_methods:
        g = flow(f)
        stores = field_stores(f, RA, "pos")
        repos = [(b, i) for b, i, st in stores if not reads_field(f, b, i, st, RA, "pos")]
        if not repos:
            continue
        for b, i, st in f.assigns():
            rv = st["rv"]
            if rv["k"] != "use" or "p" in st["lhs"]:
                continue
            p = op_place(rv["a"])
            if p is None or not any(isinstance(e, dict) and e.get("of") == RA and e.get("n") == "pos" for e in p.get("p", [])):
                continue
            l = st["lhs"]["l"]
            n += 1
            # values computed from the copy
            derived = {l}
            changed = True
            while changed:
                changed = False
                for bb, ii, s2 in f.assigns():
                    if "p" in s2["lhs"] or s2["lhs"]["l"] in derived:
                        continue
                    used = set()
                    _locals_of(s2["rv"], used)
                    if used & derived:
                        derived.add(s2["lhs"]["l"])
                        changed = True
            bad = None

            def later(b1, i1, b2, i2):
                """is (b2, i2) reachable from (b1, i1)?  (i = statement index or T)"""
                o1 = len(f.blocks[b1]["s"]) if i1 == T else i1
                o2 = len(f.blocks[b2]["s"]) if i2 == T else i2
                if b1 == b2 and o2 > o1:
                    return True
                return (b2, S) in reach(f, [(b1, T)], include_starts=False)
            for rb, ri in repos:
                if not later(b, i, rb, ri):
                    continue
                for ub, blk in enumerate(f.blocks):
                    sites = [(ii, s2) for ii, s2 in enumerate(blk["s"]) if s2["k"] == "assign"] + [(T, blk["t"])]
                    for ui, node in sites:
                        if not later(rb, ri, ub, ui) or (ub, ui) == (b, i):
                            continue
                        used = set()
                        _locals_of(node.get("rv") if ui != T else {k: v for k, v in node.items() if k in ("args", "d", "cond")}, used)
                        if not (used & derived):
                            continue
                        # the copy made at (b, i) must still be the value of l here
                        defs = g.reaching(l, ub, g._pos(ub, ui))
                        if any(d.b == b and d.i == i for d in defs):
                            bad = bad or f.loc(ub, ui)
            ck.ob("STALE", f"{f.nname.split('::')[-1]}:pos-copy@{f.line(b, i) - (f.get('line') or 0)}" if False else f"{f.nname.split('::')[-1]}:pos-copy#{n}", bad is None,
                  f"{f.nname.split('::')[-1]}: the copy of the position taken here is not used after a repositioning of the buffer", loc=f.loc(b, i),
                  detail=None if bad is None else {"used after the position was reset, at": bad})
    ck.floor("copies of the position in methods that reposition", n, 1)


def more_rule(ck, prog):
    """has_more_bytes may answer `false` only where the adapter's own unread bytes were observed to be none: every assignment of a value other
    than the constant `true` to the result lies behind an edge that establishes `the local buffer is empty` (after a failed read the remaining
    bytes sit in the local buffer while the underlying reader is already exhausted)."""
    ck.rule("MORE", "ReadAdapter::has_more_bytes answers false only after it observed its own buffer empty")
    f = prog.impl_method(RA, BR, "has_more_bytes")
    ck.saw(f)
    g = flow(f)
    n = 0
    for b, i, st in f.assigns():
        if "p" in st["lhs"] or st["lhs"]["l"] != 0:
            continue
        rv = st["rv"]
        c = rv["a"].get("const") if rv["k"] == "use" else None
        if c is not None and c.get("scalar") == "1":
            continue
        n += 1
        ok, seen = _local_cannot_serve(f, g, b)
        ck.ob("MORE", f"has_more_bytes:not-true#{n}", ok,
              "has_more_bytes: a result that can be `false` is produced only on paths that established that the local buffer holds no unread byte "
              f"(found: {seen or 'no such decision'})", loc=f.loc(b, i))
    for b, t in f.calls():
        if t["dest"].get("l") == 0 and "p" not in t["dest"]:
            n += 1
            ok, seen = _local_cannot_serve(f, g, b)
            ck.ob("MORE", f"has_more_bytes:not-true#{n}", ok,
                  "has_more_bytes: a result that can be `false` is produced only on paths that established that the local buffer holds no unread byte "
                  f"(found: {seen or 'no such decision'})", loc=f.loc(b, T))
    ck.floor("results of has_more_bytes that can be false", n, 1)
