"""C03 — proof integrity: every proof component is bound before it is used (Rule B), openings are
authenticated and their leaves recomputed (Rule M), sub-parsers reject trailing bytes (Rule P)."""
from ..cfg import T, S, must_between, guards as local_guards
from ..flow import partial_iteration, flow, Summaries
from ..guards import accept_nodes
from ..ir import callee_name, AnchorError, op_local
from . import vguards as V
from .vguards import by_err, match_cmp, has_callee, has_field, has_param, all_of, anything, require

VCH = "winter_verifier::channel::VerifierChannel"
COIN = "winter_crypto::random::RandomCoin"
FRI_VCH = "winter_fri::verifier::channel::VerifierChannel"

# binding table for the parsed proof held by the verifier channel: field -> (kind, reason)
BINDING = {
    "trace_roots": ("S1", "absorbed into the coin before any challenge"),
    "constraint_root": ("S1", "absorbed before the OOD point is drawn"),
    "fri_roots": ("S1-fri", "absorbed one by one in FriVerifier::new before the query positions"),
    "trace_queries": ("S2", "authenticated by verify_batch against the absorbed trace roots; leaves recomputed from the rows"),
    "constraint_queries": ("S2", "authenticated by verify_batch against the absorbed constraint root; leaves recomputed"),
    "fri_layer_proofs": ("S2-fri", "authenticated by verify_batch against the absorbed layer commitment"),
    "fri_layer_queries": ("S2-fri-values", "hashed into the leaves of the layer's batch proof when the layer is parsed"),
    "fri_remainder": ("S3", "hash compared with the absorbed remainder commitment"),
    "ood_trace_frame": ("S1", "hash absorbed before the DEEP coefficients are drawn"),
    "ood_constraint_evaluations": ("S1", "hash absorbed before the DEEP coefficients are drawn"),
    "pow_nonce": ("S1-nonce", "enters the query-position derivation (draw_integers) and the proof-of-work decision"),
    "fri_num_partitions": ("EXC", "layout only; excluded by the property statement"),
    "gkr_proof": ("EXC", "delegated to the user-supplied GkrVerifier, which receives the coin"),
}
S1_ACCESSOR = {
    "trace_roots": "read_trace_commitments",
    "constraint_root": "read_constraint_commitment",
    "ood_trace_frame": "read_ood_trace_frame",
    "ood_constraint_evaluations": "read_ood_constraint_evaluations",
}
# Proof fields that are not handed to the channel as data but are bound otherwise
PROOF_FIELD_NOTES = {
    "context": "bound through the coin seed (C04 E3.seed) and compared with the AIR's field",
    "num_unique_queries": "structural: a wrong value fails the exact-length decision of Queries::parse",
}
PARSERS = [
    "winter_air::proof::commitments::Commitments::parse",
    "winter_air::proof::queries::Queries::parse",
    "winter_air::proof::ood_frame::OodFrame::parse",
    "winter_fri::proof::FriProof::parse_remainder",
    "winter_fri::proof::FriProofLayer::parse",
]


def run(ck):
    prog, mg, root, gs = V.get()
    ck.analysed["configs"].add("default")
    ck.explanation = (
        "Binding analysis of the proof components. (B) Every field of `Proof` is consumed by VerifierChannel::new and "
        "every field of the parsed proof held by the channel is classified in an explicit table: absorbed into the "
        "transcript before the query positions are drawn (checked as must-pass-through on the verifier's CFG with the "
        "data-flow origin of the absorbed value), authenticated by a Merkle decision against an absorbed root with leaves "
        "recomputed from the very values handed on, or compared by hash with an absorbed commitment; a field that is not "
        "in the table, or whose binding is not found, is reported. (M) the three Merkle decisions are in "
        "MUST-GUARDS(verify) with roots/positions/proofs of the right origin. (P) every sub-parser's SliceReader over a "
        "proof byte field is checked for trailing bytes on every accepting path (or guarded by an exact-length decision). "
        "Decides that no path accepts without each component having been tied to the transcript; does not decide hash or "
        "Merkle arithmetic (C10/C11)."
    )
    ck.rule("B", "each proof component flows into a binding sink (transcript / Merkle leaf / hash equality) that is must-pass for acceptance")
    ck.rule("M", "Merkle decisions dominate acceptance; roots from absorbed commitments; leaves recomputed from the values returned")
    ck.rule("P", "every SliceReader over a proof byte field: has_more_bytes -> Err on all accepting paths, or an exact-length decision")
    for g in gs:
        ck.saw(g.fn)
    ck.floor("decisions in MUST-GUARDS(verify)", len(gs), 150)
    rule_b(ck, prog, mg, gs)
    rule_m(ck, prog, mg, gs)
    rule_p(ck, prog, mg, gs)
    rule_u(ck, prog, mg)
    controls(ck, prog)


# ---- Rule U ---------------------------------------------------------------------------------------

def rule_u(ck, prog, mg):
    """No decoded content of an accepted proof is left unused: (1) a batch Merkle opening has one leaf per position and every node of
    every node vector is consumed; (2) the presence of the optional GKR proof is examined on every accepting path (a proof that carries one
    for an AIR that does not call for it differs in decoded content from the accepted one and must be refused)."""
    from . import c10
    ck.rule("U", "no decoded content of the proof is left unused: openings fully consumed, presence of optional components decided")
    c10.opening_fully_used(ck, prog, None, "U")
    PROOF = "winter_air::proof::Proof"
    ok, where = False, None
    for name in ("winter_verifier::channel::VerifierChannel::new", "winter_verifier::perform_verification"):
        f = prog.inl(prog.fn(name))
        g = flow(f)
        acc = accept_nodes(f)
        exam = []
        for b, t in f.calls():
            cn = callee_name(t) or ""
            if cn.endswith(("Option::is_some", "Option::is_none", "Option::ok_or", "Option::ok_or_else", "Option::is_some_and")) and t["args"]:
                w = g.walk(ops=t["args"][:1], at=(b, T), through=lambda tt: (callee_name(tt) or "").endswith(("VerifierChannel::read_gkr_proof", "Option::as_ref", "Option::take")))
                if any(n[0] == "f" and n[2] == "gkr_proof" for n in w) or any((callee_name(f.term(n[1])) or "").endswith("read_gkr_proof") for n in w if n[0] == "c"):
                    exam.append((b, T))
        for b, i, st in f.assigns():
            if st["rv"]["k"] == "discr":
                w = g.walk(places=[st["rv"]["p"]], at=(b, i), through=lambda tt: (callee_name(tt) or "").endswith(("VerifierChannel::read_gkr_proof", "Option::as_ref", "Option::take")))
                if any(n[0] == "f" and n[2] == "gkr_proof" for n in w) or any((callee_name(f.term(n[1])) or "").endswith("read_gkr_proof") for n in w if n[0] == "c"):
                    exam.append((b, S))
        if exam and acc and must_between(f, None, exam, acc)[0]:
            ok, where = True, name
    ck.ob("U", "gkr_proof:presence-decided", ok,
          "on every accepting path the verifier examines whether the proof carries a GKR proof (so that an unsolicited one can be refused); "
          "examined only under `has_lagrange_kernel_aux_column` it is unused, unbound content for every other AIR",
          loc=prog.fn("winter_verifier::channel::VerifierChannel::new").loc())


# ---- Rule B --------------------------------------------------------------------------------------

def rule_b(ck, prog, mg, gs):
    vnew = prog.inl(prog.fn(VCH + "::new"))   # private helpers of the constructor are part of it
    ck.saw(vnew)
    proof_fields = prog.adt_fields("winter_air::proof::Proof")
    read = set()
    for b, blk in enumerate(vnew.blocks):
        for s in blk["s"]:
            if s["k"] != "assign":
                continue
            for p in _places_of_rv(s["rv"]):
                for e in p.get("p", []):
                    if isinstance(e, dict) and e.get("of") == "winter_air::proof::Proof" and e.get("n"):
                        read.add(e["n"])
    for f in proof_fields:
        ck.ob("B", f"proof-field-consumed:{f}", f in read,
              f"Proof.{f} is taken apart by VerifierChannel::new (a component that is never looked at cannot be bound)"
              + (f" [{PROOF_FIELD_NOTES[f]}]" if f in PROOF_FIELD_NOTES else ""), loc=vnew.loc())
    ch_fields = prog.adt_fields(VCH)
    pv = prog.fn("winter_verifier::perform_verification")
    ck.saw(pv)
    fl = flow(pv)
    dint = [(b, T) for b, t in pv.calls() if t["fn"].get("trait") == COIN and t["fn"]["item"] == "draw_integers"]
    if not dint:
        raise AnchorError("perform_verification: draw_integers not found")
    reseeds = [(b, t) for b, t in pv.calls() if t["fn"].get("trait") == COIN and t["fn"]["item"] == "reseed"]
    deep = Summaries(prog)
    for f in ch_fields:
        ent = BINDING.get(f)
        if ent is None:
            ck.ob("B", f"channel-field-classified:{f}", False,
                  f"VerifierChannel.{f} is a proof component with no entry in the binding table: it is consumed without a "
                  "known tie to the transcript", loc=vnew.loc())
            continue
        kind, reason = ent
        if kind == "EXC":
            ck.ob("B", f"bound:{f}", True, f"VerifierChannel.{f}: exception — {reason}", loc=vnew.loc())
            continue
        if kind == "S1":
            acc = prog.fn(f"{VCH}::{S1_ACCESSOR[f]}")
            af = _ret_fields(acc, deep)
            ok_acc = (VCH, f) in af
            sites = []
            for b, t in reseeds:
                w = fl.walk(ops=[t["args"][1]], at=(b, T), through=V.transparent)
                if acc.nname in fl.callee_names_in(w):
                    sites.append((b, T))
            ok_order = False
            if sites:
                ok_order, _ = must_between(pv, None, sites, dint)
            ck.ob("B", f"bound:{f}", ok_acc and bool(sites) and ok_order,
                  f"VerifierChannel.{f}: {reason} (the value returned by {S1_ACCESSOR[f]} is absorbed on every path before the query positions are drawn)",
                  loc=acc.loc())
        elif kind == "S1-fri":
            fv = prog.fn("winter_fri::verifier::FriVerifier::new")
            ff = flow(fv)
            ok = False
            for b, t in fv.calls():
                if t["fn"].get("trait") == COIN and t["fn"]["item"] == "reseed":
                    w = ff.walk(ops=[t["args"][1]], at=(b, T), through=V.transparent)
                    if any(c["fn"].get("trait") == FRI_VCH and c["fn"]["item"] == "read_fri_layer_commitments" for _, c in ff.calls_in(w)):
                        ok = True
            acc = prog.impl_method(VCH, FRI_VCH, "read_fri_layer_commitments")
            ok_acc = (VCH, f) in _ret_fields(acc, deep)
            newc = [(b, T) for b, t in pv.calls() if callee_name(t) == "winter_fri::verifier::FriVerifier::new"]
            ok_order = bool(newc) and must_between(pv, None, newc, dint)[0]
            ck.ob("B", f"bound:{f}", ok and ok_acc and ok_order, f"VerifierChannel.{f}: {reason}", loc=fv.loc())
        elif kind == "S1-nonce":
            ok = False
            for b, t in pv.calls():
                if t["fn"].get("trait") == COIN and t["fn"]["item"] == "draw_integers":
                    w = fl.walk(ops=[t["args"][3]], at=(b, T), through=V.transparent)
                    ok = ok or (f"{VCH}::read_pow_nonce" in fl.callee_names_in(w))
            acc = prog.fn(f"{VCH}::read_pow_nonce")
            ok = ok and (VCH, f) in _ret_fields(acc, deep)
            pw = [g for g in by_err(gs, "QuerySeedProofOfWorkVerificationFailed")
                  if match_cmp(g, ("<",), all_of(has_callee("RandomCoin::check_leading_zeros"), has_callee("read_pow_nonce")),
                               has_callee("ProofOptions::grinding_factor"))]
            ck.ob("B", f"bound:{f}", ok, f"VerifierChannel.{f}: {reason}", loc=acc.loc())
            require(ck, "B", "pow-decision", pw,
                    "reject iff check_leading_zeros(nonce from the proof) < grinding factor of the proof options")
        elif kind == "S2":
            errv = "TraceQueryDoesNotMatchCommitment" if f == "trace_queries" else "ConstraintQueryDoesNotMatchCommitment"
            cg = [g for g in gs if g.kind == "call" and errv in g.errs and (g.callee or "").endswith("MerkleTree::verify_batch")]
            okk = []
            for g in cg:
                gf = flow(g.fn)
                w = gf.walk(ops=[g.call_term["args"][2]], at=(g.block, T), through=V.transparent)
                if (VCH, f) in gf.fields_in(w):
                    okk.append(g)
            require(ck, "B", f"bound:{f}", okk, f"VerifierChannel.{f}: {reason}", strength=("always", "per-iteration"))
        elif kind == "S2-fri":
            cg = [g for g in gs if g.kind == "call" and "LayerCommitmentMismatch" in g.errs]
            acc = prog.impl_method(VCH, FRI_VCH, "take_next_fri_layer_proof")
            ok_acc = (VCH, f) in _ret_fields(acc, deep)
            require(ck, "B", f"bound:{f}", cg if ok_acc else [], f"VerifierChannel.{f}: {reason}", strength=("always", "per-iteration"))
        elif kind == "S2-fri-values":
            acc = prog.impl_method(VCH, FRI_VCH, "take_next_fri_layer_queries")
            ok_acc = (VCH, f) in _ret_fields(acc, deep)
            # both vectors stem from the same parse_layers call in VerifierChannel::new
            vf = flow(vnew)
            same = False
            for b, i, s in vnew.assigns():
                rv = s["rv"]
                if rv["k"] == "agg" and rv.get("adt") == VCH:
                    ops = dict(zip(rv["fields"], rv["ops"]))
                    if "fri_layer_queries" in ops and "fri_layer_proofs" in ops:
                        wq = vf.walk(ops=[ops["fri_layer_queries"]], at=(b, i), through=V.transparent)
                        wp = vf.walk(ops=[ops["fri_layer_proofs"]], at=(b, i), through=V.transparent)
                        cq = {n for n in wq if n[0] == "c" and (callee_name(vnew.term(n[1])) or "").endswith("FriProof::parse_layers")}
                        cp = {n for n in wp if n[0] == "c" and (callee_name(vnew.term(n[1])) or "").endswith("FriProof::parse_layers")}
                        same = bool(cq & cp)
            ck.ob("B", f"bound:{f}", ok_acc and same and _leaves_recomputed_fri(ck, prog),
                  f"VerifierChannel.{f}: {reason}", loc=acc.loc())
        elif kind == "S3":
            m = [g for g in by_err(gs, "RemainderCommitmentMismatch")
                 if match_cmp(g, ("!=",), has_field("FriVerifier", "layer_commitments"),
                              all_of(has_callee("hash_elements"), has_callee("read_remainder")))]
            acc = prog.impl_method(VCH, FRI_VCH, "take_fri_remainder")
            ok_acc = (VCH, f) in _ret_fields(acc, deep)
            require(ck, "B", f"bound:{f}", m if ok_acc else [], f"VerifierChannel.{f}: {reason}")


def _ret_fields(fn, deep):
    """(adt, field) pairs the return value of fn may depend on"""
    g = flow(fn)
    res = set()
    for ds in g.sites:
        if ds.local != 0 or ds.kind == "param":
            continue
        if ds.kind == "assign" and ds.stmt["k"] == "assign":
            ops, places = g._rv_ops(ds.stmt["rv"])
            w = g.walk(ops=ops, places=places, at=(ds.b, ds.i), deep=deep)
        else:
            w = g.walk(ops=list(ds.stmt["args"]), at=(ds.b, "T"), deep=deep)
        res |= g.fields_in(w)
    return res


def _places_of_rv(rv):
    for k in ("a", "b"):
        o = rv.get(k)
        if isinstance(o, dict):
            p = o.get("copy") or o.get("move")
            if p:
                yield p
    if isinstance(rv.get("p"), dict):
        yield rv["p"]
    for o in rv.get("ops", []) or []:
        p = o.get("copy") or o.get("move")
        if p:
            yield p


def _leaves_recomputed_fri(ck, prog):
    f = prog.fn("winter_fri::proof::FriProofLayer::parse")
    ck.saw(f)
    return _leaves_recomputed(f, ret_comp=0, what="read_many")


def _leaves_recomputed(f, ret_comp, what):
    """In parser f: the `leaves` argument of BatchMerkleProof::deserialize is computed by hash_elements from the
    same values (same producing call) that are returned as component ret_comp of the Ok tuple."""
    f = f.prog.inl(f)
    g = flow(f)
    des = [(b, t) for b, t in f.calls() if (callee_name(t) or "").endswith("BatchMerkleProof::deserialize")]
    if not des:
        raise AnchorError(f"{f.nname}: no BatchMerkleProof::deserialize call")
    leaves_src = set()
    hashed = False
    for b, t in des:
        w = g.walk(ops=[t["args"][1]], at=(b, T))
        hashed = hashed or any(n.endswith("ElementHasher::hash_elements") for n in g.callee_names_in(w, closures=True))
        leaves_src |= {n for n in w if n[0] == "c" and (callee_name(f.term(n[1])) or "").endswith(what)}
    ret_src = set()
    for ds in g.sites:
        if ds.local == 0 and ds.kind == "assign" and ds.stmt["k"] == "assign":
            rv = ds.stmt["rv"]
            if rv["k"] == "agg" and rv.get("vn") == "Ok":
                w = g.walk(ops=rv["ops"], at=(ds.b, ds.i))
                # component-sensitive: find the tuple aggregate feeding Ok
                l = op_local(rv["ops"][0], pure=True)
                if l is not None:
                    for d2 in g.reaching(l, ds.b, ds.i):
                        if d2.kind == "assign" and d2.stmt["k"] == "assign" and d2.stmt["rv"]["k"] == "agg" and d2.stmt["rv"].get("agg") == "tuple":
                            w = g.walk(ops=[d2.stmt["rv"]["ops"][ret_comp]], at=(d2.b, d2.i))
                ret_src |= {n for n in w if n[0] == "c" and (callee_name(f.term(n[1])) or "").endswith(what)}
    return hashed and bool(leaves_src) and bool(leaves_src & ret_src)


# ---- Rule M --------------------------------------------------------------------------------------

def rule_m(ck, prog, mg, gs):
    # trace openings
    tg = [g for g in gs if g.kind == "call" and "TraceQueryDoesNotMatchCommitment" in g.errs]
    okk = []
    for g in tg:
        gf = flow(g.fn)
        a0 = gf.walk(ops=[g.call_term["args"][0]], at=(g.block, T), through=V.transparent)
        a1 = gf.walk(ops=[g.call_term["args"][1]], at=(g.block, T), through=V.transparent)
        if (VCH, "trace_roots") in gf.fields_in(a0) and has_param("positions")(g, a1):
            okk.append(g)
            a_all = gf.walk(ops=list(g.call_term["args"]), at=(g.block, T))
            bad = partial_iteration(gf.callee_names_in(a_all))
            ck.ob("M", "trace-openings-all-segments", not bad and any(n.endswith("Iterator::zip") for n in gf.callee_names_in(a_all)),
                  "the loop authenticating trace openings ranges over every (root, proof) pair", loc=g.loc())
    require(ck, "M", "TraceQueryDoesNotMatchCommitment", okk,
            "per trace segment: the batch opening is verified against the committed trace root at the drawn positions",
            strength=("always", "per-iteration"))
    cg = [g for g in gs if g.kind == "call" and "ConstraintQueryDoesNotMatchCommitment" in g.errs]
    okk = []
    for g in cg:
        gf = flow(g.fn)
        a0 = gf.walk(ops=[g.call_term["args"][0]], at=(g.block, T), through=V.transparent)
        a1 = gf.walk(ops=[g.call_term["args"][1]], at=(g.block, T), through=V.transparent)
        if (VCH, "constraint_root") in gf.fields_in(a0) and has_param("positions")(g, a1):
            okk.append(g)
    require(ck, "M", "ConstraintQueryDoesNotMatchCommitment", okk,
            "the constraint opening is verified against the committed constraint root at the drawn positions")
    # verify_batch compares the recomputed root with the root handed in
    vb = [g for g in by_err(gs, "InvalidProof")
          if g.fn.nname.endswith("MerkleTree::verify_batch") and match_cmp(g, ("!=",), has_param("root"), has_callee("BatchMerkleProof::get_root"))]
    require(ck, "M", "verify_batch:root-comparison", vb,
            "MerkleTree::verify_batch rejects iff the root recomputed from the opening differs from the root handed in",
            strength=("always", "per-iteration"))
    # values returned = values authenticated; leaves recomputed
    q = prog.fn("winter_air::proof::queries::Queries::parse")
    ck.saw(q)
    ck.ob("M", "leaves-recomputed:Queries::parse", _leaves_recomputed(q, ret_comp=1, what="Table::from_bytes"),
          "Queries::parse builds the Merkle leaves by hashing the rows of the very table it returns", loc=q.loc())
    fp = prog.fn("winter_fri::proof::FriProofLayer::parse")
    ck.ob("M", "leaves-recomputed:FriProofLayer::parse", _leaves_recomputed(fp, ret_comp=0, what="read_many"),
          "FriProofLayer::parse builds the Merkle leaves by hashing the very values it returns", loc=fp.loc())
    # the states returned by the channel come from the same Queries as the authenticated proofs
    for mname, fld in (("read_queried_trace_states", "trace_queries"), ("read_constraint_evaluations", "constraint_queries")):
        m = prog.fn(f"{VCH}::{mname}")
        deep = Summaries(prog)
        ck.ob("M", f"returned=authenticated:{mname}", (VCH, fld) in _ret_fields(m, deep),
              f"{mname} returns the values parsed together with the opening it authenticated", loc=m.loc())
    # the opened values that are kept are kept together with the opening that authenticates them
    for cname in ("winter_verifier::channel::TraceQueries", "winter_verifier::channel::ConstraintQueries"):
        # whichever function builds the value (its `new`, or VerifierChannel::new when the constructor was inlined there)
        builders = [f for f in prog.fns.values() if f.crate == "winter_verifier" and f.kind != "closure" and
                    any(st["rv"]["k"] == "agg" and st["rv"].get("adt") == cname for _, _, st in f.assigns())]
        if len(builders) != 1:
            raise AnchorError(f"{cname} is constructed in {len(builders)} functions")
        ctor = builders[0]
        ck.saw(ctor)
        gf = flow(ctor)
        adt = prog.adt(cname)
        flds = adt["variants"][0]["fields"]
        proof_f = [i for i, fd in enumerate(flds) if "BatchMerkleProof" in fd["ty"]]
        value_f = [i for i, fd in enumerate(flds) if "Table<" in fd["ty"]]
        if not proof_f or not value_f:
            raise AnchorError(f"{cname}: expected a BatchMerkleProof field and Table fields")
        # std containers / Result plumbing carry the value along; workspace computations (other than Table::merge) do not
        through = lambda tt: V.transparent(tt) or (callee_name(tt) or "").startswith(("alloc::", "core::")) or (callee_name(tt) or "").endswith("Table::merge")
        found = False
        for b, i, st in ctor.assigns():
            rv = st["rv"]
            if rv["k"] != "agg" or rv.get("adt") != cname:
                continue
            found = True

            def parses(idx):
                w = gf.walk(ops=[rv["ops"][j] for j in idx], at=(b, i), through=through)
                return {n[1] for n in w if n[0] == "c" and (callee_name(ctor.term(n[1])) or "").endswith("Queries::parse")}
            pp, pv = parses(proof_f), parses(value_f)
            ck.ob("M", f"openings-kept-with-values:{cname.split('::')[-1]}", bool(pv) and pv <= pp,
                  f"{cname.split('::')[-1]} is built keeping, for every Queries::parse whose table is kept, the Merkle opening of the same parse "
                  f"(values kept from {len(pv)} parse site(s), openings kept from {len(pp)})", loc=ctor.loc(b, i),
                  detail=None if pv <= pp else f"values of the parse at {[ctor.loc(x, T) for x in sorted(pv - pp)]} are used without their opening")
        if not found:
            raise AnchorError(f"{ctor.nname} does not construct {cname}")
    # query positions handed to the three readers share one origin (checked in C04 E3.used)


# ---- Rule P --------------------------------------------------------------------------------------

def rule_p(ck, prog, mg, gs):
    n = 0
    # every function of the proof-parsing modules that opens a reader over proof bytes (the parse functions, or private helpers
    # they were split into); Table::from_bytes is covered by the exact-length decision of its only caller (below)
    parser_fns = [f for f in prog.fns.values() if f.kind != "closure" and f.crate in ("winter_air", "winter_fri") and
                  (f.nname.startswith(("winter_air::proof::", "winter_fri::proof::"))) and "::tests::" not in f.nname and
                  not f.nname.endswith("Table::from_bytes") and
                  any((callee_name(t) or "").endswith("SliceReader::new") for _, t in f.calls())]
    missing = [nm for nm in PARSERS if not any(True for _ in [prog.fn(nm)])]
    for f in sorted(parser_fns, key=lambda x: x.nname):
        name = f.nname
        ck.saw(f)
        g = flow(f)
        acc = accept_nodes(f)
        readers = [(b, t) for b, t in f.calls() if (callee_name(t) or "").endswith("SliceReader::new")]
        lg = local_guards(f, okset=set(acc))
        for b, t in readers:
            n += 1
            src = g.walk(ops=[t["args"][0]], at=(b, T), through=V.transparent)
            flds = sorted(fl for (a, fl) in g.fields_in(src))
            pars = sorted(f.local_name(p) or f"arg{p}" for p in g.params_in(src) if f.local_name(p) != "self")
            inst = f"{name.split('::')[-2]}::{name.split('::')[-1]}:{'/'.join(flds) or '/'.join(pars) or 'arg'}"
            sites = []
            for gd in lg:
                c = gd.cond
                if c.kind != "call" or not (callee_name(c.call) or "").endswith("ByteReader::has_more_bytes") or c.neg:
                    continue
                if not any(e.variant == "UnconsumedBytes" for e in gd.errs):
                    continue
                # the decision must be about this very reader: its receiver is a reference to the local
                # that holds the SliceReader created at block b
                rl = t["dest"]["l"]
                al = op_local(c.call["args"][0])
                if al is not None and (al == rl or rl in g.ref_of.get(al, ())):
                    sites.append((gd.block, T))
            # the same decision made by a helper the reader is handed to (`ensure_fully_consumed(&reader)?`)
            rl = t["dest"]["l"]
            for cb, ct in f.calls():
                cands, _pr = prog.resolve_call(ct)
                cands = [c for c in cands if c.crate != "examples"]
                if len(cands) != 1:
                    continue
                idxs = [k for k, a in enumerate(ct["args"]) if op_local(a) is not None and
                        (op_local(a) == rl or rl in g.ref_of.get(op_local(a), ()))]
                if not idxs:
                    continue
                h = cands[0]
                if not _helper_rejects_leftover(h, [k + 1 for k in idxs]):
                    continue
                from ..guards import err_propagated
                if err_propagated(prog, f, cb, acc)[0]:
                    sites.append((cb, T))
            ok = False
            if sites:
                ok, _ = must_between(f, [(b, T)], sites, acc)
            ck.ob("P", inst, ok,
                  f"{name}: after parsing from the reader over `{'/'.join(flds) or 'its argument'}` leftover bytes are rejected "
                  "(UnconsumedBytes) on every accepting path", loc=f.loc(b, "T"))
    ck.floor("sub-parser readers over proof byte fields", n, 7)
    # Table::from_bytes has no trailing-byte decision of its own: its caller must pin the length exactly
    q = prog.fn("winter_air::proof::queries::Queries::parse")
    gq = [g for g in mg.of(q) if g.kind == "switch" and "InvalidValue" in g.errs
          and match_cmp(g, ("!=",), has_field("Queries", "values"), all_of(has_param("num_queries"), has_param("values_per_query")))]
    require(ck, "P", "Queries::parse:exact-length", gq,
            "Queries::parse rejects iff values.len() != num_queries * values_per_query * ELEMENT_BYTES (exact, not a lower bound), "
            "which is what makes Table::from_bytes consume every byte")
    tb = prog.fn("winter_air::proof::table::Table::from_bytes")
    callers = [fn for fn in prog.fns.values() if fn.crate != "examples" and any(callee_name(t) == tb.nname for _, t in fn.calls())]
    ck.ob("P", "Table::from_bytes:callers", {c.nname for c in callers} <= {q.nname},
          "Table::from_bytes (which does not check for trailing bytes) is only called from Queries::parse, behind the exact-length decision",
          loc=tb.loc(), detail=str(sorted(c.nname for c in callers)))


def _helper_rejects_leftover(h, params):
    """every accepting path of helper h passes `has_more_bytes()` on one of the given parameters with the true edge rejecting"""
    acc = accept_nodes(h)
    gh = flow(h)
    sites = []
    for gd in local_guards(h, okset=set(acc)):
        c = gd.cond
        if c.kind != "call" or not (callee_name(c.call) or "").endswith("ByteReader::has_more_bytes") or c.neg:
            continue
        if not any(e.variant == "UnconsumedBytes" for e in gd.errs):
            continue
        al = op_local(c.call["args"][0])
        if al in params or (set(gh.ref_of.get(al, ())) & set(params)):
            sites.append((gd.block, T))
    return bool(sites) and must_between(h, None, sites, acc)[0]


def controls(ck, prog):
    """Positive control: Table::from_bytes creates a reader and never checks it for leftover bytes; the Rule P
    matcher must find no has_more_bytes decision there."""
    tb = prog.fn("winter_air::proof::table::Table::from_bytes")
    acc = accept_nodes(tb)
    lg = local_guards(tb, okset=set(acc))
    flagged = not [gd for gd in lg if gd.cond.kind == "call" and (callee_name(gd.cond.call) or "").endswith("has_more_bytes")]
    ck.control("Table::from_bytes has a reader without a trailing-bytes decision", flagged)
