"""C10 — Merkle openings: (G) guard inventory of BatchMerkleProof::get_root / map_indexes / verify_batch (engine E2),
(E4) no panic on a malformed opening: range-checked taint analysis with every field of the opening, the index list and
single paths attacker-controlled, (O) into_paths returns the paths in the caller's index order."""
from ..cfg import T, FLIP
from ..flow import flow, default_transparent
from ..guards import MustGuards
from ..ir import Program, callee_name, AnchorError, op_local
from ..ranges import Analyzer, seq, mk, top, top_ty
from . import vguards as V
from .vguards import match_cmp, has_param, has_callee, has_field, anything, require

BMP = "winter_crypto::merkle::proofs::BatchMerkleProof"
MT = "winter_crypto::merkle::MerkleTree"


def tainted_opening(prog):
    fields = prog.adt(BMP)["variants"][0]["fields"]
    f = {}
    for i, fd in enumerate(fields):
        f[i] = top_ty(fd["ty"], True)
        if f[i]["k"] == "seq":
            f[i] = dict(f[i], len=mk(0, 2**64 - 1, True))
    return {"k": "agg", "f": f, "t": True}


def opaque(fn):
    if fn.crate in ("winter_math", "examples", "winter_prover"):
        return True
    if fn.crate == "winter_crypto":
        return "::merkle::" not in fn.nname
    return False


def run(ck):
    prog = Program("default", crates={"winter_crypto", "winter_utils", "winter_math"})
    ck.analysed["configs"].add("default")
    ck.explanation = (
        "(G) MUST-GUARDS(BatchMerkleProof::get_root) contains the structural decisions — empty / too many positions, depth bound, "
        "position out of range (reject iff index >= 2^depth, checked for every position) and duplicates via map_indexes, number of "
        "node vectors vs normalised positions, and the final `resolves to a single root` — and verify_batch rejects iff the recomputed "
        "root differs from the root handed in. (E4) with the opening's leaves, nodes and depth, the position list and single Merkle "
        "paths all attacker-controlled, the interval/taint analysis finds no reachable panic, overflow or out-of-bounds access in "
        "get_root, into_paths, verify, verify_batch and deserialize whose operand the code compared and still left unsafe (accesses "
        "guarded by a comparison are proved safe through the identity of `self.nodes[i]` across the guard and the access). "
        "(O) into_paths builds its result by iterating the caller's position list, not the sorted map. That honest openings verify "
        "and that a changed leaf changes the root are statements about the hash and are not decided."
    )
    ck.rule("G", "structural decisions dominate a successful root computation; canonical comparison and operand origin")
    ck.rule("E4", "no reachable panic/overflow/out-of-bounds on a malformed opening")
    ck.rule("O", "into_paths returns one path per position in the caller's order")
    ck.rule("L", "one convention for the order of `leaves` in a batch opening: the position of the leaf's index in the caller's list (readers look it up "
                 "through map_indexes, builders through a position map), never the rank in the sorted list")
    mg = MustGuards(prog)
    gr = prog.fn(BMP + "::get_root")
    gs = mg.of(gr)
    for g in gs:
        ck.saw(g.fn)
    ck.floor("decisions in MUST-GUARDS(get_root)", len(gs), 6)

    def errs(v):
        return [g for g in gs if g.kind == "switch" and v in g.errs]
    m = [g for g in errs("TooFewLeafIndexes") if g.cond.kind == "call" and (callee_name(g.cond.call) or "").endswith("is_empty") and not g.cond.neg]
    require(ck, "G", "get_root:TooFewLeafIndexes", m, "reject iff the position list is empty")
    m = [g for g in errs("TooManyLeafIndexes") if match_cmp(g, (">",), has_param("indexes"), anything)]
    require(ck, "G", "get_root:TooManyLeafIndexes", m, "reject iff more than MAX_PATHS positions")
    m = [g for g in errs("LeafIndexOutOfBounds") if match_cmp(g, (">=",), has_param("indexes"), has_param("tree_depth"))]
    if not [g for g in m if g.strength == "per-iteration"]:
        # the other sound form: one comparison of the largest position (last key of the sorted map / max of the list)
        m = [g for g in errs("LeafIndexOutOfBounds")
             if match_cmp(g, (">=",), V.all_of(has_param("indexes"), has_callee("last_key_value", "Iterator::max", "BTreeSet::last", "BTreeMap::last_entry")), has_param("tree_depth"))]
    require(ck, "G", "map_indexes:LeafIndexOutOfBounds", m, "for every position (or for the largest one): reject iff index >= 2^depth", strength=("per-iteration", "always"))
    m = [g for g in errs("DuplicateLeafIndex") if match_cmp(g, ("!=",), has_param("indexes"), anything)]
    require(ck, "G", "map_indexes:DuplicateLeafIndex", m, "reject iff the position list contains duplicates (map size differs from list size)")
    m = [g for g in errs("InvalidProof") if _own(g, gr) and match_cmp(g, ("!=",), has_callee("normalize_indexes"), has_field("BatchMerkleProof", "nodes"))]
    require(ck, "G", "get_root:node-vector-count", m, "reject iff the number of node vectors differs from the number of normalised positions")
    opening_fully_used(ck, prog, mg, "G", with_count=False)   # the count guard is stated in this inventory itself
    m = [g for g in gs if g.kind == "call" and (g.callee or "").endswith("merkle::map_indexes")]
    require(ck, "G", "get_root:map_indexes-propagated", m, "position validation errors are propagated")
    m = [g for g in gs if g.kind == "call" and (g.callee or "").endswith("Option::ok_or")]
    require(ck, "G", "get_root:single-root", m, "a missing root node (the opening does not resolve) is an error, not a default value")
    vb = prog.fn(MT + "::verify_batch")
    gvb = mg.of(vb)
    m = [g for g in gvb if g.fn is vb and g.kind == "switch" and "InvalidProof" in g.errs and
         match_cmp(g, ("!=",), has_param("root"), has_callee("BatchMerkleProof::get_root"))]
    require(ck, "G", "verify_batch:root-comparison", m, "verify_batch rejects iff the recomputed root differs from the root handed in")
    vf = prog.fn(MT + "::verify")
    gvf = mg.of(vf)
    m = [g for g in gvf if g.fn is vf and g.kind == "switch" and "InvalidProof" in g.errs and g.cond.kind == "cmp" and g.cond.op == "!="]
    require(ck, "G", "verify:root-comparison", m, "verify rejects iff the recomputed root differs from the root handed in")
    m = [g for g in gvf if g.fn is vf and g.kind == "switch" and "LeafIndexOutOfBounds" in g.errs and
         match_cmp(g, (">=",), has_param("index"), has_param("proof"))]
    require(ck, "G", "verify:position-in-range", m, "verify rejects iff the position is >= 2^(path length - 1), before the position is used in arithmetic")
    e4(ck, prog)
    order(ck, prog)
    leaf_order(ck, prog)


def _own(g, gr):
    """the decision is made in get_root itself or in a private helper of the same type it delegates its shape checks to"""
    return g.fn is gr or (g.fn.crate == gr.crate and g.fn.get("vis") != "pub" and g.fn.get("impl_self_adt") == gr.get("impl_self_adt"))


def opening_fully_used(ck, prog, mg=None, rule="G", with_count=True):
    """every part of a batch opening is used: one leaf per position, and every node of every node vector consumed — a surplus leaf or node
    is bound to nothing, yet it is decoded content of the proof (and surplus rows reach an assertion of the DEEP composer). Shared by C10
    (guard inventory), C03 (integrity: no unbound decoded content) and C06 (no panic on proof bytes)."""
    mg = mg or MustGuards(prog)
    gr = prog.fn(BMP + "::get_root")
    gs = mg.of(gr)

    def errs(v):
        return [g for g in gs if g.kind == "switch" and v in g.errs]
    # every part of the opening is used: one leaf per position, and every node of every node vector consumed — a surplus leaf or node
    # is bound to nothing, yet it is decoded content of the proof (and surplus rows reach an assertion of the DEEP composer)
    m = [g for g in errs("InvalidProof") if _own(g, gr) and match_cmp(g, ("!=",), has_param("indexes"), has_field("BatchMerkleProof", "leaves"))]
    require(ck, rule, "get_root:one-leaf-per-position", m, "reject iff the number of leaves in the opening differs from the number of positions")
    m = []
    for g in errs("InvalidProof"):
        if not _own(g, gr) or g.cond.kind != "call" or not (callee_name(g.cond.call) or "").endswith(("Iterator::any", "Iterator::all")):
            continue
        w = flow(gr).walk(ops=g.cond.call["args"][:1], at=g.cond.node)
        if ("f", BMP, "nodes") in w or any(n[0] == "f" and n[2] == "nodes" for n in w):
            m.append(g)
    if not m:
        # the explicit-loop form: a per-iteration decision comparing a consumed count with the length of a node vector
        m = [g for g in errs("InvalidProof") if _own(g, gr) and match_cmp(g, ("!=", "<", ">"), anything, has_field("BatchMerkleProof", "nodes")) and
             not match_cmp(g, ("!=",), has_callee("normalize_indexes"), has_field("BatchMerkleProof", "nodes"))]
    require(ck, rule, "get_root:all-nodes-used", m, "reject iff some node vector of the opening was not consumed to its end",
            strength=("always", "per-iteration"))
    if with_count:
        # (C10's own inventory states this guard itself) a surplus node VECTOR is unbound decoded content just like a surplus node: the count
        # of node vectors is compared with the number of normalised positions (the per-vector check above stops at the shorter list)
        m = [g for g in errs("InvalidProof") if _own(g, gr) and match_cmp(g, ("!=",), has_callee("normalize_indexes"), has_field("BatchMerkleProof", "nodes"))]
        require(ck, rule, "get_root:node-vector-count", m, "reject iff the number of node vectors differs from the number of normalised positions")


def merkle_scopes(prog, an):
    """(scope name, summary) of the Merkle opening code analysed with every part of the opening attacker-controlled"""
    opening = tainted_opening(prog)
    idx = seq(mk(0, 2**64 - 1, True), True)
    idx["e"] = mk(0, 2**64 - 1, True)
    roots = [
        (BMP + "::get_root", [opening, idx]),
        (BMP + "::into_paths", [opening, idx]),
        (MT + "::verify_batch", [top(True), idx, opening]),
        (MT + "::verify", [top(True), mk(0, 2**64 - 1, True), seq(mk(0, 2**64 - 1, True), True)]),
    ]
    out = []
    for name, args in roots:
        out.append((name.split("::merkle::")[-1], an.analyze(prog.fn(name), args)))
    des = prog.fn(BMP + "::deserialize")
    out.append(("proofs::BatchMerkleProof::deserialize",
                an.analyze(des, [top(True), seq(mk(0, 2**64 - 1, True), True), mk(0, 255, True)], (), {"R": "winter_utils::serde::byte_reader::SliceReader"})))
    return out


def e4(ck, prog):
    an = Analyzer(prog, max_depth=8, opaque=opaque, path_limit=80000)
    seen = set()
    for scope, s in merkle_scopes(prog, an):
        for a in s.alarms:
            if a.key in seen:
                continue
            seen.add(a.key)
            ck.ob("E4", a.key, False, f"{a.what} in {a.fn.nname} may fail on a malformed opening (scope {scope})", loc=a.loc, detail=a.detail)
    from ..ranges import report_sites
    n = report_sites(ck, an)
    ck.stats.update(dict(an.stats))
    ck.floor("distinct sites proved safe", n["safe"], 20)
    control(ck, prog)


def control(ck, prog):
    """positive control on real code: MerkleTree::from_raw_parts documents that it panics on inconsistent vectors; called with
    attacker-sized vectors its assertions are reachable and the engine must report them"""
    an = Analyzer(prog, opaque=opaque)
    f = prog.fn(MT + "::from_raw_parts")
    v = seq(mk(0, 2**64 - 1, True), True)
    s = an.analyze(f, [v, dict(v)])
    ck.control("E4 reports the reachable assertions of MerkleTree::from_raw_parts for attacker-sized vectors", bool(s.alarms))


def order(ck, prog):
    f = prog.fn(BMP + "::into_paths")
    g = flow(f)
    ok, why = False, "no `collect` of mapped positions found"
    plain = ("core::slice::iter", "IntoIterator::into_iter", "Deref::deref", "Iterator::copied", "Iterator::cloned", "AsRef::as_ref", "Vec::as_slice")
    for ds in g.sites:
        if ds.local != 0 or ds.kind != "call" or not (callee_name(ds.stmt) or "").endswith("Iterator::collect"):
            continue
        # the iterator handed to collect: <positions>.iter().map(closure)
        l = op_local(ds.stmt["args"][0])
        maps = [(b, t) for b, t in f.calls() if (callee_name(t) or "").endswith("Iterator::map") and t["dest"].get("l") == l]
        if len(maps) != 1:
            why = "the collected iterator is not a single `map` over the positions"
            continue
        mb, mt = maps[0]
        w = g.walk(ops=[mt["args"][0]], at=(mb, "T"), through=lambda tt: (callee_name(tt) or "").endswith(plain))
        names = {n for n in g.callee_names_in(w)}
        params = {f.local_name(p) for p in g.params_in(w)}
        # `indexes` is a shared slice: iterating it elsewhere (Iterator::next on a borrow of it) cannot reorder it
        foreign = {n for n in names if not n.endswith(plain + ("Iterator::next",))}
        item_to_get_path = False
        for cid in f.closure_args(mt):
            cf = prog.fns.get(cid)
            if cf is None:
                continue
            cg = flow(cf)
            for cb, ct in cf.calls():
                if (callee_name(ct) or "").endswith("get_path"):
                    cw = cg.walk(ops=[ct["args"][0]], at=(cb, "T"), through=lambda tt: False)
                    item_to_get_path = cg.params_in(cw) == {2} and not cg.callee_names_in(cw)
        ok = params == {"indexes"} and not foreign and item_to_get_path
        why = f"receiver of map derives from {sorted(params)} through {sorted(n.split('::')[-1] for n in names)}"
    ck.ob("O", "into_paths:caller-order", ok,
          "into_paths collects get_path(i) for i over the caller's `indexes` slice itself (path k belongs to indexes[k]), "
          f"not over a sorted or de-duplicated copy: {why}", loc=f.loc())


def _idx_root(f, op):
    """identity of an index value: the local it is a plain copy of"""
    from ..cfg import single_def
    l = op_local(op, pure=True)
    for _ in range(8):
        d = single_def(f, l)
        if d is None or d[1] == "T" or d[2]["rv"]["k"] != "use":
            break
        n = op_local(d[2]["rv"]["a"], pure=True)
        if n is None:
            break
        l = n
    return l


def leaf_order(ck, prog):
    """prove_batch, from_paths (builders) and get_root, into_paths (readers) are siblings over one data layout; a builder that stores leaf k of the
    SORTED list at slot k produces an opening the readers misread for every unsorted position list"""
    # inlined views: private accessors / helpers these functions are split into are part of them
    readers = [prog.inl(prog.fn(BMP + "::get_root")), prog.inl(prog.fn(BMP + "::into_paths"))]
    builders = [prog.inl(prog.fn(BMP + "::from_paths")), prog.inl(prog.fn(MT + "::prove_batch"))]
    for f in list(builders):
        for b, t in f.calls():
            for cid in f.closure_args(t):
                if cid in prog.fns:
                    builders.append(prog.fns[cid])
    n_r = n_w = 0

    def is_leaf_vec(t):
        ta = ((t.get("fn") or {}).get("targs") or [""])[0]
        return ta.startswith("alloc::vec::Vec<") and "Digest" in ta and "Vec<alloc::vec::Vec" not in ta

    def is_map_lookup(tt):
        cn = callee_name(tt) or ""
        ta = ((tt.get("fn") or {}).get("targs") or [""])[0]
        return cn.endswith("BTreeMap::get") or (cn.endswith("Index::index") and ta.startswith("alloc::collections::btree::map::BTreeMap"))
    for f in readers:
        g = flow(f)
        ck.saw(f)
        for b, t in f.calls():
            cn_ = callee_name(t) or ""
            checked_get = cn_.endswith(("slice::get", "Vec::get")) and len(t["args"]) == 2     # `leaves.get(i)`: the checked spelling of `leaves[i]`
            if not ((cn_.endswith("Index::index") and is_leaf_vec(t)) or checked_get):
                continue
            rw = g.walk(ops=[t["args"][0]], at=(b, "T"), through=lambda tt: (callee_name(tt) or "").endswith(("Deref::deref", "DerefMut::deref_mut")))
            if (BMP, "leaves") not in g.fields_in(rw):
                continue
            n_r += 1
            iw = g.walk(ops=[t["args"][1]], at=(b, "T"), through=lambda tt: True)
            nms = g.callee_names_in(iw)
            # the position map: built by map_indexes, or (when that private function is inlined here) by enumerating the caller's list
            from_positions = any(x.endswith("merkle::map_indexes") for x in nms) or \
                (any(x.endswith("Iterator::enumerate") for x in nms) and any(f.local_name(p) == "indexes" for p in g.params_in(iw)))
            ok = from_positions and any(is_map_lookup(f.term(n[1])) for n in iw if n[0] == "c")
            ck.ob("L", f"{f.nname.split('::')[-1]}:leaves-read#{n_r}", ok,
                  f"{f.nname.split('::')[-1]} reads self.leaves at the caller-order position obtained from map_indexes", loc=f.loc(b, "T"))
    for f in builders:
        g = flow(f)
        ck.saw(f)
        for b, t in f.calls():
            if not (callee_name(t) or "").endswith("IndexMut::index_mut") or not is_leaf_vec(t):
                continue
            rw = g.walk(ops=[t["args"][0]], at=(b, "T"), through=lambda tt: (callee_name(tt) or "").endswith(("Deref::deref", "DerefMut::deref_mut")))
            if g.fields_in(rw):
                continue  # a field of an existing structure, not the vector being built
            n_w += 1
            iw = g.walk(ops=[t["args"][1]], at=(b, "T"), through=lambda tt: True)
            ok = any(is_map_lookup(f.term(n[1])) for n in iw if n[0] == "c")
            # ... the looked-up value itself, not a value computed from one (siblings are adjacent in the tree, not in the caller's list)
            near = g.walk(ops=[t["args"][1]], at=(b, "T"), through=lambda tt: not is_map_lookup(tt))
            ok = ok and not any(n[0] == "b" and str(n[1]).startswith(("Add", "Sub", "Mul", "Shl", "Shr", "BitXor", "BitOr")) for n in near)
            owner = f.nname.split("::")[-2] if f.kind == "closure" else f.nname.split("::")[-1]
            ck.ob("L", f"{owner}:leaves-write#{n_w}", ok,
                  f"{owner} stores a leaf at the slot looked up in a position map (caller order), not at a loop counter over the sorted list",
                  loc=f.loc(b, "T"))
    # a builder that stores no leaf through the position map at all but APPENDS leaves (in whatever order it walks the positions) has
    # the sorted-order layout by construction
    for f0 in (prog.fn(BMP + "::from_paths"), prog.fn(MT + "::prove_batch")):
        f = prog.inl(f0)
        fam = [f] + [prog.fns[cid] for b, t in f.calls() for cid in f.closure_args(t) if cid in prog.fns]
        mapped = pushed = 0
        for ff in fam:
            for b, t in ff.calls():
                cn = callee_name(t) or ""
                if cn.endswith("IndexMut::index_mut") and is_leaf_vec(t):
                    mapped += 1
                ta = ((t.get("fn") or {}).get("targs") or [""])[0]
                if cn.endswith("Vec::push") and "Digest" in ta and "Vec<" not in ta.split("Digest")[0][4:]:
                    pushed += 1
        if mapped == 0:
            ck.ob("L", f"{f0.nname.split('::')[-1]}:leaves-by-position", False,
                  f"{f0.nname.split('::')[-1]} places every leaf at the slot the position map gives for it (caller order); it appends leaves instead "
                  f"({pushed} push site(s)), i.e. stores them in the order it walks the positions", loc=f0.loc())
    # parallel indexing: two sequences read with ONE counter must be in the same order. A list re-ordered through a BTreeMap (keys/values:
    # ascending positions) read side by side with a caller-ordered parameter pairs position k of the sorted list with item k of the
    # caller's list (seed C10-L: `paths[i]` next to the sorted `indexes[i]` after the re-arranged copy of `paths` was optimised away).
    SORTED = ("BTreeMap::keys", "BTreeMap::values", "BTreeMap::into_keys", "BTreeMap::into_values", "BTreeMap::iter", "BTreeMap::into_iter",
              "slice::sort", "slice::sort_unstable", "BTreeSet::iter", "BTreeSet::into_iter")
    n_par = 0
    for f in [prog.inl(prog.fn(BMP + "::from_paths")), prog.inl(prog.fn(BMP + "::get_root")), prog.inl(prog.fn(BMP + "::into_paths")),
              prog.inl(prog.fn(MT + "::prove_batch"))]:
        g = flow(f)
        reads = []
        for b, t in f.calls():
            if not (callee_name(t) or "").endswith("Index::index") or len(t["args"]) != 2:
                continue
            il = op_local(t["args"][1], pure=True)
            if il is None or not f.local_ty(il).startswith(("usize",)):
                continue
            root = _idx_root(f, t["args"][1])
            w = g.walk(ops=[t["args"][0]], at=(b, "T"), through=lambda tt: True)
            nms = g.callee_names_in(w, closures=True)
            is_sorted = any(x.endswith(SORTED) for x in nms)
            params = {f.local_name(p) for p in g.params_in(w)}
            reads.append((b, root, is_sorted, params, bool(g.fields_in(w))))
        # built-in slice indexing is a place projection, not a call
        def places_of(b, blk):
            for i, st in enumerate(blk["s"]):
                if st.get("k") != "assign":
                    continue
                rv = st["rv"]
                for key in ("a", "b"):
                    o = rv.get(key)
                    if isinstance(o, dict):
                        pl = o.get("copy") or o.get("move")
                        if pl:
                            yield i, pl
                if isinstance(rv.get("p"), dict):
                    yield i, rv["p"]
                for o in rv.get("ops", []) or []:
                    pl = o.get("copy") or o.get("move")
                    if pl:
                        yield i, pl
            t = blk["t"]
            if t["k"] == "call":
                for o in t["args"]:
                    pl = o.get("copy") or o.get("move")
                    if pl:
                        yield "T", pl
        for b, blk in enumerate(f.blocks):
            for i, pl in places_of(b, blk):
                proj = pl.get("p", [])
                for k, e in enumerate(proj):
                    if isinstance(e, dict) and "idx" in e:
                        basep = {"l": pl["l"], "p": proj[:k]} if proj[:k] else {"l": pl["l"]}
                        root = _idx_root(f, {"copy": {"l": e["idx"]}})
                        w = g.walk(places=[basep], at=(b, i), through=lambda tt: True)
                        nms = g.callee_names_in(w, closures=True)
                        reads.append((b, root, any(x.endswith(SORTED) for x in nms), {f.local_name(q) for q in g.params_in(w)}, bool(g.fields_in(w))))
                        break
        by_root = {}
        for r in reads:
            by_root.setdefault(r[1], []).append(r)
        for root, rs in by_root.items():
            srt = [r for r in rs if r[2]]
            raw = [r for r in rs if not r[2] and r[3] and not r[4]]
            if srt and raw:
                n_par += 1
                for r in raw:
                    ck.ob("L", f"{f.nname.split('::')[-1]}:parallel-index:{'+'.join(sorted(x for x in r[3] if x))}", False,
                          f"{f.nname.split('::')[-1]}: sequences read with one counter are in one order", loc=f.loc(r[0], "T"),
                          detail=f"the caller-ordered parameter {sorted(x for x in r[3] if x)} is indexed with the counter that also indexes a list sorted "
                                 "through a BTreeMap: item k of the caller's list is paired with the k-th smallest position")
            elif len(srt) >= 2:
                n_par += 1
                ck.ob("L", f"{f.nname.split('::')[-1]}:parallel-index#{n_par}", True,
                      f"{f.nname.split('::')[-1]}: the lists read side by side with one counter were re-ordered through the same sorted map", loc=f.loc(srt[0][0], "T"))
    ck.floor("reads of BatchMerkleProof.leaves", n_r, 6)
    ck.floor("writes of a leaves vector under construction", n_w, 2)
