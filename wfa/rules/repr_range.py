"""Representation-range rule (engine E4): in the field whose internal representation is documented as lazy — f62, values in
[0, 2M) — every construction of a BaseElement is proved to store a value inside that range, assuming every BaseElement that flows
in (parameters, elements loaded from memory) is inside it and every raw integer is arbitrary. Interval analysis with case splits
on `z >> 62` (the quotient estimate of the lazy reduction) and order facts (`a < b` on the branch that computes 2M - b + a)."""
from ..ir import AnchorError
from ..ranges import Analyzer, mk, top_ty, report_sites

F62 = "winter_math::field::f62::"
BE = F62 + "BaseElement"


def in_module(fn):
    return fn.crate == "winter_math" and (fn.nname.startswith(F62) or fn.nname.startswith("<" + F62)) and "::tests::" not in fn.nname


def run_rule(ck, prog, rule="REPR"):
    M = int(prog.const(F62 + "M")["scalar"])
    lo, hi = 0, 2 * M - 1
    an = Analyzer(prog, max_depth=6, opaque=lambda fn: not in_module(fn))
    an.split_shifts = True
    an.invariants = {BE: {0: (lo, hi)}}
    inv = {"k": "agg", "f": {0: mk(lo, hi, True)}, "t": True}
    an.type_inv[BE] = inv
    roots = sorted((f for f in prog.fns.values() if in_module(f) and f.get("kind") != "closure"), key=lambda f: f.nname)
    if len(roots) < 30:
        raise AnchorError(f"f62 module: only {len(roots)} functions found")
    seen = set()
    for f in roots:
        args = []
        for ty in f.get("inputs") or []:
            t = ty.lstrip("&").replace("mut ", "")
            args.append(dict(inv) if t in (BE, "Self") else top_ty(ty, True))
        s = an.analyze(f, args)
        for a in s.alarms:
            if a.what != "Invariant" or a.key in seen:
                continue
            seen.add(a.key)
            ck.ob(rule, "f62:" + a.key, False,
                  f"{a.fn.nname} can construct a BaseElement whose internal value is outside [0, 2M): the lazy representation the "
                  f"comparisons (normalize), as_int and the reductions of add/double rely on", loc=a.loc, detail=a.detail)
    n = 0
    for k, (status, loc) in sorted(an.site_log.items()):
        if "/Invariant:" in k and status == "safe":
            n += 1
            ck.ob(rule, "f62:safe:" + k.split("/Invariant:")[0], True,
                  f"every BaseElement constructed in {k.split('/Invariant:')[0]} holds a value in [0, 2M) for all inputs", loc=loc)
    for f in an.analysed_fns:
        ck.saw(f)
    ck.floor(f"{rule}: f62 construction sites proved in range", n, 8)
    # positive control: the same engine must reject 2M - x for x in [0, 2M) (the value 2M is outside)
    from ..ranges import const
    an2 = Analyzer(prog)
    x = mk(lo, hi, True)
    r = an2.binop("Sub", const(2 * M), x, "u64")
    ck.control(f"{rule}: 2M - x for x in [0, 2M) is recognised as leaving the range", r["hi"] > hi)
    return n
