"""Representation-range rule (engine E4). For a field whose elements wrap a machine integer with a documented range —
f62: lazy Montgomery values in [0, 2M); f64: canonical Montgomery values in [0, M) compared bitwise — every construction of a
BaseElement in the field's module is proved to store a value inside that range, assuming every BaseElement that flows in
(parameters, elements loaded from memory) is inside it and every raw integer is arbitrary. Interval analysis with exact case
splits (on `z >> 62`, the quotient estimate of the lazy reduction; on the borrow/carry of overflowing_sub/add and wrapping_*) and
order facts (`a < b` on the branch that computes 2M - b + a; `(x << 32) - x = x * (2^32 - 1)`).

f64 only: the range of the Montgomery reduction `mont_red_cst` / `mont_red_var` is ASSUMED to be [0, M) (its proof needs exact
bit-level reasoning: `a - (a >> 32) - carry` never wraps because 2^32 + 1 is invertible modulo 2^64, which no interval argument sees),
and `from_mont` is a public constructor whose contract puts the obligation on its caller — it is checked at its call sites inside the
module (mul_small), not as an entry point."""
from ..ir import AnchorError
from ..ranges import Analyzer, mk, top_ty, const

FM = "winter_math::field::"


def spec(prog, fld):
    M = int(prog.const(f"{FM}{fld}::M")["scalar"])
    if fld == "f62":
        return dict(lo=0, hi=2 * M - 1, what="[0, 2M)", contracts={}, skip=(), floor=8, M=M)
    if fld == "f64":
        return dict(lo=0, hi=M - 1, what="[0, M)", floor=6, M=M,
                    contracts={f"{FM}f64::mont_red_cst": (0, M - 1), f"{FM}f64::mont_red_var": (0, M - 1)},
                    skip=(f"{FM}f64::BaseElement::from_mont",))
    raise AnchorError("no representation range documented for " + fld)


def run_rule(ck, prog, rule="REPR", fields=("f62",), only=None, floor=None):
    total = 0
    for fld in fields:
        total += run_field(ck, prog, rule, fld, only, floor)
    # positive control: the same engine must reject 2M - x for x in [0, 2M) (the value 2M is outside)
    sp = spec(prog, "f62")
    an2 = Analyzer(prog)
    r = an2.binop("Sub", const(2 * sp["M"]), mk(sp["lo"], sp["hi"], True), "u64")
    ck.control(f"{rule}: 2M - x for x in [0, 2M) is recognised as leaving the range", r["hi"] > sp["hi"])
    return total


_E5B = {}


def e5b_in_range(prog, fld, g, lo, hi):
    """Second opinion of the exact-linear-form engine (E5b) on one function: with every element parameter in [lo, hi] and every integer
    parameter arbitrary, is every BaseElement the function (private callees of the module spliced in) constructs on any path in [lo, hi]?
    True only when the engine followed every path; anything it does not model gives False (the interval analysis' alarm stands)."""
    key = (fld, g.id)
    if key in _E5B:
        return _E5B[key]
    from ..linint import LinInterp, Undecided, IV, ty_rng
    mod = f"{FM}{fld}::"
    be = mod + "BaseElement"
    res = False
    try:
        li = LinInterp(prog, 1 << 200, lambda c: c.kind != "closure" and (c.nname.startswith(mod) or c.nname.startswith("<" + mod)), max_states=2000)
        env0 = {}
        ok = True
        for i, ty in enumerate(g.get("inputs") or []):
            nm = f"x{i}"
            t = ty.replace("mut ", "")
            if t in (be, "Self"):
                li.atom(nm, lo, hi)
                env0[i + 1] = ("adt", 0, [IV({nm: 1}, lo, hi)])
            elif t in ("&" + be, "&Self"):
                li.atom(nm, lo, hi)
                env0["@" + nm] = ("adt", 0, [IV({nm: 1}, lo, hi)])
                env0[i + 1] = ("ref", "@" + nm, ())
            elif ty_rng(t) is not None:
                r = ty_rng(t)
                li.atom(nm, r[0], r[1])
                env0[i + 1] = IV({nm: 1}, r[0], r[1])
            else:
                ok = False
        if ok:
            outs = li.run(g, env0)
            built = [c for c in li.constructed if c[0] == be]
            res = bool(outs) and bool(built) and not any(imp for _, imp in outs) and all(lo <= c[1] and c[2] <= hi for c in built)
    except Undecided:
        res = False
    _E5B[key] = res
    return res


def run_field(ck, prog, rule, fld, only=None, floor=None):
    sp = spec(prog, fld)
    mod = f"{FM}{fld}::"
    be = mod + "BaseElement"

    def in_module(fn):
        return fn.crate == "winter_math" and (fn.nname.startswith(mod) or fn.nname.startswith("<" + mod)) and "::tests::" not in fn.nname
    lo, hi = sp["lo"], sp["hi"]
    an = Analyzer(prog, max_depth=6, opaque=lambda fn: not in_module(fn))
    an.split_shifts = True
    an.invariants = {be: {0: (lo, hi)}}
    an.contracts = dict(sp["contracts"])
    inv = {"k": "agg", "f": {0: mk(lo, hi, True)}, "t": True}
    an.type_inv[be] = inv
    roots = sorted((f for f in prog.fns.values() if in_module(f) and f.get("kind") != "closure" and f.nname not in sp["skip"]), key=lambda f: f.nname)
    if len(roots) < 30:
        raise AnchorError(f"{fld} module: only {len(roots)} functions found")
    if only is not None:
        roots = [f for f in roots if only(f)]
        if not roots:
            raise AnchorError(f"{fld} module: no function selected")
    for c in sp["contracts"]:
        prog.fn(c)  # the assumed functions must exist (fail closed on a rename)
    seen = set()
    e5b_ok = set()
    for f in roots:
        args = []
        for ty in f.get("inputs") or []:
            t = ty.lstrip("&").replace("mut ", "")
            args.append(dict(inv) if t in (be, "Self") else top_ty(ty, True))
        s = an.analyze(f, args)
        for a in s.alarms:
            if a.what != "Invariant":
                continue
            if e5b_in_range(prog, fld, a.fn, lo, hi) or (a.fn.id != f.id and e5b_in_range(prog, fld, f, lo, hi)):
                e5b_ok.add(a.fn.nname if e5b_in_range(prog, fld, a.fn, lo, hi) else f.nname)   # carry logic the interval domain cannot follow, decided by the linear-form domain
                continue
            key = f"{fld}:{f.nname}"
            if key in seen:
                continue
            seen.add(key)
            ck.ob(rule, key, False,
                  f"{f.nname} can produce a BaseElement whose internal value is outside {sp['what']} (constructed in {a.fn.nname}): the range that "
                  f"equality, as_int and the single conditional correction of the arithmetic rely on", loc=a.loc, detail=a.detail)
    n = 0
    for k, (status, loc) in sorted(an.site_log.items()):
        if "/Invariant:" in k and status == "safe":
            n += 1
            ck.ob(rule, f"{fld}:safe:" + k.split("/Invariant:")[0], True,
                  f"every BaseElement constructed in {k.split('/Invariant:')[0]} holds a value in {sp['what']} for all inputs", loc=loc)
    for g in sorted(e5b_ok):
        n += 1
        ck.ob(rule, f"{fld}:safe-e5b:" + g, True,
              f"every BaseElement constructed in {g} holds a value in {sp['what']} for all inputs (decided path by path in the exact linear-form domain, E5b)")
    for f in an.analysed_fns:
        ck.saw(f)
    if sp["contracts"]:
        ck.assumptions.append(f"{fld}: results of {', '.join(c.split('::')[-1] for c in sp['contracts'])} are in {sp['what']} (not provable by interval analysis; see rules/repr_range.py)")
    # sites examined = proved + reported (a reported site must surface as the VIOLATION it is, not as a count that fell below the floor)
    ck.floor(f"{rule}: {fld} construction sites proved in range", n + len(seen), sp["floor"] if floor is None else floor)
    return n
