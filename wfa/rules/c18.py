"""C18 — security estimate and acceptance policy: policy decision first and per policy arm (E2), the level is
computed from the proof's own parameters, claimed field = computation's field, and the conjectured estimate equals
the documented formula as a normal-form comparison of path-wise symbolic expressions (E5, integer part)."""
from ..cfg import T, S, must_between, guards as local_guards, reach, exits
from ..flow import flow
from ..guards import accept_nodes
from ..ir import callee_name, AnchorError, const_int
from ..symex import paths, norm, show, canon_cond, TooComplex
from . import vguards as V
from .vguards import by_err, match_cmp, has_callee, has_field, require, anything

ARMS = {
    "MinConjecturedSecurity": ("InsufficientConjecturedSecurity", 1),
    "MinProvenSecurity": ("InsufficientProvenSecurity", 0),
}


def run(ck):
    prog, mg, root, gs = V.get()
    ck.analysed["configs"].add("default")
    ck.explanation = (
        "Policy analysis of verify(): (1) AcceptableOptions::validate is called and its error propagated before any other "
        "work on the proof; (2) under each policy variant the accepting path passes exactly the decision `level < minimum` "
        "with level = Proof::security_level(conjectured = true/false as the variant demands) and the matching error, and the "
        "option-set variant rejects iff no listed option equals the proof's; (3) security_level dispatches on its flag to the "
        "conjectured/proven estimate and feeds both from the proof context (options, modulus bits, trace length) and the "
        "hasher's collision resistance; (4) the claimed-field decision dominates acceptance; (5) the conjectured estimate, "
        "a loop-free integer function, is extracted path by path as a symbolic expression and compared in associative-"
        "commutative normal form with the documented formula — for every parameter combination at once. Monotonicity and the "
        "floating-point proven estimate are not decided."
    )
    ck.rule("POL", "policy decision first; per-variant decision with the right estimate, operator and error")
    ck.rule("LVL", "security_level: flag selects the estimate; arguments originate in the proof context and H::COLLISION_RESISTANCE")
    ck.rule("FLD", "reject iff field modulus of the AIR != modulus bytes claimed by the proof (dominates acceptance)")
    ck.rule("FORM", "conjectured estimate == documented formula (path-wise symbolic normal form)")

    verify = root
    ck.saw(verify)
    # (1) validate first
    vcalls = [(b, T) for b, t in verify.calls() if callee_name(t) == "winter_verifier::AcceptableOptions::validate"]
    others = [(b, T) for b, t in verify.calls()
              if (callee_name(t) or "").endswith(("VerifierChannel::new", "RandomCoin::new", "Air::new", "ToElements::to_elements", "perform_verification"))]
    if not others:
        raise AnchorError("verify(): no work calls found")
    ok = bool(vcalls) and must_between(verify, None, vcalls, others)[0]
    ck.ob("POL", "validate-first", ok, "AcceptableOptions::validate runs before the proof is used for anything else", loc=verify.loc())
    pg = [g for g in gs if g.kind == "call" and g.callee == "winter_verifier::AcceptableOptions::validate" and g.fn is verify]
    require(ck, "POL", "validate-propagated", pg, "the policy error is propagated as the result of verify()")

    # (2) arms
    val = prog.fn("winter_verifier::AcceptableOptions::validate")
    ck.saw(val)
    acc = accept_nodes(val)
    adt = prog.adt("winter_verifier::AcceptableOptions")
    variants = [v["name"] for v in adt["variants"]]
    sw = None
    for b, blk in enumerate(val.blocks):
        t = blk["t"]
        if t["k"] == "switch":
            from ..cfg import trace_cond
            c = trace_cond(val, t["d"])
            if c.kind == "discr" and c.place["l"] == 1:
                sw = (b, t)
                break
    if sw is None:
        raise AnchorError("validate: no dispatch on the policy variant")
    arm_entry = {}
    for v, tb in sw[1]["targets"]:
        arm_entry[variants[int(v)]] = tb
    lg = local_guards(val, okset=set(acc))
    fl = flow(val)
    for vname in variants:
        if vname not in arm_entry:
            ck.ob("POL", f"arm:{vname}", False, f"policy variant {vname} has no arm in validate", loc=val.loc())
            continue
        entry = (arm_entry[vname], S)
        region = reach(val, [entry])
        mine = [g for g in lg if (g.block, T) in region and must_between(val, [entry], [(g.block, T)], acc, after_a=False)[0]]
        if vname in ARMS:
            err, flag = ARMS[vname]
            good = []
            for g in mine:
                if not any(e.variant == err for e in g.errs) or g.cond.kind != "cmp":
                    continue
                for op, l, r in ((g.cond.op, g.cond.lhs, g.cond.rhs), (V.FLIP[g.cond.op], g.cond.rhs, g.cond.lhs)):
                    if op != "<":
                        continue
                    lw = fl.walk(ops=[l], at=g.cond.node, through=V.transparent)
                    rw = fl.walk(ops=[r], at=g.cond.node, through=V.transparent)
                    lv = [t for _, t in fl.calls_in(lw) if callee_name(t) == "winter_air::proof::Proof::security_level"]
                    if lv and all(const_int(t["args"][1]) == flag for t in lv) and \
                            any(a == "winter_verifier::AcceptableOptions" for a, f in fl.fields_in(rw)):
                        good.append(g)
            ck.ob("POL", f"arm:{vname}", bool(good),
                  f"under {vname}: reject iff security_level(conjectured={bool(flag)}) < the caller's minimum, with error {err}",
                  loc=val.loc(arm_entry[vname], 0) if val.stmts(arm_entry[vname]) else val.loc())
        else:
            good = []
            for g in mine:
                if not any(e.variant == "UnacceptableProofOptions" for e in g.errs) or g.cond.kind != "call":
                    continue
                cn = callee_name(g.cond.call) or ""
                if not cn.endswith("Iterator::any") or not g.cond.neg:
                    continue
                # the closure compares the element with proof.options()
                okc = False
                for cid in val.closure_args(g.cond.call):
                    cf = prog.fns.get(cid)
                    if cf is None:
                        continue
                    names = {callee_name(t) for _, t in cf.calls()}
                    okc = any(n and n.endswith("PartialEq::eq") for n in names) and \
                        any(n and n.endswith("Proof::options") for n in names)
                w = fl.walk(ops=[g.cond.call["args"][0]], at=g.cond.node, through=V.transparent)
                if okc and any(a == "winter_verifier::AcceptableOptions" for a, f in fl.fields_in(w)):
                    good.append(g)
            if not good:
                # the same decision written as a loop: `for o in options { if o == proof.options() { return Ok(()) } } Err(..)` —
                # inside the arm, acceptance is reachable only through the true edge of an equality between a listed option set and
                # the proof's options, and falling out of the loop is the UnacceptableProofOptions error
                from ..cfg import trace_cond
                acc_in = [n for n in acc if n in region]
                for bb, blk in enumerate(val.blocks):
                    tt = blk["t"]
                    if tt["k"] != "switch" or (bb, T) not in region:
                        continue
                    c = trace_cond(val, tt["d"])
                    if c.kind != "cmp" or c.op not in ("==", "!="):
                        continue
                    lw = fl.walk(ops=[c.lhs], at=c.node, through=lambda t_: True)
                    rw = fl.walk(ops=[c.rhs], at=c.node, through=lambda t_: True)
                    sides = [(lw, rw), (rw, lw)]
                    if not any(any(a == "winter_verifier::AcceptableOptions" for a, f in fl.fields_in(x)) and
                               any(n.endswith("Proof::options") for n in fl.callee_names_in(y)) for x, y in sides):
                        continue
                    listed = [v for v, _ in tt["targets"]]
                    eq_true = [tb for v, tb in tt["targets"] if v != "0"] or ([tt["otherwise"]] if listed == ["0"] else [])
                    eq_false = [tb for v, tb in tt["targets"] if v == "0"] or ([tt["otherwise"]] if "0" not in listed else [])
                    yes, no = (eq_true, eq_false) if c.op == "==" else (eq_false, eq_true)
                    if not yes or not no or not acc_in:
                        continue
                    # every accepting return of the arm is reached through the `equal` edge only
                    r_no = reach(val, [(no[0], S)], avoid=frozenset([(bb, T)]))
                    via_no = any(n in r_no for n in acc_in)
                    r_entry = reach(val, [entry], avoid=frozenset([(yes[0], S)]))
                    without_yes = any(n in r_entry for n in acc_in)
                    errs_ok = any(e.variant == "UnacceptableProofOptions" and e.node in region for e in exits(val) if e.kind == "err")
                    if not via_no and not without_yes and errs_ok:
                        good.append(bb)
            ck.ob("POL", f"arm:{vname}", bool(good),
                  f"under {vname}: reject iff none of the caller's accepted option sets equals the proof's options",
                  loc=val.loc())
    # (3) security_level
    sl = prog.fn("winter_air::proof::Proof::security_level")
    ck.saw(sl)
    try:
        ps = paths(sl, skip_loops=True)
    except TooComplex as e:
        raise AnchorError(f"security_level: {e}")
    want = {True: "winter_air::proof::get_conjectured_security", False: "winter_air::proof::get_proven_security"}
    seen = {}
    for conds, res in ps:
        facts = [canon_cond(c, v) for c, v in conds]
        flagv = None
        for f in facts:
            # switch on the bool parameter `conjectured` (arg 2)
            pass
        for c, v in conds:
            if norm(c) == ("p", 2):
                flagv = (v != "0")
        if flagv is None or not (isinstance(res, tuple) and res[0] == "call"):
            continue
        seen[flagv] = res
    for flagv, callee in want.items():
        res = seen.get(flagv)
        ok = res is not None and res[1] == callee
        if flagv and res is None:
            # the conjectured estimate is computed in security_level itself (no separate function): its value, including the inputs
            # it is computed from, is decided by rule FORM on the inlined view
            ck.note("security_level(conjectured=true) computes the estimate in place; dispatch and inputs are covered by FORM")
            continue
        ck.ob("LVL", f"dispatch:conjectured={flagv}", ok,
              f"security_level(conjectured={flagv}) returns {callee.split('::')[-1]}(..)", loc=sl.loc())
        if ok:
            args = [show(a) for a in res[2]]
            exp = ["options(arg1.context)", "num_modulus_bits(arg1.context)", "length(trace_info(arg1))",
                   "winter_crypto::hash::Hasher::COLLISION_RESISTANCE"]
            ck.ob("LVL", f"args:conjectured={flagv}", args == exp,
                  "the estimate is computed from the proof's options, the claimed modulus size, the trace length and the "
                  "hasher's collision resistance, in this order", loc=sl.loc(), detail=f"found {args}")
    # (4) base field decision
    m = [g for g in by_err(gs, "InconsistentBaseField")
         if match_cmp(g, ("!=",), has_callee("StarkField::get_modulus_le_bytes"), has_callee("Context::field_modulus_bytes"),
                      through=V.transparent)]
    require(ck, "FLD", "InconsistentBaseField", m, "reject iff the AIR's field modulus differs from the modulus bytes in the proof context")
    # (5) formula
    formula(ck, prog)
    options_equality_rule(ck, prog)
    controls(ck, prog)


def _call(name, *args):
    return ("call", name, tuple(args))


def expected_conjectured():
    opts = ("p", 1)
    bits = ("p", 2)
    trace = ("p", 3)
    coll = ("p", 4)
    O = "winter_air::options::ProofOptions::"
    blow = _call(O + "blowup_factor", opts)
    nq = _call(O + "num_queries", opts)
    grind = _call(O + "grinding_factor", opts)
    deg = _call("winter_air::options::FieldExtension::degree", _call(O + "field_extension", opts))
    ilog = lambda x: _call("core::num::ilog2", x)
    field = ("op", "sub", (("op", "mul", (bits, deg)), ilog(("op", "mul", (trace, blow)))))
    query = ("op", "mul", (ilog(blow), nq))
    floor = ("k", 80)

    def result(q):
        return norm(("op", "min", (("op", "sub", (("op", "min", (field, q)), ("k", 1))), coll)))
    lo = (frozenset([("lt", norm(query), floor, True)]), result(query))
    hi = (frozenset([("lt", norm(query), floor, False)]), result(("op", "add", (query, grind))))
    return {lo, hi}


LEAVES = (("winter_air::proof::context::Context::options", ("p", 1)),
          ("winter_air::proof::context::Context::num_modulus_bits", ("p", 2)),
          ("winter_air::air::trace_info::TraceInfo::length", ("p", 3)))


def _abstract_leaves(e):
    """replace the four inputs of the estimate, as Proof::security_level obtains them, by the placeholders of the documented formula"""
    if not isinstance(e, tuple):
        return e
    if e[0] == "call":
        for nm, ph in LEAVES:
            if e[1] == nm:
                return ph
        return ("call", e[1], tuple(_abstract_leaves(a) for a in e[2]))
    if e[0] == "k" and isinstance(e[1], str) and e[1].endswith("COLLISION_RESISTANCE"):
        return ("p", 4)
    if e[0] == "op":
        return ("op", e[1], tuple(_abstract_leaves(a) for a in e[2]))
    if e[0] in ("un", "cast"):
        return (e[0], e[1], _abstract_leaves(e[2]))
    if e[0] == "field":
        return ("field", e[1], e[2], _abstract_leaves(e[3]))
    return e


def extract_conjectured(prog):
    """the value Proof::security_level(.., conjectured = true) returns, as path conditions and a symbolic result — read from the view
    of security_level with its private helpers inlined, so that it does not matter whether the estimate is a function of its own"""
    sl = prog.fn("winter_air::proof::Proof::security_level")
    f = prog.inl(sl)
    got = set()
    for conds, res in paths(f, max_paths=256, skip_loops=True):
        flag = [v for c, v in conds if norm(c) == ("p", 2)]
        if not flag or flag[0] == "0":
            continue   # the proven-security branch
        rest = [(c, v) for c, v in conds if norm(c) != ("p", 2)]
        got.add((frozenset(canon_cond_abs(c, v) for c, v in rest), norm(_abstract_leaves(res))))
    return f, got


def canon_cond_abs(c, v):
    x = canon_cond(_abstract_leaves(norm(c)), v)
    return x


def formula(ck, prog):
    try:
        f, got = extract_conjectured(prog)
    except TooComplex as e:
        ck.note(f"conjectured estimate is no longer loop-free ({e}); formula conformance not decided")
        ck.ob("FORM", "conjectured:extractable", False,
              "get_conjectured_security is a loop-free integer function whose value can be extracted symbolically",
              loc=prog.fn("winter_air::proof::Proof::security_level").loc())
        return
    ck.saw(f)
    exp = expected_conjectured()
    ok = got == exp
    detail = None
    if not ok:
        detail = "extracted: " + " | ".join(f"[{'; '.join(_fact(x) for x in sorted(c, key=repr))}] => {show(r)}" for c, r in sorted(got, key=repr))
    ck.ob("FORM", "conjectured==documented", ok,
          "min(min(bits*degree - log2(trace*blowup), q) - 1, collision) with q = log2(blowup)*queries, plus the grinding "
          "factor iff q >= 80 — for every parameter combination", loc=f.loc(), detail=detail)
    ck.stats["conjectured_paths"] = len(got)


def _fact(x):
    if x[0] == "lt":
        return f"{show(x[1])} {'<' if x[3] else '>='} {show(x[2])}"
    return repr(x)


def controls(ck, prog):
    """Positive control: the normal-form comparison distinguishes the documented formula from the same formula with
    the floor applied after the grinding contribution."""
    exp = expected_conjectured()
    mutated = set()
    for conds, res in exp:
        mutated.add((conds, norm(("op", "add", (res, ("k", 0))))))
    ck.control("normal-form comparison is not vacuous (a perturbed formula differs)", mutated != exp)


def options_equality_rule(ck, prog):
    """EQ: the option-set policy accepts a proof iff its options EQUAL a listed set — so what `==` means for ProofOptions is part of the
    policy. Decided: (a) the PartialEq impl compares every field of the struct with the same field of the other operand (what
    `#[derive(PartialEq)]` generates) — then equality is structural; or (b) it compares the results of one encoding function applied to
    both operands: the encoding's return expression is extracted and evaluated on the model of all legal option values (limits from the
    compiled constants) and must be injective there (seed C18-N: a bit-packed encoding whose grinding field is one bit short makes
    grinding 32 collide with another field extension). Anything else is reported as not decided."""
    from ..flow import flow
    from ..cfg import single_def
    from ..ir import op_place, op_local
    from .exempt import expr_at, strip_conv
    ck.rule("EQ", "equality of ProofOptions (the comparison the option-set policy makes) is structural, or an injective encoding on the legal option values")
    adt = "winter_air::options::ProofOptions"
    eqs = [f for f in prog.fns.values() if f.nname == f"<{adt} as core::cmp::PartialEq>::eq" and f.blocks]
    if not eqs:
        ck.note("EQ: no PartialEq impl of ProofOptions found; not decided")
        return
    f = eqs[0]
    ck.saw(f)
    names = [x if isinstance(x, str) else x.get("name") for x in prog.adt_fields(adt)]

    def field_of(op, param):
        """name of the field of parameter `param` this operand is a plain copy / borrow of"""
        p = op_place(op)
        for _ in range(6):
            if p is None:
                return None
            fl = [e for e in p.get("p", []) if isinstance(e, dict) and e.get("of") == adt and e.get("n")]
            if p.get("l") == param and fl:
                return fl[0]["n"]
            d = single_def(f, p["l"]) if "p" not in p or p.get("p") == ["deref"] else None
            if d is None or d[1] == "T":
                return None
            rv = d[2]["rv"]
            p = rv["p"] if rv["k"] == "ref" else (op_place(rv["a"]) if rv["k"] in ("use", "cast") else None)
        return None
    compared = set()
    for b, i, st in f.assigns():
        rv = st["rv"]
        if rv["k"] == "bin" and rv["op"] in ("Eq", "Ne"):
            a, c = field_of(rv["a"], 1), field_of(rv["b"], 2)
            if a and a == c:
                compared.add(a)
            a, c = field_of(rv["a"], 2), field_of(rv["b"], 1)
            if a and a == c:
                compared.add(a)
    for b, t in f.calls():
        if (callee_name(t) or "").endswith(("PartialEq::eq", "PartialEq::ne")) and len(t["args"]) == 2:
            a, c = field_of(t["args"][0], 1), field_of(t["args"][1], 2)
            if a and a == c:
                compared.add(a)
    if compared == set(names):
        ck.ob("EQ", "ProofOptions:eq:structural", True, f"ProofOptions == compares all {len(names)} fields pairwise", loc=f.loc())
        return
    # (b) an encoding applied to both operands
    enc = None
    for b, i, st in f.assigns():
        rv = st["rv"]
        if rv["k"] == "bin" and rv["op"] == "Eq":
            da, db = single_def(f, op_local(rv["a"])), single_def(f, op_local(rv["b"]))
            if da and db and da[1] == "T" and db[1] == "T" and callee_name(da[2]) == callee_name(db[2]):
                hs, precise = prog.resolve_call(da[2])
                if precise and len(hs) == 1:
                    enc = hs[0]
    if enc is None:
        ck.note(f"EQ: ProofOptions == compares only {sorted(compared)} directly and is not an encoding comparison the rule recognises; not decided")
        return
    ck.saw(enc)
    try:
        ps = list(paths(enc))
    except TooComplex:
        ps = []
    if len(ps) != 1 or ps[0][0]:
        ck.note("EQ: the encoding behind ProofOptions == is not a single straight-line expression; not decided")
        return
    e = norm(ps[0][1])

    def cval(suffix, default):
        vs = {int(v["scalar"]) for k, v in prog.consts.items() if k.endswith(suffix) and str(v.get("scalar") or "").isdigit()}
        return vs.pop() if len(vs) == 1 else default
    model = {"num_queries": [1, cval("options::MAX_NUM_QUERIES", 255)], "blowup_factor": [2, cval("options::MAX_BLOWUP_FACTOR", 128)],
             "grinding_factor": [0, 1, cval("options::MAX_GRINDING_FACTOR", 32) - 1, cval("options::MAX_GRINDING_FACTOR", 32)],
             "field_extension": [1, 2, 3], "fri_folding_factor": [2, 4, 8, 16], "fri_remainder_max_degree": [0, 1, cval("options::FRI_MAX_REMAINDER_DEGREE", 255)]}
    if set(model) != set(names):
        ck.note("EQ: the fields of ProofOptions differ from the model of legal values the rule knows; not decided")
        return

    def ev(x, cur):
        if not isinstance(x, tuple):
            return None
        if x[0] == "k":
            if isinstance(x[1], int):
                return x[1]
            c = prog.consts.get(str(x[1]))
            return int(c["scalar"]) if c and str(c.get("scalar") or "").isdigit() else None
        if x[0] == "field" and x[1] == adt and x[3] == ("p", 1):
            return cur.get(x[2])
        if x[0] == "un" and x[1] in ("discr", "as_", "proj"):
            return ev(x[2], cur)
        if x[0] == "op":
            vs = [ev(y, cur) for y in x[2]]
            if any(v is None for v in vs):
                return None
            op = x[1]
            try:
                if op == "add":
                    return sum(vs)
                if op == "mul":
                    r_ = 1
                    for v in vs:
                        r_ *= v
                    return r_
                if op == "or":
                    r_ = 0
                    for v in vs:
                        r_ |= v
                    return r_
                if op == "xor":
                    r_ = 0
                    for v in vs:
                        r_ ^= v
                    return r_
                if op == "and":
                    r_ = vs[0]
                    for v in vs[1:]:
                        r_ &= v
                    return r_
                if len(vs) == 2:
                    a_, b_ = vs
                    return {"sub": a_ - b_, "shl": (a_ << b_) & (2 ** 64 - 1) if 0 <= b_ < 64 else None, "shr": a_ >> b_ if 0 <= b_ < 64 else None,
                            "div": a_ // b_ if b_ else None, "rem": a_ % b_ if b_ else None}.get(op)
            except Exception:
                return None
        return None
    import itertools
    seen, clash = {}, None
    for combo in itertools.product(*[model[n] for n in names]):
        cur = dict(zip(names, combo))
        kv = ev(e, cur)
        if kv is None:
            ck.note("EQ: the encoding behind ProofOptions == has a leaf the rule cannot evaluate; not decided")
            return
        if kv in seen and seen[kv] != combo and clash is None:
            clash = (seen[kv], combo)
        seen.setdefault(kv, combo)
    ck.ob("EQ", "ProofOptions:eq:encoding-injective", clash is None,
          f"ProofOptions == compares {enc.nname.split('::')[-1]}() of both operands, which is injective on the legal option values ({len(seen)} distinct of "
          f"{len(list(itertools.product(*[model[n] for n in names])))} model points)", loc=enc.loc(),
          detail=None if clash is None else f"{dict(zip(names, clash[0]))} and {dict(zip(names, clash[1]))} have the same encoding: an option set that lists one "
                                            "accepts proofs made with the other")
