"""C14 — multi-threading: structural lint over the `concurrent` build configuration.
(N) scheduling-dependent rayon combinators only in the nonce search; (R) sites that manufacture an aliasing
`&mut` from a raw pointer inside parallel code are exactly the known ones; (P) the raw worker count is only
consumed through next_power_of_two (batch boundaries stay power-of-two aligned); (S) every function of a
`concurrent` module has a serial sibling with the same signature."""
from collections import defaultdict

from ..cfg import T
from ..flow import flow
from ..ir import Program, callee_name, AnchorError, op_local

NONDET = {"find_any", "position_any", "any", "all", "try_for_each", "try_for_each_with", "try_for_each_init", "try_reduce",
          "try_reduce_with", "try_fold", "try_fold_with", "reduce", "reduce_with", "fold", "fold_with", "sum", "product",
          "while_some", "take_any", "skip_any", "take_any_while", "skip_any_while", "find_map_any", "min_by", "max_by",
          "min_by_key", "max_by_key", "collect_vec_list", "panic_fuse", "find_first", "find_last", "position_first", "position_last"}
ALLOWED_NONDET = {"winter_prover::channel::ProverChannel::grind_query_seed": "parallel nonce search: any valid nonce is acceptable (property statement)"}
RAW_SITES = {
    "winter_math::fft::concurrent::permute": "disjoint index swaps of the bit-reversal permutation",
    "winter_crypto::merkle::concurrent::build_merkle_nodes": "each task writes its own subtree's node range",
    "winter_prover::matrix::segments::concurrent::permute": "disjoint row swaps of the row-matrix permutation",
}


def root_of(prog, f):
    while f.kind == "closure":
        f = prog.fns[f.get("parent_fn")]
    return f


def run(ck):
    prog = Program("concurrent")
    serial = Program("default")
    ck.analysed["configs"] |= {"concurrent", "default"}
    ck.explanation = (
        "The test suite is built without the `concurrent` feature, so none of the rayon code is even compiled by it; this check "
        "analyses the MIR of the feature-enabled build. (N) every call of a rayon combinator whose result can depend on scheduling "
        "is inside the nonce search. (R) the functions that, inside parallel code, turn a raw pointer into a mutable slice (the only "
        "way two tasks can alias mutable memory in safe-looking code) are exactly the three known ones. (P) the raw worker count "
        "returned by rayon::current_num_threads() is consumed only through next_power_of_two() (or to pick the serial path), so "
        "batch sizes divide power-of-two lengths evenly and batch offsets stay aligned for every pool size, powers of two or not. "
        "(S) every function defined in a `concurrent` module has a serial sibling of the same signature. Index-disjointness at the "
        "three raw-pointer sites and bit-identity of results are arithmetic over sizes and thread counts and are not decided."
    )
    ck.rule("N", "scheduling-dependent rayon combinators occur only in ProverChannel::grind_query_seed")
    ck.rule("R", "raw-pointer-to-&mut sites in parallel code are exactly the known, reviewed ones")
    ck.rule("P", "rayon::current_num_threads() is only consumed through next_power_of_two() / serial-path thresholds")
    ck.rule("S", "functions of `concurrent` modules have serial siblings with the same signature")
    ck.rule("Z", "a per-batch count `x / batches(size)` is taken from the quantity the batch-count helper was sized by, or the batch count is capped by x")
    ck.rule("F", "a fragment-local row index never addresses the global domain: what is handed to anything but the fragment itself is offset by fragment.offset()")

    users = defaultdict(set)
    n_rayon = 0
    for f in prog.fns.values():
        for b, t in f.calls():
            cn = callee_name(t) or ""
            if cn.startswith("rayon"):
                n_rayon += 1
                users[root_of(prog, f).nname].add((cn.split("::")[-1], f.loc(b, "T")))
    ck.floor("rayon call sites (concurrent build)", n_rayon, 100)
    ck.floor("functions using rayon", len(users), 30)
    from . import vguards as V
    search = {c.nname for c in V.nonce_search_scope(prog) if c.kind != "closure"}
    allowed = dict(ALLOWED_NONDET)
    for nm in search:
        allowed.setdefault(nm, ALLOWED_NONDET[V.GRIND] + " (private helper of the search)")
    for fn, items in sorted(users.items()):
        ck.saw(fn)
        nd = sorted(i for i, _ in items if i in NONDET)
        if nd:
            ck.ob("N", f"nondet@{'nonce-search' if fn in allowed else fn}", fn in allowed,
                  f"{fn} uses scheduling-dependent combinator(s) {nd}" + (f" — allowed: {allowed[fn]}" if fn in allowed else
                                                                         " outside the nonce search: results may differ between runs"),
                  loc=[l for i, l in items if i in NONDET][0])
    ck.ob("N", "nonce-search-present", bool(search & set(users)),
          "the nonce search is the (only) place where a scheduling-dependent result is acceptable", loc=None)
    # (R)
    raw = defaultdict(list)
    par_roots = set(users)
    for f in prog.fns.values():
        r = root_of(prog, f)
        if r.nname not in par_roots:
            continue
        for b, t in f.calls():
            cn = callee_name(t) or ""
            if cn.endswith(("slice::from_raw_parts_mut", "slice::raw::from_raw_parts_mut")):
                raw[r.nname].append(f.loc(b, "T"))
        for b, i, s in f.assigns():
            rv = s["rv"]
            if rv["k"] == "ref" and rv.get("mut") and not s.get("exp"):
                pl = rv["p"]
                if pl.get("p") and pl["p"][0] == "deref" and f.local_ty(pl["l"]).startswith("*mut "):
                    raw[r.nname].append(f.loc(b, i))
    for fn, locs in sorted(raw.items()):
        ck.ob("R", f"raw-mut@{fn}", fn in RAW_SITES,
              f"{fn} re-creates a mutable slice from a raw pointer inside parallel code" +
              (f" — reviewed: {RAW_SITES[fn]}" if fn in RAW_SITES else " — a new site where tasks may alias mutable memory"), loc=locs[0])
    for fn in RAW_SITES:
        ck.ob("R", f"known-site@{fn}", fn in raw, f"{fn}: known raw-pointer site still has this shape", loc=None)
    # (P)
    n_nt = 0
    for f in prog.fns.values():
        g = None
        for b, t in f.calls():
            cn = callee_name(t) or ""
            if cn != "rayon_core::current_num_threads" and not cn.endswith("::current_num_threads"):
                continue
            n_nt += 1
            g = g or flow(f)
            d = t["dest"]["l"]
            bad = uses_not_via_npot(f, d)
            r = root_of(prog, f)
            ck.ob("P", f"threads->npot@{r.nname}", not bad,
                  f"{r.nname}: the worker count is only used through next_power_of_two()", loc=f.loc(b, "T"),
                  detail="; ".join(bad) if bad else None)
    ck.floor("current_num_threads call sites", n_nt, 10)
    # (S)
    conc = [f for f in prog.fns.values() if "::concurrent::" in f.nname and f.kind != "closure" and f.get("vis") == "pub"]
    ck.floor("public functions in concurrent modules", len(conc), 4)
    n_sib = 0
    for f in conc:
        item = f.get("item_name")
        sig = (tuple(f.get("inputs") or ()), f.get("output"))
        parent = f.nname.split("::concurrent::")[0]
        has_serial_mod = any(s.nname.startswith(parent + "::serial::") for s in serial.fns.values())
        cands = [s for s in serial.fns.values() if s.kind != "closure" and s.get("item_name") == item and
                 (s.nname == f"{parent}::serial::{item}" or s.nname == f"{parent}::{item}")]
        if not has_serial_mod and not cands:
            ck.note(f"{f.nname}: no serial module/function of the same name next to it (dispatch is by a differently named serial path); sibling rule not applied")
            continue
        n_sib += 1
        ok = any((tuple(s.get("inputs") or ()), s.get("output")) == sig for s in cands)
        ck.ob("S", f"sibling:{f.nname}", ok,
              f"{f.nname} has a serial sibling with the same signature ({cands[0].nname if cands else 'none found'})", loc=f.loc())
    ck.floor("concurrent functions with a serial sibling", n_sib, 4)
    fragment_rule(ck, prog)
    zero_batch_rule(ck, prog)
    ck.control("`for_each` is not classified as scheduling-dependent", "for_each" not in NONDET)


def uses_not_via_npot(f, l):
    """uses of local l (and of plain copies of it) other than as the receiver of next_power_of_two or in a comparison"""
    bad = []
    locs = {l}
    changed = True
    while changed:
        changed = False
        for b, i, s in f.assigns():
            if "p" in s["lhs"]:
                continue
            rv = s["rv"]
            if rv["k"] == "use" and op_local(rv["a"], pure=True) in locs and s["lhs"]["l"] not in locs:
                locs.add(s["lhs"]["l"])
                changed = True
    for b, i, s in f.assigns():
        rv = s["rv"]
        if rv["k"] == "use":
            continue
        for k in ("a", "b"):
            o = rv.get(k)
            if isinstance(o, dict) and op_local(o, pure=True) in locs:
                if rv["k"] == "bin" and rv["op"] in ("Lt", "Le", "Gt", "Ge", "Eq", "Ne"):
                    continue
                bad.append(f"{rv['k']} {rv.get('op', '')} at {f.loc(b, i)}")
        for o in rv.get("ops", []) or []:
            if op_local(o, pure=True) in locs and rv.get("agg") != "closure":
                bad.append(f"aggregate at {f.loc(b, i)}")
    for b, t in f.calls():
        cn = callee_name(t) or ""
        for a in t["args"]:
            if op_local(a, pure=True) in locs:
                if cn.endswith("next_power_of_two"):
                    continue
                bad.append(f"argument of {cn.split('::')[-1]} at {f.loc(b, 'T')}")
    return bad


def zero_batch_rule(ck, prog):
    """Z: a helper that turns an input size into a thread-derived number of batches (1 below a threshold, k * next_power_of_two(threads)
    above it) guarantees `size / batches >= 1` only for the size it was asked about. A caller that divides a DIFFERENT, smaller quantity
    by the result (rows of a matrix whose rows x segments was the size) gets a per-batch count of zero on a large pool: every batch
    copies nothing and, where the destination is an uninitialised vector, garbage is returned (genuine defect of the pinned tree in
    RowMatrix's transpose, repaired). Accepted: the dividend is the very value handed to the helper, or the divisor passes through
    min(.., dividend)."""
    from ..cfg import single_def
    n = 0
    for f in prog.fns.values():
        if not f.blocks or f.crate == "examples":
            continue
        g = None
        for b, t in f.calls():
            hs, precise = prog.resolve_call(t)
            if not (precise and len(hs) == 1 and len(t["args"]) == 1):
                continue
            h = hs[0]
            if h.crate != f.crate or (h.get("output") or "") != "usize" or (h.get("inputs") or []) != ["usize"]:
                continue
            if not any((callee_name(ht) or "").endswith("current_num_threads") for _, ht in h.calls()):
                continue
            if not any(ht2["k"] == "switch" for ht2 in (h.term(x) for x in range(len(h.blocks)))):
                continue
            # f calls a thresholded batch-count helper h(size)
            g = g or flow(f)
            size_root = _vroot(f, t["args"][0])
            dest = t["dest"]["l"]
            for bb, i, st in f.assigns():
                rv = st["rv"]
                if rv["k"] != "bin" or rv["op"] != "Div":
                    continue
                wd = g.walk(ops=[rv["b"]], at=(bb, i), through=lambda tt: True)
                if ("c", b) not in wd:
                    continue
                n += 1
                same = _vroot(f, rv["a"]) == size_root
                names = g.callee_names_in(wd)
                capped = False
                if any(x.endswith(("cmp::min", "Ord::min", "Ord::clamp")) for x in names):
                    for nd in wd:
                        if nd[0] == "c" and (callee_name(f.term(nd[1])) or "").endswith(("cmp::min", "Ord::min")):
                            capped = capped or any(_vroot(f, a) == _vroot(f, rv["a"]) for a in f.term(nd[1])["args"])
                ok = same or capped
                ck.ob("Z", f"{f.nname.split('::')[-1]}:per-batch-count#{n}", ok,
                      f"{f.nname.split('::')[-1]}: the quantity divided by {h.nname.split('::')[-1]}(size) is that size, or the batch count is capped by it",
                      loc=f.loc(bb, i),
                      detail=None if ok else "the dividend is a different (smaller) quantity than the size the helper was asked about: on a pool with more "
                                             "batches than that quantity the per-batch count is 0 and nothing is written")
    ck.floor("Z: divisions by a thresholded batch count", n, 1)


def _vroot(f, op, depth=0):
    from ..cfg import single_def
    c = op.get("const") if isinstance(op, dict) else None
    if c is not None:
        return ("const", c.get("scalar"))
    l = op_local(op, pure=True)
    if l is None or depth > 8:
        return ("?", repr(op))
    d = single_def(f, l)
    if d is None or d[1] == "T":
        return ("local", l)
    rv = d[2]["rv"]
    if rv["k"] == "use":
        return _vroot(f, rv["a"], depth + 1)
    return ("def", d[0], d[1])


def fragment_rule(ck, prog):
    """The constraint evaluation table is split into fragments that are evaluated in parallel; inside a fragment, row `i` of the fragment
    is row `i + fragment.offset()` of the domain. With one fragment (the serial build, and every test) the two coincide."""
    from ..flow import flow
    FRAG = "winter_prover::constraints::evaluation_table::EvaluationTableFragment"
    fns = [f for f in prog.fns.values() if f.crate == "winter_prover" and f.kind != "closure" and f.get("impl_self_adt") != FRAG
           and any(FRAG in (ty or "") for ty in (f.get("inputs") or []))]
    n = 0
    for f in fns:
        g = flow(f)
        uses_rows = any((callee_name(t) or "").endswith("EvaluationTableFragment::num_rows") for b, t in f.calls())
        if not uses_rows:
            continue
        ck.saw(f)
        for b, t in f.calls():
            cn = callee_name(t) or ""
            fr = t.get("fn") or {}
            if cn.startswith(("core::", "alloc::", "std::")) or fr.get("impl_self_adt") == FRAG or cn.endswith(("EvaluationTableFragment::update_row",
                                                                                                          "EvaluationTableFragment::update_transition_evaluations")):
                continue
            for k, a in enumerate(t["args"]):
                l = op_local(a)
                if l is None or f.local_ty(l) != "usize":
                    continue
                w = g.walk(ops=[a], at=(b, "T"))
                names = g.callee_names_in(w)
                local_idx = any(x.endswith("EvaluationTableFragment::num_rows") for x in names)
                if not local_idx and any(x.endswith("EvaluationTableFragment::offset") for x in names):
                    local_idx = True     # a running position started from fragment.offset(): a global position by construction
                if not local_idx:
                    # a running counter that starts from a constant inside the fragment evaluator (`let mut row = 0; .. row += 1`) is a
                    # fragment-local position as well: it restarts in every fragment
                    consts_only = not g.params_in(w) and not g.fields_in(w) and not [x for x in names if not x.startswith(("core::", "alloc::"))]
                    counts = any(nd[0] == "b" and str(nd[1]).startswith("Add") for nd in w)
                    if not (consts_only and counts):
                        continue
                n += 1
                ok = any(x.endswith("EvaluationTableFragment::offset") for x in names)
                ck.ob("F", f"{f.nname.split('::')[-1]}:{cn.split('::')[-1]}:arg{k}", ok,
                      f"{f.nname.split('::')[-1]}: the row position handed to {cn.split('::')[-1]} is the fragment-local index plus fragment.offset()",
                      loc=f.loc(b, "T"))
    ck.floor("global positions derived from fragment rows", n, 8)
