"""Number-theoretic facts about constants extracted from the source (engine E6). Python integers only."""
import math


def is_probable_prime(n):
    if n < 2:
        return False
    small = [2, 3, 5, 7, 11, 13, 17, 19, 23, 29, 31, 37, 41, 43, 47, 53, 59, 61, 67, 71, 73, 79, 83, 89, 97]
    for p in small:
        if n % p == 0:
            return n == p
    d = n - 1
    s = 0
    while d % 2 == 0:
        d //= 2
        s += 1
    for a in small:
        x = pow(a, d, n)
        if x in (1, n - 1):
            continue
        for _ in range(s - 1):
            x = x * x % n
            if x == n - 1:
                break
        else:
            return False
    return True


def pollard_rho(n):
    if n % 2 == 0:
        return 2
    for c in range(1, 200):
        x = y = 2
        d = 1
        f = lambda v: (v * v + c) % n
        while d == 1:
            x = f(x)
            y = f(f(y))
            d = math.gcd(abs(x - y), n)
        if d != n:
            return d
    raise ValueError("rho failed")


def factor(n):
    """prime factorisation {p: e}"""
    res = {}
    st = [n]
    while st:
        m = st.pop()
        if m == 1:
            continue
        if is_probable_prime(m):
            res[m] = res.get(m, 0) + 1
            continue
        for p in (2, 3, 5, 7, 11, 13, 17, 19, 23, 29, 31, 37):
            if m % p == 0:
                st.append(p)
                st.append(m // p)
                break
        else:
            d = pollard_rho(m)
            st.append(d)
            st.append(m // d)
    return res


def lucas_prime_proof(p, depth=0):
    """Prove p prime from the factorisation of p-1 (Lucas): exists g with g^(p-1)=1 and g^((p-1)/q)!=1 for all
    prime q | p-1, the q being proved prime recursively (small ones by trial division)."""
    if p < 10**6:
        if p < 2:
            return False
        i = 2
        while i * i <= p:
            if p % i == 0:
                return False
            i += 1
        return True
    if not is_probable_prime(p) or depth > 12:
        return False
    fs = factor(p - 1)
    for q in fs:
        if not lucas_prime_proof(q, depth + 1):
            return False
    for g in range(2, 200):
        if pow(g, p - 1, p) != 1:
            return False
        if all(pow(g, (p - 1) // q, p) != 1 for q in fs):
            return True
    return False


def order_is(g, n, p, factors_of_n):
    """g has multiplicative order exactly n modulo p (n | p-1, prime factors of n given)"""
    if pow(g, n, p) != 1:
        return False
    return all(pow(g, n // q, p) != 1 for q in factors_of_n)


def inv_mod(a, m):
    return pow(a, -1, m)


def poly_irreducible_deg2(c1, c0, p):
    """x^2 + c1 x + c0 irreducible over F_p  <=> discriminant is a non-residue"""
    disc = (c1 * c1 - 4 * c0) % p
    return disc != 0 and pow(disc, (p - 1) // 2, p) == p - 1


def polymulmod(a, b, mod, p):
    """multiply polynomials a,b (lists low->high) modulo monic `mod` over F_p"""
    res = [0] * (len(a) + len(b) - 1)
    for i, x in enumerate(a):
        if x:
            for j, y in enumerate(b):
                res[i + j] = (res[i + j] + x * y) % p
    d = len(mod) - 1
    for i in range(len(res) - 1, d - 1, -1):
        c = res[i]
        if c:
            for j in range(d + 1):
                res[i - d + j] = (res[i - d + j] - c * mod[j]) % p
    res = res[:d]
    while len(res) < d:
        res.append(0)
    return res


def polypowmod(base, e, mod, p):
    d = len(mod) - 1
    result = [1] + [0] * (d - 1)
    b = list(base) + [0] * (d - len(base))
    while e:
        if e & 1:
            result = polymulmod(result, b, mod, p)
        b = polymulmod(b, b, mod, p)
        e >>= 1
    return result


def poly_irreducible_deg3(mod, p):
    """monic cubic irreducible over F_p <=> no root in F_p <=> gcd(x^p - x, f) = 1; equivalently x^p != x mod f
    has no linear factor. For a cubic: irreducible iff it has no root iff x^p mod f is not congruent to x on any factor;
    test: x^(p^3) == x mod f and gcd(x^p - x, f) trivial (computed through resultant-free check on degrees)."""
    xp = polypowmod([0, 1], p, mod, p)
    # f has a root in F_p iff gcd(x^p - x, f) != 1
    g = polygcd([(xp[0]) % p, (xp[1] - 1) % p, xp[2] % p], list(mod), p)
    return len(g) == 1


def polygcd(a, b, p):
    def trim(x):
        x = list(x)
        while x and x[-1] % p == 0:
            x.pop()
        return x
    a, b = trim(a), trim(b)
    while b:
        # a mod b
        a = list(a)
        inv = pow(b[-1], -1, p)
        while len(a) >= len(b) and a:
            c = a[-1] * inv % p
            sh = len(a) - len(b)
            for i, y in enumerate(b):
                a[sh + i] = (a[sh + i] - c * y) % p
            a = trim(a)
        a, b = b, a
    return a if a else [0]
