"""MUST-GUARDS summaries (engine E2): which reject decisions does every accepting path of a function pass,
including those of callees whose call site is must-pass and whose error is propagated."""
from .cfg import S, T, exits, guards as local_guards, must_between, reach, single_def, Cond
from .flow import flow
from .ir import callee_name, op_local, op_place

RESULT_PREFIX = "core::result::Result<"


def accept_nodes(fn):
    """Nodes at which the return place is set to an accepting value."""
    ex = exits(fn)
    out = fn.get("output", "") or ""
    if out.startswith(RESULT_PREFIX) or out.startswith("core::option::Option<"):
        return [e.node for e in ex if e.kind in ("ok", "other", "call")]
    return [e.node for e in ex]


def must_pass(fn, node, targets):
    """'always' if every path entry->targets passes node; 'per-iteration' if node lies in a loop whose
    header is must-pass and every cycle through the header passes node; else None."""
    if not targets:
        return None
    ok, _ = must_between(fn, None, [node], targets)
    if ok:
        return "always"
    # loops: headers in the same SCC as node
    fwd = reach(fn, [node])
    best = None
    for b in range(len(fn.blocks)):
        h = (b, S)
        if h == node or h not in fwd:
            continue
        if node not in reach(fn, [h]):
            continue
        # h and node are on a common cycle. every cycle h->h must pass node:
        cyc_ok, _ = must_between(fn, [h], [node], [h], after_a=True)
        if not cyc_ok:
            continue
        hdr_ok, _ = must_between(fn, None, [h], targets)
        if hdr_ok:
            best = "per-iteration"
            break
    return best


class G:
    """One element of a MUST-GUARDS summary."""
    __slots__ = ("kind", "fn", "block", "cond", "errs", "strength", "chain", "callee", "call_term", "line", "via")

    def __init__(self, kind, fn, block, cond=None, errs=(), strength="always", chain=(), callee=None, call_term=None, via=()):
        self.kind = kind  # 'switch' | 'call'
        self.fn = fn
        self.block = block
        self.cond = cond
        self.errs = tuple(errs)
        self.strength = strength
        self.chain = tuple(chain)
        self.callee = callee
        self.call_term = call_term
        # call sites through which this decision was inherited, innermost first: ((caller fn, [(block, call terminator), ...]), ...)
        self.via = tuple(via)
        self.line = fn.line(block, "T")

    def loc(self):
        return self.fn.loc(self.block, "T")

    def __repr__(self):
        where = " <- ".join([self.fn.nname.split("::")[-1]] + [c.split("::")[-1] for c in reversed(self.chain)])
        if self.kind == "switch":
            return f"G[{self.strength}] {where}@{self.line}: reject iff {self.cond} -> {list(self.errs)}"
        return f"G[{self.strength}] {where}@{self.line}: propagates {self.callee} -> {list(self.errs)}"


def _closure_variant(prog, fn, t):
    """error variant constructed by a closure handed to map_err at call t (if any)"""
    for cid in fn.closure_args(t):
        cf = prog.fns.get(cid)
        if cf is None:
            continue
        for b, i, s in cf.assigns():
            rv = s["rv"]
            if rv["k"] == "agg" and rv.get("agg") == "adt" and rv["adt"].endswith("Error"):
                return rv["vn"]
    # a tuple-variant constructor passed as a function item: map_err(VerifierError::FriVerificationFailed)
    for a in t["args"]:
        c = a.get("const")
        if c and "fn" in c:
            return c["fn"]["name"].split("::")[-1]
    return None


def derived_result_locals(prog, fn, b):
    """Locals carrying (a transformation of) the Result produced by the call ending block b, with the
    error variant it is mapped to (if map_err is applied)."""
    t = fn.term(b)
    d = t["dest"]
    if "p" in d:
        return set(), None, False
    cur = {d["l"]}
    mapped = None
    tail = d["l"] == 0
    changed = True
    while changed:
        changed = False
        for bb, i, s in fn.assigns():
            if "p" in s["lhs"]:
                continue
            rv = s["rv"]
            if rv["k"] == "use":
                src = op_local(rv["a"], pure=True)
                if src in cur and s["lhs"]["l"] not in cur:
                    cur.add(s["lhs"]["l"])
                    changed = True
                    if s["lhs"]["l"] == 0:
                        tail = True
        for bb, tt in fn.calls():
            cn = callee_name(tt) or ""
            if cn.endswith(("Result::map_err", "Try::branch", "Result::map", "Result::and_then", "Option::ok_or", "Option::ok_or_else")):
                src = op_local(tt["args"][0], pure=True) if tt["args"] else None
                dl = tt["dest"]["l"]
                if src in cur and dl not in cur:
                    cur.add(dl)
                    changed = True
                    if cn.endswith("Result::map_err"):
                        mapped = _closure_variant(prog, fn, tt) or mapped
                    if dl == 0:
                        tail = True
    return cur, mapped, tail


def err_propagated(prog, fn, b, accept):
    """(propagated?, mapped error variant) for the Result returned by the call ending block b."""
    cur, mapped, tail = derived_result_locals(prog, fn, b)
    if not cur:
        return False, None
    if tail:
        return True, mapped
    accept = set(accept)
    for sb, blk in enumerate(fn.blocks):
        t = blk["t"]
        if t["k"] != "switch":
            continue
        dl = op_local(t["d"], pure=True)
        if dl is None:
            continue
        sd = single_def(fn, dl)
        if sd is None:
            continue
        if sd[1] == "T":
            # `if r.is_err() { return Err(..) }` / `if !r.is_ok() ..`: a boolean query of the (derived) result
            ct = sd[2]
            cn = callee_name(ct) or ""
            if not cn.endswith(("Result::is_err", "Result::is_ok")) or not ct.get("args"):
                continue
            al = op_local(ct["args"][0])
            from .flow import flow as _flow
            refs = _flow(fn).ref_of.get(al, set()) | {al}
            if not (refs & set(cur)):
                continue
        else:
            rv = sd[2]["rv"]
            if rv["k"] != "discr" or rv["p"]["l"] not in cur:
                continue
        # a switch on the discriminant of the (derived) result
        edges = [tb for _, tb in t["targets"]] + [t["otherwise"]]
        rej = [tb for tb in edges if not (accept & reach(fn, [(tb, S)]))]
        if not rej:
            continue
        ok, _ = must_between(fn, [(b, T)], [(sb, T)], accept)
        if ok:
            if mapped is None:
                # the error the rejection is turned into: `match r { Err(_) => return Err(X) }`, `if r.is_err() { return Err(X) }`
                vs = set()
                for tb in rej:
                    r_ = reach(fn, [(tb, S)])
                    for e in exits(fn):
                        if e.kind == "err" and e.node in r_ and e.variant and e.variant != "?":
                            vs.add(e.variant)
                if len(vs) == 1:
                    mapped = vs.pop()
            return True, mapped
    return False, mapped


class MustGuards:
    def __init__(self, prog, max_depth=6, skip_crates=("examples",)):
        self.prog = prog
        self.max_depth = max_depth
        self.skip_crates = skip_crates
        self.cache = {}

    def of(self, fn, _stack=()):
        if fn.id in self.cache:
            return self.cache[fn.id]
        if fn.id in _stack or len(_stack) >= self.max_depth:
            return []
        res = []
        acc = accept_nodes(fn)
        for g in local_guards(fn, okset=set(acc)):
            st = must_pass(fn, (g.block, T), acc)
            if st is None:
                continue
            errs = []
            for e in g.errs:
                v = e.variant
                if v == "?":
                    v = self._residual_variant(fn, e)
                errs.append(v)
            res.append(G("switch", fn, g.block, cond=g.cond, errs=errs, strength=st))
        # call sites grouped by callee: the sites of one callee in different match arms are
        # alternatives that dominate acceptance collectively
        groups = {}
        for b, t in fn.calls():
            dty = t.get("dest_ty", "")
            if not dty.startswith(RESULT_PREFIX):
                continue
            cn = callee_name(t)
            if cn is None:
                continue
            # conversion traits forward to different impls depending on their type arguments
            targs = tuple(t["fn"].get("targs", [])) if cn.startswith("core::convert::") else ()
            groups.setdefault((cn, targs), []).append((b, t))
        for (cn, _targs), sites in groups.items():
            cands, precise = self.prog.resolve_call(sites[0][1])
            cands = [c for c in cands if c.crate not in self.skip_crates and c.kind != "closure"]
            props = []
            for b, t in sites:
                prop, mapped = err_propagated(self.prog, fn, b, acc)
                if prop:
                    props.append((b, t, mapped))
            if not props:
                continue
            if len(props) == 1:
                st = must_pass(fn, (props[0][0], T), acc)
            else:
                ok, _ = must_between(fn, None, [(b, T) for b, _, _ in props], acc)
                st = "always" if ok else None
            if st is None:
                continue
            for b, t, mapped in props:
                res.append(G("call", fn, b, errs=[mapped] if mapped else [], strength=st,
                             callee=cn, call_term=t))
            if not cands:
                continue
            subs = [self.of(c, _stack + (fn.id,)) for c in cands]
            if len(subs) == 1:
                inherited = subs[0]
            else:
                keys = [set((g.kind, g.errs, g.callee) for g in s_) for s_ in subs]
                common = set.intersection(*keys) if keys else set()
                inherited = [g for g in subs[0] if (g.kind, g.errs, g.callee) in common]
            for g in inherited:
                st2 = g.strength if st == "always" else "per-iteration"
                res.append(G(g.kind, g.fn, g.block, cond=g.cond, errs=g.errs, strength=st2,
                             chain=g.chain + (fn.nname,), callee=g.callee, call_term=g.call_term,
                             via=g.via + ((fn, [(b, t) for b, t, _ in props]),)))
        self.cache[fn.id] = res
        return res

    def _residual_variant(self, fn, e):
        """error variant behind a `?` exit: the map_err closure's variant, or the callee name"""
        b = e.node[0]
        t = fn.term(b)
        # from_residual(arg) <- downcast of Try::branch result <- (map_err <-) call
        fl = flow(fn)
        sl = fl.walk(ops=t["args"], at=(b, T), through=lambda tt: (callee_name(tt) or "").endswith(("Try::branch", "Result::map_err")))
        names = []
        for bb, tt in fl.calls_in(sl):
            cn = callee_name(tt) or ""
            if cn.endswith("Result::map_err"):
                v = _closure_variant(self.prog, fn, tt)
                if v:
                    return v
            elif not cn.endswith("Try::branch"):
                names.append(cn)
        return "?" + (names[0] if names else "")
