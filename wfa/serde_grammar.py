"""Engine E7: token grammar of Serializable::write_into / Deserializable::read_from bodies.

A token is (kind, detail, ctx):
  kind 'fixed'  detail = number of bytes            (write_u8.., read_u16.., fixed-size arrays)
       'vint'   variable-length usize
       'bytes'  detail = None                        (variable-length byte string; length token precedes it)
       'T'      detail = type string                 (nested value of a (de)serializable type)
       'T*'     detail = type string                 (repetition of nested values: write_many/read_many or a loop)
  ctx  'seq' | 'loop' | 'cond'
Consecutive fixed tokens of the same context are merged by total width (an ElementDigest writes one
32-byte array and reads four u64s — the same 32 bytes).
"""
import re

from .cfg import S, T, reach, must_between
from .flow import flow
from .ir import callee_name, op_local

BW = "winter_utils::serde::byte_writer::ByteWriter"
BRD = "winter_utils::serde::byte_reader::ByteReader"
SER = "winter_utils::serde::Serializable"
DES = "winter_utils::serde::Deserializable"

FIXED = {"u8": 1, "bool": 1, "u16": 2, "u32": 4, "u64": 8, "u128": 16}


def rpo(fn):
    seen = set()
    order = []

    def dfs(b):
        stack = [(b, iter(fn.succ[b]))]
        seen.add(b)
        while stack:
            x, it = stack[-1]
            adv = False
            for s in it:
                if s not in seen:
                    seen.add(s)
                    stack.append((s, iter(fn.succ[s])))
                    adv = True
                    break
            if not adv:
                order.append(x)
                stack.pop()
    dfs(0)
    order.reverse()
    return {b: i for i, b in enumerate(order)}


def in_loop(fn, b):
    return (b, S) in reach(fn, [(b, T)], include_starts=False)


def array_len_of_arg(fn, g, op, at):
    """If the byte-slice operand is a view of a fixed-size array `[u8; N]`, return N."""
    l = op_local(op)
    if l is None:
        return None
    cands = {l} | set(g.ref_of.get(l, ()))
    w = g.walk(ops=[op], at=at, through=lambda t: True)
    total = None
    for n in w:
        if n[0] == "c":
            t = fn.term(n[1])
            m = re.search(r"\[u8; (\d+)\]", t.get("dest_ty", ""))
            if m:
                total = int(m.group(1))
    for n in w:
        if n[0] == "c" and (callee_name(fn.term(n[1])) or "").endswith(("Index::index", "IndexMut::index_mut")):
            t = fn.term(n[1])
            rl = op_local(t["args"][1], pure=True)
            if rl is None:
                continue
            for (bb, ii, ss) in fn.defs.get(rl, []):
                if ii != "T" and ss["k"] == "assign" and ss["rv"]["k"] == "agg" and ss["rv"].get("agg") == "adt":
                    vals = [int(o["const"]["scalar"]) if "const" in o and "scalar" in o["const"] else None for o in ss["rv"]["ops"]]
                    adt = ss["rv"]["adt"]
                    if adt.endswith("RangeTo") and vals and vals[0] is not None:
                        return vals[0]
                    if adt.endswith("::Range") and len(vals) == 2 and None not in vals:
                        return vals[1] - vals[0]
                    if adt.endswith("RangeFrom") and vals and vals[0] is not None and total:
                        return total - vals[0]
    for n in w:
        if n[0] == "c":
            t = fn.term(n[1])
            m = re.search(r"\[u8; (\d+)\]", t.get("dest_ty", ""))
            if m:
                return int(m.group(1))
    for c in cands:
        m = re.match(r"^&?\[u8; (\d+)\]$", fn.local_ty(c))
        if m:
            return int(m.group(1))
    return None


def nested_type(prog, t):
    f = t["fn"]
    res = f.get("resolved")
    if res and res in prog.fns:
        return prog.fns[res].get("impl_self") or "?"
    ta = f.get("targs") or []
    return ta[0] if ta else "?"


def tokens(prog, fn, side):
    """side = 'w' (write_into: stream is arg 2) or 'r' (read_from: stream is arg 1)"""
    g = flow(fn)
    order = rpo(fn)
    stream_param = 2 if side == "w" else 1
    acc = [(b, T) for b, blk in enumerate(fn.blocks) if blk["t"]["k"] == "return"]
    toks = []
    for b, t in fn.calls():
        f = t.get("fn")
        if not f:
            continue
        item = f.get("item")
        tr = f.get("trait")
        kind = None
        detail = None
        if side == "w":
            if tr == BW:
                if item in ("write_u8", "write_bool", "write_u16", "write_u32", "write_u64", "write_u128"):
                    kind, detail = "fixed", FIXED[item[6:]] if item != "write_bool" else 1
                elif item == "write_usize":
                    kind = "vint"
                elif item == "write_bytes":
                    n = array_len_of_arg(fn, g, t["args"][1], (b, T))
                    kind, detail = ("fixed", n) if n else ("bytes", None)
                elif item == "write":
                    kind, detail = "T", (f.get("targs") or ["?", "?"])[-1]
                elif item == "write_many":
                    kind, detail = "T*", "?"
            elif tr == SER and item == "write_into":
                kind, detail = "T", nested_type(prog, t)
        else:
            if tr == BRD:
                if item in ("read_u8", "read_bool", "read_u16", "read_u32", "read_u64", "read_u128"):
                    kind, detail = "fixed", FIXED[item[5:]] if item != "read_bool" else 1
                elif item == "read_usize":
                    kind = "vint"
                elif item in ("read_vec", "read_slice", "read_string"):
                    kind = "bytes"
                elif item == "read_array":
                    m = re.search(r"(\d+)", " ".join(f.get("targs", [])[1:]) or "")
                    kind, detail = "fixed", int(m.group(1)) if m else None
                    if detail is None:
                        kind = "bytes"
                elif item == "read":
                    kind, detail = "T", (f.get("targs") or ["?", "?"])[-1]
                elif item == "read_many":
                    kind, detail = "T*", "?"
            elif tr == DES and item == "read_from":
                kind, detail = "T", nested_type(prog, t)
        if kind is None:
            # a private helper the stream is handed to (`read_length_prefixed(source)`, `write_header(target)`): its own grammar is spliced in
            h = _stream_helper(prog, fn, t, side)
            if h is not None:
                kind, detail = "H", h
        if kind is None:
            continue
        ctx = "loop" if in_loop(fn, b) else ("seq" if must_between(fn, None, [(b, T)], acc)[0] else "cond")
        toks.append((order.get(b, 10**6), kind, detail, ctx, b))
    toks.sort()
    return [(k, d, c, b) for _, k, d, c, b in toks]


_helper_cache = {}


def _stream_helper(prog, fn, t, side, depth=0):
    """the workspace function called at t if it (transitively) performs reads/writes on a stream it receives, else None"""
    f = t.get("fn") or {}
    if f.get("trait") in (BW, BRD, SER, DES):
        return None
    res = f.get("resolved") or f.get("def")
    h = prog.fns.get(res)
    if h is None or h.crate == "examples" or h is fn or h.kind == "closure":
        return None
    key = (h.id, side)
    if key not in _helper_cache:
        _helper_cache[key] = False  # recursion guard
        stream_arg = any(("ByteReader" in ty or "ByteWriter" in ty or ty.startswith("&mut R") or ty.startswith("&mut W") or ty in ("&mut R", "&mut W"))
                         for ty in (h.get("inputs") or []))
        has = False
        if stream_arg and depth < 4:
            for b2, t2 in h.calls():
                f2 = t2.get("fn") or {}
                if f2.get("trait") in ((BW, SER) if side == "w" else (BRD, DES)):
                    has = True
                    break
                if _stream_helper(prog, h, t2, side, depth + 1) is not None:
                    has = True
                    break
        _helper_cache[key] = has
    return h if _helper_cache[key] else None


PRIM = {"u8": ("fixed", 1), "bool": ("fixed", 1), "u16": ("fixed", 2), "u32": ("fixed", 4), "u64": ("fixed", 8), "u128": ("fixed", 16),
        "usize": ("vint", None)}


def path_sequences(prog, fn, side, max_paths=4000):
    """Set of token sequences, one per acyclic path from entry to an accepting exit. Loop bodies are traversed at most once
    and their tokens are marked as repetitions."""
    from .guards import accept_nodes
    g = flow(fn)
    tokmap = {}
    helpers = {}
    for k, d, c, b in tokens(prog, fn, side):
        if k == "H":
            alts = path_sequences(prog, d, side, max_paths)
            mark = "loop" if c == "loop" else ""
            helpers[b] = [tuple((kk, dd, (cc or mark)) for kk, dd, cc in alt) for alt in alts] or [()]
            continue
        if k == "T" and d in PRIM:
            k, d = PRIM[d]
        if k == "T" and c == "loop":
            k = "T*"
        tokmap[b] = (k, d if k not in ("T", "T*") else None, "loop" if (c == "loop" and k != "T*") else "")
    if side == "r":
        acc = {n[0] for n in accept_nodes(fn)}
    else:
        acc = {b for b, blk in enumerate(fn.blocks) if blk["t"]["k"] == "return"}
    # blocks from which an accepting block is reachable
    useful = set()
    for b in range(len(fn.blocks)):
        r = reach(fn, [(b, S)])
        if any((a, S) in r for a in acc):
            useful.add(b)
    out = set()
    count = [0]

    def dfs(b, seq, visited, first):
        if count[0] > max_paths:
            raise RuntimeError("too many paths")
        if b in helpers and first:
            alts = helpers[b]
            if len(alts) > 1:
                for alt in alts[1:]:
                    dfs_after(b, seq + alt, visited)
            seq = seq + alts[0]
        if b in tokmap and first:
            seq = seq + (tokmap[b],)
        if b in acc:
            out.add(seq)
            count[0] += 1
            return
        for s in fn.succ[b]:
            if s not in useful:
                continue
            c = visited.get(s, 0)
            if c >= 2:
                continue
            nv = dict(visited)
            nv[s] = c + 1
            dfs(s, seq, nv, c == 0)
    def dfs_after(b, seq, visited):
        """continue from block b (its own tokens already appended)"""
        if b in acc:
            out.add(seq)
            count[0] += 1
            return
        for s in fn.succ[b]:
            if s not in useful:
                continue
            c = visited.get(s, 0)
            if c >= 2:
                continue
            nv = dict(visited)
            nv[s] = c + 1
            dfs(s, seq, nv, c == 0)
    dfs(0, (), {0: 1}, True)
    return maximal({tuple(_merge(seq)) for seq in out})


def _without_optional(seq):
    """all sequences obtained by deleting optional tokens (T*, bytes, loop-marked) from seq"""
    res = {tuple(seq)}
    for i, (k, d, c) in enumerate(seq):
        if k in ("T*", "bytes") or c:
            rest = tuple(seq[:i] + seq[i + 1:])
            res |= {tuple(_merge(list(x))) for x in _without_optional(list(rest))}
    return res


def maximal(seqs):
    seqs = set(seqs)
    covered = set()
    for a in seqs:
        for b in _without_optional(list(a)):
            if b != tuple(_merge(list(a))) and b in seqs:
                covered.add(b)
    return seqs - covered


def _merge(seq):
    res = []
    for k, d, c in seq:
        if k == "fixed" and res and res[-1][0] == "fixed" and res[-1][2] == c and d is not None and res[-1][1] is not None:
            res[-1] = ("fixed", res[-1][1] + d, c)
        else:
            res.append((k, d, c))
    return res


def show_seq(seq):
    return " ".join(f"{k}{'' if d is None else ':' + str(d)}{'' if not c else '*'}" for k, d, c in seq) or "(nothing)"


def merge_fixed(toks):
    out = []
    for k, d, c, b in toks:
        if k == "fixed" and out and out[-1][0] == "fixed" and out[-1][2] == c and d is not None and out[-1][1] is not None:
            out[-1] = ("fixed", out[-1][1] + d, c, out[-1][3])
        else:
            out.append((k, d, c, b))
    return out


def shape(toks):
    """comparable shape: nested types are compared by kind only when generic"""
    res = []
    for k, d, c, b in merge_fixed(toks):
        if k in ("T", "T*"):
            res.append((k, c))
        else:
            res.append((k, d, c))
    return res


def show(toks):
    return " ".join(f"{k}{'' if d is None else ':' + str(d).split('::')[-1]}{'' if c == 'seq' else '[' + c + ']'}" for k, d, c, b in merge_fixed(toks))
