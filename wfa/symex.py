"""Path-wise symbolic expression extraction for small loop-free functions (engine E5, integer part).

Every acyclic path from entry to return is walked; locals are bound to expression trees
  ('p', name) | ('k', int|str) | ('call', callee, (args...)) | ('op', opname, (a, b)) | ('cast', to, a)
  | ('field', adt, name, base) | ('un', op, a)
Checked arithmetic (`AddWithOverflow` + `.0`), saturating_*/wrapping_*/checked_* calls and plain
operators are normalised to the same operator: on the domain where no overflow occurs they agree, and
overflow is the business of the range analysis, not of formula conformance.
`min`/`max`/`+`/`*` are flattened and sorted (associative-commutative normal form).
"""
from .ir import callee_name, op_place

AC = {"add", "mul", "min", "max", "and", "or"}
OPMAP = {
    "Add": "add", "AddWithOverflow": "add", "AddUnchecked": "add", "Sub": "sub", "SubWithOverflow": "sub",
    "SubUnchecked": "sub", "Mul": "mul", "MulWithOverflow": "mul", "MulUnchecked": "mul", "Div": "div",
    "Rem": "rem", "Shl": "shl", "Shr": "shr", "BitAnd": "and", "BitOr": "or", "BitXor": "xor",
    "Lt": "lt", "Le": "le", "Gt": "gt", "Ge": "ge", "Eq": "eq", "Ne": "ne",
}
CALLMAP = {
    "core::cmp::min": "min", "core::cmp::max": "max", "core::cmp::Ord::min": "min", "core::cmp::Ord::max": "max",
}
NUM_SUFFIX = {
    "saturating_sub": "sub", "wrapping_sub": "sub", "saturating_add": "add", "wrapping_add": "add",
    "saturating_mul": "mul", "wrapping_mul": "mul",
}


class TooComplex(Exception):
    pass


def norm(e):
    if not isinstance(e, tuple):
        return e
    if e[0] == "op":
        op = e[1]
        args = [norm(a) for a in e[2]]
        if op in AC:
            flat = []
            for a in args:
                if isinstance(a, tuple) and a[0] == "op" and a[1] == op:
                    flat.extend(a[2])
                else:
                    flat.append(a)
            flat.sort(key=repr)
            return ("op", op, tuple(flat))
        return ("op", op, tuple(args))
    if e[0] == "call":
        return ("call", e[1], tuple(norm(a) for a in e[2]))
    if e[0] == "cast":
        return norm(e[2])  # integer widenings are value-preserving on the admissible domain
    if e[0] == "un":
        return ("un", e[1], norm(e[2]))
    if e[0] == "field":
        return ("field", e[1], e[2], norm(e[3]))
    return e


def show(e):
    if not isinstance(e, tuple):
        return str(e)
    if e[0] == "p":
        return f"arg{e[1]}" if isinstance(e[1], int) else e[1]
    if e[0] == "k":
        return str(e[1])
    if e[0] == "op":
        return f"{e[1]}({', '.join(show(a) for a in e[2])})"
    if e[0] == "call":
        return f"{e[1].split('::')[-1]}({', '.join(show(a) for a in e[2])})"
    if e[0] == "field":
        return f"{show(e[3])}.{e[2]}"
    if e[0] == "un":
        return f"{e[1]}({show(e[2])})"
    return repr(e)


def _loop_assigned(fn):
    """block -> locals assigned anywhere in the strongly connected component (loop) the block belongs to"""
    succ = fn.succ
    n = len(fn.blocks)
    reach_ = {}

    def fwd(b):
        if b in reach_:
            return reach_[b]
        seen, st = set(), [b]
        while st:
            x = st.pop()
            for y in succ[x]:
                if y not in seen:
                    seen.add(y)
                    st.append(y)
        reach_[b] = seen
        return seen
    res = {}
    for b in range(n):
        if b not in fwd(b):
            continue
        scc = [x for x in fwd(b) if b in fwd(x)]
        ls = set()
        for x in scc:
            for s_ in fn.blocks[x]["s"]:
                if s_["k"] == "assign":
                    ls.add(s_["lhs"]["l"])
            t_ = fn.blocks[x]["t"]
            if t_["k"] == "call":
                ls.add(t_["dest"]["l"])
        res[b] = ls
    return res


def paths(fn, max_paths=64, max_len=400, skip_loops=False, havoc_loops=False):
    """Yield (conds, result_expr) for each acyclic entry->return path. conds = [(expr, taken_value)].
    skip_loops: paths that run into a loop are dropped instead of making the whole function TooComplex (the caller selects the
    loop-free region it is interested in by the path conditions).
    havoc_loops (with skip_loops): on entering a loop every local the loop assigns becomes an unknown named after the local, so the path
    that leaves the loop carries `what the loop computed` as a symbol instead of the value before the first iteration."""
    out = []
    loop_ls = _loop_assigned(fn) if havoc_loops else {}

    def op_expr(env, op):
        p = op_place(op)
        if p is not None:
            l = p["l"]
            base = env.get(l, ("p", l) if 1 <= l <= fn.arg_count else ("p", fn.local_name(l) or f"_{l}"))
            e = base
            for pr in p.get("p", []):
                if pr == "deref":
                    continue
                if isinstance(pr, dict) and "f" in pr:
                    if isinstance(e, tuple) and e[0] == "pair":
                        e = e[1][pr["f"]] if pr["f"] < len(e[1]) else ("k", "?")
                    else:
                        e = ("field", pr.get("of"), pr.get("n") or str(pr["f"]), e)
                elif isinstance(pr, dict) and "down" in pr:
                    e = ("un", "as_" + pr.get("vn", ""), e)
                else:
                    e = ("un", "proj", e)
            return e
        c = op.get("const")
        if c is not None:
            if "scalar" in c:
                return ("k", int(c["scalar"]))
            if "def" in c:
                return ("k", c.get("def_name", c["def"]))
            return ("k", c.get("ty", "?"))
        return ("k", "?")

    def rv_expr(env, rv):
        k = rv["k"]
        if k == "use":
            return op_expr(env, rv["a"])
        if k == "bin":
            op = OPMAP.get(rv["op"], rv["op"])
            e = ("op", op, (op_expr(env, rv["a"]), op_expr(env, rv["b"])))
            if rv["op"].endswith("WithOverflow"):
                return ("pair", (e, ("k", 0)))
            return e
        if k == "cast":
            return ("cast", rv["to"], op_expr(env, rv["a"]))
        if k == "un":
            return ("un", rv["op"], op_expr(env, rv["a"]))
        if k == "ref":
            return op_expr(env, {"copy": rv["p"]})
        if k == "agg":
            return ("pair", tuple(op_expr(env, o) for o in rv["ops"]))
        if k == "discr":
            return ("un", "discr", op_expr(env, {"copy": rv["p"]}))
        return ("k", "?")

    def walk(b, env, conds, visited, depth):
        if len(out) >= max_paths:
            raise TooComplex("too many paths")
        if b in visited:
            if skip_loops:
                return
            raise TooComplex("loop")
        if depth > max_len:
            raise TooComplex("path too long")
        visited = visited | {b}
        env = dict(env)
        if b in loop_ls and not any(x in loop_ls and loop_ls[x] is loop_ls[b] or (x in loop_ls and loop_ls[x] == loop_ls[b]) for x in visited - {b}):
            for l_ in loop_ls[b]:
                env[l_] = ("p", "loop:" + (fn.local_name(l_) or f"_{l_}"))
        blk = fn.blocks[b]
        for s in blk["s"]:
            if s["k"] == "assign":
                lhs = s["lhs"]
                e = rv_expr(env, s["rv"])
                if "p" not in lhs:
                    env[lhs["l"]] = e
                else:
                    env[lhs["l"]] = ("un", "upd", e)
        t = blk["t"]
        k = t["k"]
        if k == "return":
            out.append((list(conds), env.get(0, ("k", "unit"))))
            return
        if k == "goto":
            return walk(t["target"], env, conds, visited, depth + 1)
        if k in ("assert", "drop"):
            return walk(t["target"], env, conds, visited, depth + 1)
        if k == "call":
            cn = callee_name(t) or "indirect"
            args = tuple(op_expr(env, a) for a in t["args"])
            name = CALLMAP.get(cn)
            last = cn.split("::")[-1]
            if name:
                e = ("op", name, args)
            elif cn.startswith("core::num::") and last in NUM_SUFFIX:
                e = ("op", NUM_SUFFIX[last], args)
            else:
                e = ("call", cn, args)
            d = t["dest"]
            if "p" not in d:
                env[d["l"]] = e
            if t.get("target") is None:
                return  # diverges (panic)
            return walk(t["target"], env, conds, visited, depth + 1)
        if k == "switch":
            d = op_expr(env, t["d"])
            for v, tb in t["targets"]:
                walk(tb, env, conds + [(d, v)], visited, depth + 1)
            walk(t["otherwise"], env, conds + [(d, "else:" + ",".join(v for v, _ in t["targets"]))], visited, depth + 1)
            return
        return  # unreachable / resume

    walk(0, {}, [], frozenset(), 0)
    return [(c, norm(r)) for c, r in out]


def canon_cond(expr, value):
    """Comparison condition with the branch value -> ('lt', a, b, truth) canonical fact (or None)."""
    e = norm(expr)
    truth = None
    if value == "0":
        truth = False
    elif isinstance(value, str) and value.startswith("else:") and value[5:] == "0":
        truth = True
    elif value == "1":
        truth = True
    if truth is None or not (isinstance(e, tuple) and e[0] == "op" and e[1] in ("lt", "le", "gt", "ge", "eq", "ne")):
        return ("raw", e, value)
    op, (a, b) = e[1], e[2]
    if op == "lt":
        return ("lt", a, b, truth)
    if op == "ge":
        return ("lt", a, b, not truth)
    if op == "gt":
        return ("lt", b, a, truth)
    if op == "le":
        return ("lt", b, a, not truth)
    if op == "eq":
        return ("eq",) + tuple(sorted((a, b), key=repr)) + (truth,)
    return ("eq",) + tuple(sorted((a, b), key=repr)) + (not truth,)
