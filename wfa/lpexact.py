"""A small exact linear-programming routine (two-phase simplex over Fractions, Bland's rule) for the polyhedral side conditions of
engine E5b: bounds of a linear form subject to the path's linear facts, the atoms' intervals and the defining equations of limb atoms.
Problems have a handful of variables; nothing here is tuned for size."""
from fractions import Fraction as F


def _pivot(T, basis, r, c):
    pr = T[r]
    pv = pr[c]
    T[r] = [v / pv for v in pr]
    pr = T[r]
    for i, row in enumerate(T):
        if i != r and row[c] != 0:
            f = row[c]
            T[i] = [a - f * b for a, b in zip(row, pr)]
    basis[r] = c


def _run(T, basis, obj, allowed):
    """minimise obj (a row over the columns, last entry = -value) by pivoting; 'opt' | 'unbounded'"""
    # make the objective row consistent with the basis
    for r, bc in enumerate(basis):
        if obj[bc] != 0:
            f = obj[bc]
            obj = [a - f * b for a, b in zip(obj, T[r])]
    for _ in range(10000):
        c = next((j for j in allowed if obj[j] < 0), None)
        if c is None:
            return "opt", obj
        best, br = None, None
        for r, row in enumerate(T):
            if row[c] > 0:
                q = row[-1] / row[c]
                if best is None or q < best or (q == best and basis[r] < basis[br]):
                    best, br = q, r
        if br is None:
            return "unbounded", obj
        _pivot(T, basis, br, c)
        f = obj[c]
        obj = [a - f * b for a, b in zip(obj, T[br])]
    raise RuntimeError("simplex did not terminate")


def lp_min(c, A_ub, b_ub, A_eq, b_eq):
    """min c.y  s.t.  A_ub y <= b_ub, A_eq y = b_eq, y >= 0.  -> ('opt', value) | ('infeasible', None) | ('unbounded', None)"""
    n = len(c)
    m_ub, m_eq = len(A_ub), len(A_eq)
    m = m_ub + m_eq
    total = n + m_ub + m
    T = []
    for i in range(m_ub):
        row = [F(0)] * (total + 1)
        for j, v in enumerate(A_ub[i]):
            row[j] = F(v)
        row[n + i] = F(1)
        row[-1] = F(b_ub[i])
        if row[-1] < 0:
            row = [-v for v in row]
        T.append(row)
    for i in range(m_eq):
        row = [F(0)] * (total + 1)
        for j, v in enumerate(A_eq[i]):
            row[j] = F(v)
        row[-1] = F(b_eq[i])
        if row[-1] < 0:
            row = [-v for v in row]
        T.append(row)
    basis = []
    for i in range(m):
        T[i][n + m_ub + i] = F(1)
        basis.append(n + m_ub + i)
    if m:
        obj = [F(0)] * (total + 1)
        for j in range(n + m_ub, total):
            obj[j] = F(1)
        st, obj = _run(T, basis, obj, list(range(total)))
        if -obj[-1] > 0:
            return "infeasible", None
        # drive artificials out of the basis where possible
        for r in range(m):
            if basis[r] >= n + m_ub:
                c2 = next((j for j in range(n + m_ub) if T[r][j] != 0), None)
                if c2 is not None:
                    _pivot(T, basis, r, c2)
    obj = [F(0)] * (total + 1)
    for j, v in enumerate(c):
        obj[j] = F(v)
    st, obj = _run(T, basis, obj, list(range(n + m_ub)))
    if st == "unbounded":
        return "unbounded", None
    return "opt", -obj[-1]
