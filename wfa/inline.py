"""MIR-level inlining of private helper functions.

A rule that reads one function (its CFG, its guards, its data flow) must not change its verdict when a maintainer moves a few lines of
that function into a private helper and calls it. `inline(prog, fn)` returns a synthetic function in which every call that resolves
precisely to a *private helper* — same crate, not `pub`, not a trait-impl method, not a closure, not recursive — is replaced by the
helper's body: the helper's locals are appended (renumbered), its parameters are assigned from the call's arguments, its blocks are
appended (renumbered), every `return` becomes an assignment of the helper's result to the call's destination followed by a jump to the
call's continuation. The helper's parameters are then ordinary locals of the caller, so backward slices continue into the caller's
arguments by themselves. Public functions and trait methods keep being summarised (MUST-GUARDS inheritance, return summaries).
"""
import copy

from .ir import Fn

MAX_BLOCKS = 2500


def _remap(x, off_l, off_b):
    """deep copy with locals shifted by off_l; block targets are handled by the caller"""
    if isinstance(x, dict):
        out = {}
        for k, v in x.items():
            if k in ("l", "idx") and isinstance(v, int) and not isinstance(v, bool):
                out[k] = v + off_l
            else:
                out[k] = _remap(v, off_l, off_b)
        return out
    if isinstance(x, list):
        return [_remap(v, off_l, off_b) for v in x]
    return x


def _shift_targets(t, off_b):
    k = t["k"]
    if k == "goto":
        t["target"] += off_b
    elif k == "switch":
        t["targets"] = [[v, tb + off_b] for v, tb in t["targets"]]
        t["otherwise"] += off_b
    elif k in ("call", "assert", "drop"):
        if t.get("target") is not None:
            t["target"] += off_b
    if "unwind" in t:
        t["unwind"] = None
    return t


def is_private_helper(prog, caller, callee):
    if callee is None or callee.kind == "closure" or not callee.blocks:
        return False
    if callee.crate != caller.crate or callee.crate == "examples":
        return False
    if callee.get("vis") == "pub" or callee.get("impl_trait") or callee.get("in_trait"):
        return False
    return True


def inline(prog, fn, depth=3, eligible=None):
    eligible = eligible or is_private_helper
    d = copy.deepcopy(fn.d)
    d["id"] = fn.id + "#inl"
    blocks = d["blocks"]
    locals_ = d["locals"]
    stack_of = {b: () for b in range(len(blocks))}   # helper ids whose body the block was copied from
    inlined = []
    progress = True
    rounds = 0
    while progress and rounds < depth:
        progress = False
        rounds += 1
        for b in range(len(blocks)):
            t = blocks[b]["t"]
            if t["k"] != "call" or len(blocks) > MAX_BLOCKS:
                continue
            f = t.get("fn") or {}
            cid = f.get("resolved") if f.get("trait") else f.get("def")
            if f.get("trait") and not f.get("resolved"):
                continue
            h = prog.fns.get(cid)
            if h is None or h.id == fn.id or h.id in stack_of[b] or not eligible(prog, fn, h):
                continue
            if "p" in t["dest"] and t["dest"]["p"] and t["dest"]["p"][0] != "deref" and False:
                continue
            off_l, off_b = len(locals_), len(blocks)
            for lc in h.locals:
                locals_.append(dict(lc))
            nb = len(h.blocks)
            pro, epi = off_b + nb, off_b + nb + 1
            for hb in h.blocks:
                nblk = {"s": _remap(hb["s"], off_l, off_b), "t": _shift_targets(_remap(hb["t"], off_l, off_b), off_b)}
                if "cleanup" in hb:
                    nblk["cleanup"] = hb["cleanup"]
                if nblk["t"]["k"] == "return":
                    nblk["t"] = {"k": "goto", "target": epi, "line": hb["t"].get("line")}
                blocks.append(nblk)
                stack_of[len(blocks) - 1] = stack_of[b] + (h.id,)
            line = t.get("line")
            pstmts = [{"k": "assign", "lhs": {"l": off_l + k + 1}, "rv": {"k": "use", "a": a}, "line": line, "inl": h.id}
                      for k, a in enumerate(t["args"][: h.arg_count])]
            blocks.append({"s": pstmts, "t": {"k": "goto", "target": off_b, "line": line}})
            stack_of[len(blocks) - 1] = stack_of[b]
            estmts = [{"k": "assign", "lhs": t["dest"], "rv": {"k": "use", "a": {"move": {"l": off_l}}}, "line": line, "inl": h.id}]
            et = {"k": "goto", "target": t["target"], "line": line} if t.get("target") is not None else {"k": "unreachable", "line": line}
            blocks.append({"s": estmts, "t": et})
            stack_of[len(blocks) - 1] = stack_of[b]
            blocks[b]["t"] = {"k": "goto", "target": pro, "line": line}
            inlined.append(h.nname)
            progress = True
    if not inlined:
        return fn
    nf = Fn(d, fn.crate, prog)
    nf.inlined = tuple(inlined)
    nf.origin = fn
    return nf
