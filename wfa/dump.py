"""Readable dump of function MIR facts: python3 -m wfa.dump <regex> [--config default] [--calls]"""
import sys
from .ir import Program, callee_name


def fmt_place(fn, p):
    l = p["l"]
    name = fn.locals[l].get("name")
    s = f"_{l}" + (f"/{name}" if name else "")
    for e in p.get("p", []):
        if e == "deref":
            s = f"(*{s})"
        elif isinstance(e, dict) and "f" in e:
            s += "." + (e.get("n") or str(e["f"]))
        elif isinstance(e, dict) and "idx" in e:
            s += f"[_{e['idx']}]"
        elif isinstance(e, dict) and "cidx" in e:
            s += f"[{'-' if e.get('from_end') else ''}{e['cidx']}]"
        elif isinstance(e, dict) and "down" in e:
            s += f" as {e.get('vn')}"
        elif isinstance(e, dict) and "sub" in e:
            s += f"[{e['sub'][0]}..{e['sub'][1]}]"
        else:
            s += f".{e}"
    return s


def fmt_op(fn, o):
    if "copy" in o:
        return fmt_place(fn, o["copy"])
    if "move" in o:
        return "move " + fmt_place(fn, o["move"])
    c = o.get("const")
    if c is not None:
        if "fn" in c:
            return "fn " + c["fn"]["name"]
        if "def" in c:
            return "const " + c.get("def_name", c["def"]) + (f"={c['scalar']}" if "scalar" in c else "")
        if "scalar" in c:
            return f"{c['scalar']}_{c['ty']}"
        return f"const<{c['ty']}>"
    return str(o)


def fmt_rv(fn, rv):
    k = rv["k"]
    if k == "use":
        return fmt_op(fn, rv["a"])
    if k == "ref":
        return ("&mut " if rv["mut"] else "&") + fmt_place(fn, rv["p"])
    if k == "rawptr":
        return ("&raw mut " if rv["mut"] else "&raw const ") + fmt_place(fn, rv["p"])
    if k == "bin":
        return f"{rv['op']}({fmt_op(fn, rv['a'])}, {fmt_op(fn, rv['b'])})"
    if k == "un":
        return f"{rv['op']}({fmt_op(fn, rv['a'])})"
    if k == "cast":
        return f"{fmt_op(fn, rv['a'])} as {rv['to']} [{rv['ck']}]"
    if k == "agg":
        ops = ", ".join(fmt_op(fn, o) for o in rv["ops"])
        if rv["agg"] == "adt":
            return f"{rv['adt']}::{rv['vn']}{{{ops}}}"
        if rv["agg"] == "closure":
            return f"closure {rv['closure']}[{ops}]"
        return f"{rv['agg']}({ops})"
    if k == "discr":
        return f"discr({fmt_place(fn, rv['p'])})"
    if k == "repeat":
        return f"[{fmt_op(fn, rv['a'])}; {rv['n']}]"
    return str(rv)


def dump_fn(fn, calls_only=False, out=sys.stdout):
    print(f"== {fn.nname}  [{fn.id}]  {fn.file}:{fn.lo}-{fn.hi}  args={fn.arg_count}", file=out)
    if not calls_only:
        for i, l in enumerate(fn.locals):
            if l.get("name") or i <= fn.arg_count:
                print(f"   _{i}: {l['ty']}" + (f"  // {l['name']}" if l.get("name") else ""), file=out)
    for b, blk in enumerate(fn.blocks):
        if blk.get("cleanup"):
            continue
        t = blk["t"]
        if calls_only:
            if t["k"] == "call":
                print(f"  bb{b} L{t.get('line')}: {fmt_place(fn, t['dest'])} = {callee_name(t) or 'indirect'}({', '.join(fmt_op(fn, a) for a in t['args'])}) -> bb{t.get('target')}", file=out)
            continue
        print(f"  bb{b}:", file=out)
        for s in blk["s"]:
            if s["k"] == "assign":
                print(f"    L{s.get('line')}: {fmt_place(fn, s['lhs'])} = {fmt_rv(fn, s['rv'])}", file=out)
            else:
                print(f"    L{s.get('line')}: {s}", file=out)
        k = t["k"]
        if k == "call":
            f = t.get("fn")
            extra = ""
            if f and "resolved" in f:
                extra = f"  [resolved {f['resolved']}]"
            print(f"    L{t.get('line')}: {fmt_place(fn, t['dest'])} = {callee_name(t) or 'indirect'}({', '.join(fmt_op(fn, a) for a in t['args'])}) -> bb{t.get('target')}{extra}", file=out)
        elif k == "switch":
            print(f"    L{t.get('line')}: switch {fmt_op(fn, t['d'])} {t['targets']} otherwise bb{t['otherwise']}", file=out)
        elif k == "assert":
            print(f"    L{t.get('line')}: assert({fmt_op(fn, t['cond'])} == {t['expected']}, {t['msg']}) -> bb{t['target']}", file=out)
        elif k == "drop":
            print(f"    drop({fmt_place(fn, t['p'])}) -> bb{t['target']}", file=out)
        else:
            print(f"    L{t.get('line')}: {k} {t.get('target', '')}", file=out)


def main():
    args = sys.argv[1:]
    config = "default"
    calls = False
    if "--config" in args:
        i = args.index("--config")
        config = args[i + 1]
        del args[i:i + 2]
    if "--calls" in args:
        calls = True
        args.remove("--calls")
    prog = Program(config)
    for rx in args:
        for fn in prog.find_fns(rx):
            dump_fn(fn, calls)


if __name__ == "__main__":
    main()
