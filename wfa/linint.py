"""Engine E5b: integer MIR interpreted in the domain of exact linear forms with intervals.

Every integer value is abstracted by (lin, lo, hi): `lin` is an integer-linear expression over named atoms (plus a constant) that the
value EQUALS as a mathematical integer on this path, `[lo, hi]` an interval that contains it. Atoms are unknown inputs with an interval
(`in[j]`: the j-th input word), or are introduced by the analysis with a defining equation:

    Qk[x] = floor(x / 2^k)            (x >> k)
    Tk[x] = x - 2^k * Qk[x]           (x as uN, x & (2^k - 1))       Tk[x] in [0, 2^k)

so truncations and shifts stay exact. A machine operation keeps `lin` only when the interval proves that it cannot wrap; `wrapping_*` and
`overflowing_*` operations are split into their (interval-feasible) cases, each with the exact form (`a + b`, `a + b - 2^w`, carry flag
0/1). Checked arithmetic (`+` in a debug build) that may overflow yields an unknown value (in a release build it would wrap) and is
recorded. Loops are followed by constant propagation of their counters (only `Range` with constant bounds is understood; anything else
raises Undecided); states are merged at loop headers when all live locals agree. Constructing a value of a type listed in `residue_adts`
(a field element) turns the stored integer into its residue class modulo p: the form is expanded to input atoms and reduced modulo p, and
can afterwards only be compared, not computed with.

What the client gets: for every path that returns, the environment; `canon(lin)` to compare residues. The engine never executes the code:
it propagates abstract values over the MIR of the function with the callees in `scope` spliced in (wfa.inline)."""
import re

from .inline import inline
from .ir import callee_name

INT_BITS = {"u8": 8, "u16": 16, "u32": 32, "u64": 64, "u128": 128, "usize": 64, "i8": 8, "i16": 16, "i32": 32, "i64": 64, "i128": 128, "isize": 64}


class Undecided(Exception):
    """the function uses a construct the engine does not model: no verdict (never a violation)"""


def ty_rng(ty):
    if ty == "bool":
        return (0, 1)
    b = INT_BITS.get(ty)
    if b is None:
        return None
    if ty.startswith("u"):
        return (0, (1 << b) - 1)
    return (-(1 << (b - 1)), (1 << (b - 1)) - 1)


class IV:
    __slots__ = ("lin", "lo", "hi", "res", "cond", "weak")

    def __init__(self, lin, lo, hi, res=False, cond=None, weak=False):
        self.lin, self.lo, self.hi, self.res = lin, lo, hi, res
        self.weak = weak   # a constant only because the interval of an otherwise unknown value collapsed: usable as a number, not as a form
        self.cond = cond   # for an undecided comparison: (lower, upper) bounds that `a - b` (a linear form) satisfies when it is true / false

    def key(self):
        return ("iv", tuple(sorted(self.lin.items())) if self.lin is not None else None, self.lo, self.hi, self.res,
                (lin_key(self.cond[0]),) + tuple(self.cond[1:]) if self.cond else None)

    def is_const(self):
        return self.lo == self.hi and not self.res

    def __repr__(self):
        return f"IV({show_lin(self.lin)}, [{self.lo}, {self.hi}]{', residue' if self.res else ''})"


def show_lin(lin, maxterms=8):
    if lin is None:
        return "?"
    ts = []
    for a, c in sorted(lin.items()):
        ts.append(str(c) if a == "" else (a if c == 1 else f"{c}*{a}"))
    if len(ts) > maxterms:
        ts = ts[:maxterms] + [f"... ({len(lin)} terms)"]
    return " + ".join(ts) if ts else "0"


def lin_add(a, b, sb=1):
    if a is None or b is None:
        return None
    r = dict(a)
    for k, c in b.items():
        v = r.get(k, 0) + sb * c
        if v:
            r[k] = v
        else:
            r.pop(k, None)
    return r


def lin_scale(a, c):
    if a is None:
        return None
    if c == 0:
        return {}
    return {k: v * c for k, v in a.items()}


def lin_key(lin):
    return "+".join(f"{c}*{a}" for a, c in sorted(lin.items()))


def decode_const(ty, raw):
    """bytes of a constant of array / tuple / integer type -> nested lists of ints"""
    def go(ty, off):
        ty = ty.strip()
        if ty in INT_BITS:
            n = INT_BITS[ty] // 8
            v = int.from_bytes(raw[off:off + n], "little", signed=ty.startswith("i"))
            return v, off + n
        m = re.match(r"^\[(.*);\s*(\d+)\]$", ty)
        if m:
            out = []
            for _ in range(int(m.group(2))):
                v, off = go(m.group(1), off)
                out.append(v)
            return out, off
        if ty.startswith("(") and ty.endswith(")"):
            parts, depth, cur = [], 0, ""
            for ch in ty[1:-1]:
                if ch in "([<":
                    depth += 1
                if ch in ")]>":
                    depth -= 1
                if ch == "," and depth == 0:
                    parts.append(cur)
                    cur = ""
                else:
                    cur += ch
            if cur.strip():
                parts.append(cur)
            out = []
            for p_ in parts:
                v, off = go(p_, off)   # tuples of equal-sized integers have no padding
                out.append(v)
            return out, off
        raise Undecided(f"constant of type {ty}")
    v, _ = go(ty, 0)
    return v


def _locals_in(x, out):
    if isinstance(x, dict):
        for k, v in x.items():
            if k in ("l", "idx") and isinstance(v, int) and not isinstance(v, bool):
                out.add(v)
            else:
                _locals_in(v, out)
    elif isinstance(x, list):
        for v in x:
            _locals_in(v, out)


def liveness(fn):
    nb = len(fn.blocks)
    use, dfn = [set() for _ in range(nb)], [set() for _ in range(nb)]
    for b, blk in enumerate(fn.blocks):
        u, d = use[b], dfn[b]

        def reads(x):
            s = set()
            _locals_in(x, s)
            for l in s:
                if l not in d:
                    u.add(l)
        for s in blk["s"]:
            if s["k"] != "assign":
                continue
            reads(s["rv"])
            if s["lhs"].get("p"):
                reads(s["lhs"])
            else:
                d.add(s["lhs"]["l"])
        t = blk["t"]
        k = t["k"]
        if k == "call":
            reads(t["args"])
            if t["dest"].get("p"):
                reads(t["dest"])
            else:
                d.add(t["dest"]["l"])
        elif k == "switch":
            reads(t["d"])
        elif k == "assert":
            reads(t["cond"])
        elif k == "return":
            if 0 not in d:
                u.add(0)
    succ = fn.succ
    live = [set() for _ in range(nb)]
    changed = True
    while changed:
        changed = False
        for b in range(nb - 1, -1, -1):
            out = set()
            for s in succ[b]:
                out |= live[s]
            n = use[b] | (out - dfn[b])
            if n != live[b]:
                live[b] = n
                changed = True
    return live


def loop_headers(fn):
    succ = fn.succ
    color, hdr = {}, set()
    stack = [(0, iter(succ[0]))]
    color[0] = 1
    while stack:
        b, it = stack[-1]
        for s in it:
            if color.get(s) == 1:
                hdr.add(s)
            elif s not in color:
                color[s] = 1
                stack.append((s, iter(succ[s])))
                break
        else:
            color[b] = 2
            stack.pop()
    return hdr


class Mismatch(Exception):
    """a residue was constructed that the client's `on_residue` refuses: (linear form, location)"""

    def __init__(self, lin, loc):
        Exception.__init__(self, "unexpected residue")
        self.lin, self.loc = lin, loc


class Case:
    """one outcome of a call: the value and the bound (constant-free linear form, (lo, hi)) that holds in this case"""
    __slots__ = ("v", "fact")

    def __init__(self, v, fact=None):
        self.v, self.fact = v, fact


class LinInterp:
    def __init__(self, prog, p, scope, residue_adts=(), max_states=20000, max_steps=2000000):
        self.prog, self.p = prog, p
        self.scope = scope
        self.residue_adts = tuple(residue_adts)
        self.atoms = {}
        self.expand = {}
        self.use_lp = True
        self._lp_cache = {}
        self.qinfo = {}        # Qk[L] -> (k, L)
        self.facts = {}        # path facts: lin_key(N) -> (lo, hi) for a constant-free linear form N
        self.on_residue = None # client predicate on every residue constructed (canonical form, path facts); False aborts with Mismatch
        self.constructed = []  # (adt, lo, hi, location) of every single-integer struct built on some path
        self.events = []       # (kind, location, text): possible overflows of checked arithmetic, imprecise branches
        self.max_states, self.max_steps = max_states, max_steps
        self.stats = {"steps": 0, "states": 0, "merged": 0, "forks": 0, "paths": 0}
        self.inlined = ()

    # ---- values -------------------------------------------------------------------------------
    def atom(self, name, lo, hi, expand=None):
        if name not in self.atoms:
            self.atoms[name] = (lo, hi)
            if expand is not None:
                self.expand[name] = expand
        return name

    def _rng(self, lin):
        lo = hi = lin.get("", 0)
        for a, c in lin.items():
            if a == "":
                continue
            alo, ahi = self.atoms[a]
            if c > 0:
                lo += c * alo
                hi += c * ahi
            else:
                lo += c * ahi
                hi += c * alo
        return lo, hi

    def lin_rng(self, lin):
        """interval of a linear form: atoms taken independently, then tightened with x = Tk[x] + 2^k Qk[x] wherever the form contains both
        a quotient atom Qk[x] and a multiple of x, and with the comparisons decided on this path"""
        lo, hi = self._rng(lin)
        cur = lin
        done = set()
        for _ in range(16):
            step = None
            for a in cur:
                qi = self.qinfo.get(a)
                if not qi or a in done:
                    continue
                k, L = qi
                piv = next((x for x in L if x != ""), None)
                if piv is None or cur.get(piv, 0) % L[piv]:
                    continue
                m = cur.get(piv, 0) // L[piv]
                if m == 0 or any(cur.get(x, 0) != m * c for x, c in L.items() if x != ""):
                    continue
                step = (a, k, L, m)
                break
            if step is None:
                break
            a, k, L, m = step
            done.add(a)
            t = self.atom(f"T{k}[{lin_key(L)}]", 0, min((1 << k) - 1, max(self._rng(L)[1], 0)), expand=lin_add(L, {a: 1 << k}, -1))
            cur = lin_add(lin_add(cur, L, -m), {t: m, a: m << k})
            lo2, hi2 = self._rng(cur)
            lo, hi = max(lo, lo2), min(hi, hi2)
        if self.facts:
            n = {x: c for x, c in lin.items() if x != ""}
            c0 = lin.get("", 0)
            f = self.facts.get(lin_key(n))
            if f:
                if f[0] is not None:
                    lo = max(lo, f[0] + c0)
                if f[1] is not None:
                    hi = min(hi, f[1] + c0)
            f = self.facts.get(lin_key(lin_scale(n, -1)))
            if f:
                if f[1] is not None:
                    lo = max(lo, -f[1] + c0)
                if f[0] is not None:
                    hi = min(hi, -f[0] + c0)
        return lo, hi

    def lp_rng(self, lin):
        """interval of a linear form, additionally using (exact rational LP, then rounding to integers) all facts of the path, the atoms'
        intervals and the defining equations of limb/carry atoms together. Used at decision points only."""
        lo, hi = self.lin_rng(lin)
        if not self.use_lp or lo > hi:
            return lo, hi
        atoms = set(x for x in lin if x != "")
        facts = self.facts or {}
        for _ in range(4):
            n0 = len(atoms)
            for a in list(atoms):
                if a in self.expand:
                    atoms |= {x for x in self.expand[a] if x != ""}
            for a, e in self.expand.items():
                if a not in atoms and any(x in atoms for x in e if x != "") and all((x in atoms or x == "" or x in self.qinfo) for x in e):
                    atoms.add(a)
                    atoms |= {x for x in e if x != ""}
            for f in facts.values():
                if len(f) > 3 and f[2] & atoms:
                    atoms |= f[2]
            if len(atoms) == n0:
                break
        if not atoms or len(atoms) > 16:
            return lo, hi
        ck = (lin_key(lin), tuple(sorted((k, v[0], v[1]) for k, v in facts.items() if len(v) > 3 and v[2] & atoms)))
        if ck in self._lp_cache:
            l2, h2 = self._lp_cache[ck]
            return max(lo, l2), min(hi, h2)
        from .lpexact import lp_min
        order = sorted(atoms)
        idx = {a: i for i, a in enumerate(order)}
        los = [self.atoms[a][0] for a in order]
        n = len(order)

        def row(d):
            r = [0] * n
            c0 = d.get("", 0) if isinstance(d, dict) else 0
            for x, c in (d.items() if isinstance(d, dict) else d):
                if x == "":
                    continue
                r[idx[x]] += c
                c0 += c * los[idx[x]]
            return r, c0    # value = r.y + c0
        A_ub, b_ub, A_eq, b_eq = [], [], [], []
        for a in order:
            r = [0] * n
            r[idx[a]] = 1
            A_ub.append(r)
            b_ub.append(self.atoms[a][1] - self.atoms[a][0])
            if a in self.expand and all(x == "" or x in idx for x in self.expand[a]):
                r, c0 = row(lin_add({a: 1}, self.expand[a], -1))
                A_eq.append(r)
                b_eq.append(-c0)
        for f in facts.values():
            if len(f) < 4 or not (f[2] <= atoms):
                continue
            r, c0 = row(dict(f[3]))
            if f[0] is not None:
                A_ub.append([-v for v in r])
                b_ub.append(c0 - f[0])
            if f[1] is not None:
                A_ub.append(r)
                b_ub.append(f[1] - c0)
        r, c0 = row(lin)
        import math
        st, v = lp_min(r, A_ub, b_ub, A_eq, b_eq)
        if st == "infeasible":
            self._lp_cache[ck] = (1, 0)
            return 1, 0
        l2 = math.ceil(v + c0) if st == "opt" else lo
        st, v = lp_min([-x for x in r], A_ub, b_ub, A_eq, b_eq)
        h2 = math.floor(-v + c0) if st == "opt" else hi
        self._lp_cache[ck] = (l2, h2)
        return max(lo, l2), min(hi, h2)

    def mkv(self, lin, lo, hi):
        """None when the value set is empty (infeasible case)"""
        if lin is not None:
            l2, h2 = self.lin_rng(lin)
            lo, hi = max(lo, l2), min(hi, h2)
        if lo > hi:
            return None
        if lo == hi and lin is None:
            return IV({"": lo} if lo else {}, lo, hi, weak=True)
        return IV(lin, lo, hi)

    def const(self, v):
        return IV({"": v} if v else {}, v, v)

    def unknown(self, ty):
        r = ty_rng(ty)
        if r is None:
            raise Undecided(f"value of type {ty}")
        return IV(None, r[0], r[1])

    @staticmethod
    def L(v):
        return None if (v.res or v.weak) else v.lin

    def canon(self, lin):
        """expand defined atoms down to inputs and quotients, coefficients modulo p"""
        if lin is None:
            return None
        cur = dict(lin)
        for _ in range(10000):
            todo = [a for a in cur if a in self.expand]
            if not todo:
                break
            a = todo[0]
            c = cur.pop(a)
            cur = lin_add(cur, self.expand[a], c)
        else:
            raise Undecided("cyclic atom definitions")
        out = {}
        for a, c in cur.items():
            c %= self.p
            if c:
                out[a] = c
        return out

    def congruent(self, a, b, facts=None):
        """a = b (mod p) for all values of the atoms admitted on a path with these facts; atoms the path pins to one value are substituted"""
        if a is None or b is None:
            return False
        d = self.canon(lin_add(a, b, -1))
        if d is None:
            return False
        if not d:
            return True
        saved, self.facts = self.facts, (facts or {})
        try:
            c0, rest = d.get("", 0), {}
            for x, c in d.items():
                if x == "":
                    continue
                lo, hi = self.lin_rng({x: 1})
                if lo == hi:
                    c0 += c * lo
                else:
                    rest[x] = c
        finally:
            self.facts = saved
        return not rest and c0 % self.p == 0

    def _expand_defs(self, cur):
        for _ in range(10000):
            todo = [a for a in cur if a in self.expand]
            if not todo:
                return cur
            c = cur.pop(todo[0])
            cur = lin_add(cur, self.expand[todo[0]], c)
        raise Undecided("cyclic atom definitions")

    # ---- arithmetic ---------------------------------------------------------------------------
    def exact(self, op, a, b):
        la, lb = self.L(a), self.L(b)
        if op == "Add":
            return lin_add(la, lb), a.lo + b.lo, a.hi + b.hi
        if op == "Sub":
            return lin_add(la, lb, -1), a.lo - b.hi, a.hi - b.lo
        if op == "Mul":
            c = [a.lo * b.lo, a.lo * b.hi, a.hi * b.lo, a.hi * b.hi]
            lin = None
            if a.is_const():
                lin = lin_scale(lb, a.lo)
            elif b.is_const():
                lin = lin_scale(la, b.lo)
            elif la is not None and lb is not None and len(la) == 1 and len(lb) == 1 and "" not in la and "" not in lb \
                    and list(la.values()) == [1] and list(lb.values()) == [1]:
                # the product of two unknowns is a new unknown (the reductions that follow are linear in it)
                pa = self.atom("P[" + "*".join(sorted([next(iter(la)), next(iter(lb))])) + "]", min(c), max(c))
                lin = {pa: 1}
            return lin, min(c), max(c)
        raise Undecided(op)

    def limb(self, A, w):
        """(T, Q): the atoms T_w[A] in [0, 2^w) and Q_w[A] with A = T + 2^w * Q, for an atom A >= 0"""
        alo, ahi = self.atoms[A]
        q = self.atom(f"Q{w}[1*{A}]", alo >> w, ahi >> w)
        self.qinfo.setdefault(q, (w, {A: 1}))
        t = self.atom(f"T{w}[1*{A}]", 0, min((1 << w) - 1, ahi), expand={A: 1, q: -(1 << w)})
        return t, q

    def split(self, la, k):
        """(L0, L1) with la = L0 + 2^k * L1 as integers and L0 in [0, 2^k): remainder and quotient of a non-negative linear form.
        Coefficients are divided by 2^k; an atom whose coefficient c has 2^j | c and that can reach 2^(k-j) is replaced by its limbs
        (c*A = c*T(k-j)[A] + (c >> j) * 2^k * Q(k-j)[A]); truncation atoms of at least k bits are first replaced by their definition
        (Tj[x] = x - 2^j Qj[x]). If the remainder part can still exceed 2^k, a carry atom pair (Tk[L0], Qk[L0]) is introduced.
        None when the remainder part may be negative."""
        cur = dict(la)
        for _ in range(64):
            rep = next((x for x in cur if x.startswith("T") and x in self.expand and int(x[1:x.index("[")]) >= k), None)
            if rep is None:
                break
            c = cur.pop(rep)
            cur = lin_add(cur, self.expand[rep], c)
        w = 1 << k
        L0, L1 = {}, {}

        def add(d, x, c):
            v = d.get(x, 0) + c
            if v:
                d[x] = v
            else:
                d.pop(x, None)
        for x, c in cur.items():
            c_lo = c % w
            c_hi = (c - c_lo) >> k
            if c_hi:
                add(L1, x, c_hi)
            if not c_lo:
                continue
            if x != "":
                j = (c_lo & -c_lo).bit_length() - 1
                alo, ahi = self.atoms[x]
                if alo >= 0 and ahi >= (1 << (k - j)):
                    t, q = self.limb(x, k - j)
                    add(L0, t, c_lo)
                    add(L1, q, c_lo >> j)
                    continue
            add(L0, x, c_lo)
        for x in list(L0):
            if L0[x] >= w or L0[x] < 0:      # parts of one atom's coefficient that arrived separately add up
                c = L0.pop(x)
                add(L1, x, (c - c % w) >> k)
                if c % w:
                    L0[x] = c % w
        lo, hi = self._rng(L0) if L0 else (0, 0)
        if lo < 0:
            return None
        if hi < w:
            return L0, L1
        key = lin_key(L0)
        q = self.atom(f"Q{k}[{key}]", lo >> k, hi >> k)
        self.qinfo.setdefault(q, (k, dict(L0)))
        t = self.atom(f"T{k}[{key}]", 0, w - 1, expand=lin_add(L0, {q: w}, -1))
        add(L1, q, 1)
        return {t: 1}, L1

    def quot(self, a, k):
        """floor(a / 2^k) for a >= 0"""
        if a.lo < 0:
            return None
        if a.hi < (1 << k):
            return self.const(0)
        la = self.L(a)
        if la is None:
            return IV(None, a.lo >> k, a.hi >> k)
        sp = self.split(la, k)
        if sp is None:
            return IV(None, a.lo >> k, a.hi >> k)
        return self.mkv(sp[1], a.lo >> k, a.hi >> k) or IV(None, a.lo >> k, a.hi >> k)

    def trunc(self, a, k):
        """a mod 2^k for a >= 0"""
        if a.lo < 0:
            return IV(None, 0, (1 << k) - 1)
        if a.hi < (1 << k):
            return IV(a.lin, a.lo, a.hi, a.res)
        la = self.L(a)
        if la is None:
            return IV(None, 0, (1 << k) - 1)
        sp = self.split(la, k)
        if sp is None:
            return IV(None, 0, (1 << k) - 1)
        return self.mkv(sp[0], 0, (1 << k) - 1) or IV(None, 0, (1 << k) - 1)

    def binop(self, op, a, b, ty, loc):
        if not isinstance(a, IV) or not isinstance(b, IV):
            raise Undecided(f"{op} on non-integers at {loc}")
        if op in ("Lt", "Le", "Gt", "Ge", "Eq", "Ne"):
            lin, lo, hi = self.exact("Sub", a, b)
            d = self.mkv(lin, lo, hi) or IV(None, lo, hi)
            if d.lin is not None and d.lo < 0 <= d.hi or (d.lin is not None and d.lo <= 0 < d.hi):
                l2, h2 = self.lp_rng(d.lin)
                if l2 <= h2:
                    d = IV(d.lin, max(d.lo, l2), min(d.hi, h2))
            dec = {"Lt": (d.hi < 0, d.lo >= 0), "Le": (d.hi <= 0, d.lo > 0), "Gt": (d.lo > 0, d.hi <= 0), "Ge": (d.lo >= 0, d.hi < 0),
                   "Eq": (d.lo == d.hi == 0, d.lo > 0 or d.hi < 0), "Ne": (d.lo > 0 or d.hi < 0, d.lo == d.hi == 0)}[op]
            if dec[0]:
                return self.const(1)
            if dec[1]:
                return self.const(0)
            cond = None
            if lin is not None:
                n = {x: c for x, c in lin.items() if x != ""}
                c0 = lin.get("", 0)
                # bounds of n when the comparison is true / false
                tb = {"Lt": (None, -1), "Le": (None, 0), "Gt": (1, None), "Ge": (0, None), "Eq": (0, 0), "Ne": None}[op]
                fb = {"Lt": (0, None), "Le": (1, None), "Gt": (None, 0), "Ge": (None, -1), "Eq": None, "Ne": (0, 0)}[op]
                sh = lambda bb: None if bb is None else tuple(None if x is None else x - c0 for x in bb)
                cond = (n, sh(tb), sh(fb), -c0)   # Ne true / Eq false: n != -c0
            return IV(None, 0, 1, cond=cond)
        checked = op.endswith("WithOverflow")
        base = op.replace("WithOverflow", "").replace("Unchecked", "")
        rng = ty_rng(ty)
        if rng is None:
            raise Undecided(f"{op} on {ty}")
        if base in ("Add", "Sub", "Mul"):
            lin, lo, hi = self.exact(base, a, b)
            v = self.mkv(lin, lo, hi) or IV(None, lo, hi)
            fits = rng[0] <= v.lo and v.hi <= rng[1]
            if not fits:
                self.events.append(("overflow", loc, f"{base} on {ty} may leave the type's range (exact result in [{v.lo}, {v.hi}]): the value wraps in a release build"))
                v = self.unknown(ty)
            if checked:
                return [v, self.const(0) if fits else IV(None, 0, 1)]
            return v
        if base in ("Shl", "Shr"):
            if not b.is_const():
                return self.unknown(ty)
            k = b.lo
            if base == "Shl":
                lin, lo, hi = self.exact("Mul", a, self.const(1 << k))
                v = self.mkv(lin, lo, hi) or IV(None, lo, hi)
                if rng[0] <= v.lo and v.hi <= rng[1]:
                    return v
                if a.lo >= 0 and ty.startswith("u"):
                    return self.trunc(v, INT_BITS[ty])
                return self.unknown(ty)
            q = self.quot(a, k)
            return q if q is not None else self.unknown(ty)
        if base == "BitAnd":
            for x, y in ((a, b), (b, a)):
                if y.is_const() and y.lo >= 0 and (y.lo & (y.lo + 1)) == 0 and x.lo >= 0:
                    return self.trunc(x, y.lo.bit_length())
            if a.is_const() and b.is_const():
                return self.const(a.lo & b.lo)
            if a.lo >= 0 and b.lo >= 0:
                return IV(None, 0, min(a.hi, b.hi))
            return self.unknown(ty)
        if base in ("BitOr", "BitXor"):
            if a.is_const() and b.is_const():
                return self.const(a.lo | b.lo if base == "BitOr" else a.lo ^ b.lo)
            if rng == (0, 1):
                return IV(None, 0, 1)
            if a.lo >= 0 and b.lo >= 0:
                return IV(None, 0, (1 << max(a.hi.bit_length(), b.hi.bit_length())) - 1)
            return self.unknown(ty)
        if base in ("Div", "Rem"):
            if a.is_const() and b.is_const() and b.lo:
                return self.const(a.lo // b.lo if base == "Div" else a.lo % b.lo)
            if base == "Div" and b.is_const() and b.lo > 0 and (b.lo & (b.lo - 1)) == 0:
                q = self.quot(a, b.lo.bit_length() - 1)
                if q is not None:
                    return q
            if base == "Rem" and b.is_const() and b.lo > 0 and (b.lo & (b.lo - 1)) == 0 and a.lo >= 0:
                return self.trunc(a, b.lo.bit_length() - 1)
            return self.unknown(ty)
        raise Undecided(f"operation {op} at {loc}")

    def cast(self, a, frm, to, loc):
        if not isinstance(a, IV):
            raise Undecided(f"cast of a non-integer at {loc}")
        rng = ty_rng(to)
        if rng is None:
            raise Undecided(f"cast to {to}")
        if rng[0] <= a.lo and a.hi <= rng[1]:
            return IV(a.lin, a.lo, a.hi, a.res)
        if to.startswith("u") and a.lo >= 0:
            return self.trunc(a, INT_BITS[to])
        return self.unknown(to)

    def wrap_cases(self, kind, a, b, ty):
        """[(value, carry)] of a (wrapping|overflowing) add/sub on an unsigned type, one per interval-feasible case"""
        rng = ty_rng(ty)
        if rng is None or rng[0] != 0:
            raise Undecided(f"wrapping arithmetic on {ty}")
        w = 1 << INT_BITS[ty]
        lin, lo, hi = self.exact("Add" if kind == "add" else "Sub", a, b)
        e = self.mkv(lin, lo, hi)
        if e is None:
            return []
        if e.lin is not None and ((kind == "add" and e.lo < w <= e.hi) or (kind != "add" and e.lo < 0 <= e.hi)):
            l2, h2 = self.lp_rng(e.lin)     # both cases look feasible: ask the polyhedral side
            if l2 > h2:
                return []
            e = IV(e.lin, max(e.lo, l2), min(e.hi, h2))
        out = []
        n = {x: c for x, c in e.lin.items() if x != ""} if e.lin is not None else None
        c0 = e.lin.get("", 0) if e.lin is not None else 0

        def fact(lo_, hi_):
            # the case condition as a bound on the constant-free part of the exact result
            if not n:
                return None
            return (n, (None if lo_ is None else lo_ - c0, None if hi_ is None else hi_ - c0))
        if kind == "add":
            if e.lo < w:
                v = self.mkv(e.lin, e.lo, min(e.hi, w - 1))
                if v is not None:
                    out.append((v, 0, fact(None, w - 1)))
            if e.hi >= w:
                v = self.mkv(lin_add(e.lin, {"": w}, -1), max(e.lo, w) - w, e.hi - w)
                if v is not None:
                    out.append((v, 1, fact(w, None)))
        else:
            if e.hi >= 0:
                v = self.mkv(e.lin, max(e.lo, 0), e.hi)
                if v is not None:
                    out.append((v, 0, fact(0, None)))
            if e.lo < 0:
                v = self.mkv(lin_add(e.lin, {"": w}), e.lo + w, min(e.hi, -1) + w)
                if v is not None:
                    out.append((v, 1, fact(None, -1)))
        if len(out) == 1:
            out = [(out[0][0], out[0][1], None)]
        return out

    # ---- places -------------------------------------------------------------------------------
    def resolve(self, fn, env, p):
        root, path = p["l"], []
        for e in p.get("p", []):
            if e == "deref":
                cur = self.get(env, root, path)
                if not (isinstance(cur, tuple) and cur and cur[0] == "ref"):
                    raise Undecided(f"deref of a non-reference in {fn.nname}")
                root, path = cur[1], list(cur[2])
            elif isinstance(e, dict) and "f" in e:
                path.append(e["f"])
            elif isinstance(e, dict) and "idx" in e:
                i = env.get(e["idx"])
                if not isinstance(i, IV) or not i.is_const():
                    raise Undecided(f"array index that is not a constant on this path in {fn.nname}")
                path.append(i.lo)
            elif isinstance(e, dict) and "cidx" in e:
                if e.get("from_end"):
                    raise Undecided("index from the end")
                path.append(e["cidx"])
            elif isinstance(e, dict) and "down" in e:
                continue
            else:
                raise Undecided(f"projection {e}")
        return root, path

    def get(self, env, root, path):
        if root not in env:
            raise Undecided(f"read of an unassigned local _{root}")
        v = env[root]
        for i in path:
            if isinstance(v, tuple) and v and v[0] == "adt":
                v = v[2]
            if not isinstance(v, list) or not (0 <= i < len(v)):
                raise Undecided("projection of a value that is not an aggregate")
            v = v[i]
        return v

    def put(self, v, path, nv):
        if not path:
            return nv
        if isinstance(v, tuple) and v and v[0] == "adt":
            return ("adt", v[1], self.put(v[2], path, nv))
        if not isinstance(v, list) or not (0 <= path[0] < len(v)):
            raise Undecided("write into a value that is not an aggregate")
        out = list(v)
        out[path[0]] = self.put(v[path[0]], path[1:], nv)
        return out

    def read_op(self, fn, env, op):
        for k in ("copy", "move"):
            if k in op:
                root, path = self.resolve(fn, env, op[k])
                v = self.get(env, root, path)
                if self.facts and isinstance(v, IV) and v.lin is not None and not v.res and v.lo != v.hi:
                    # what the path has learned since the value was computed
                    l2, h2 = self.lin_rng(v.lin)
                    if l2 > v.lo or h2 < v.hi:
                        v = IV(v.lin, max(v.lo, l2), min(v.hi, h2), v.res, v.cond)
                return v
        return self.const_val(op.get("const") or {})

    def const_val(self, c):
        ty = c.get("ty", "")
        if "scalar" in c and (ty in INT_BITS or ty == "bool"):
            v = int(c["scalar"])
            if ty.startswith("i") and v >= 1 << (INT_BITS[ty] - 1):
                v -= 1 << INT_BITS[ty]
            return self.const(v)
        if c.get("zst"):
            return ()
        name = c.get("def_name") or c.get("def") or ""
        if name.endswith("FieldElement::ZERO") and any(ty.endswith(a) for a in self.residue_adts):
            return ("adt", 0, [IV({}, 0, 0, True)])
        if name.endswith("::ZERO") and ty.endswith("::BaseElement"):
            return ("adt", 0, [self.const(0)])   # the additive identity is represented by 0 in every field of the crate (checked by C07 CONST)
        if name:
            try:
                cd = self.prog.const(name)
            except Exception:
                cd = None
            if cd and cd.get("bytes") is not None and not cd.get("has_ptrs"):
                def wrap(x):
                    return [wrap(y) for y in x] if isinstance(x, list) else self.const(x)
                return wrap(decode_const(cd["ty"], bytes.fromhex(cd["bytes"])))
        raise Undecided(f"constant {name or ty}")

    def write(self, fn, env, p, v):
        root, path = self.resolve(fn, env, p)
        env[root] = self.put(env.get(root), path, v) if path else v

    # ---- statements ---------------------------------------------------------------------------
    def eval_rv(self, fn, env, rv, loc):
        k = rv["k"]
        if k == "use":
            return self.read_op(fn, env, rv["a"])
        if k in ("ref", "rawptr"):
            root, path = self.resolve(fn, env, rv["p"])
            return ("ref", root, tuple(path))
        if k == "agg":
            ops = [self.read_op(fn, env, o) for o in rv["ops"]]
            if rv.get("agg") == "adt":
                if any(rv["adt"].endswith(a) for a in self.residue_adts) and len(ops) == 1 and isinstance(ops[0], IV):
                    v = ops[0]
                    cl = self.canon(self.L(v))
                    if self.on_residue is not None and cl is not None and not self.on_residue(cl, env.get("#facts")):
                        raise Mismatch(cl, loc)
                    ops = [IV(cl, 0, ty_rng("u64")[1], True)]
                if len(ops) == 1 and isinstance(ops[0], IV):
                    self.constructed.append((rv["adt"], ops[0].lo, ops[0].hi, loc))
                return ("adt", rv.get("variant", 0), ops)
            return ops
        if k == "repeat":
            return [self.read_op(fn, env, rv["a"])] * int(rv["n"])
        if k == "bin":
            return self.binop(rv["op"], self.read_op(fn, env, rv["a"]), self.read_op(fn, env, rv["b"]), rv.get("ty", ""), loc)
        if k == "un":
            a = self.read_op(fn, env, rv["a"])
            if not isinstance(a, IV):
                raise Undecided("unary operation on a non-integer")
            if rv["op"] == "Neg":
                lin, lo, hi = lin_scale(self.L(a), -1), -a.hi, -a.lo
                v = self.mkv(lin, lo, hi) or IV(None, lo, hi)
                r = ty_rng(rv.get("ty", "i64")) or ty_rng("i64")
                if r[0] <= v.lo and v.hi <= r[1]:
                    return v
                self.events.append(("overflow", loc, "negation may overflow"))
                return IV(None, r[0], r[1])
            if rv["op"] == "Not" and 0 <= a.lo and a.hi <= 1:
                if a.cond and not a.is_const():
                    return IV(None, 0, 1, cond=(a.cond[0], a.cond[2], a.cond[1], a.cond[3]))
                return self.mkv(lin_add({"": 1}, self.L(a), -1), 1 - a.hi, 1 - a.lo) or IV(None, 0, 1)
            return self.unknown(rv.get("ty", ""))
        if k == "cast":
            if rv.get("ck") != "IntToInt":
                a = self.read_op(fn, env, rv["a"])
                if isinstance(a, tuple) and a and a[0] == "ref":
                    return a   # pointer coercions (&[T; N] -> &[T]) keep the referent
                raise Undecided(f"cast {rv.get('ck')}")
            return self.cast(self.read_op(fn, env, rv["a"]), rv.get("from", ""), rv.get("to", ""), loc)
        if k == "discr":
            root, path = self.resolve(fn, env, rv["p"])
            v = self.get(env, root, path)
            if isinstance(v, tuple) and v and v[0] == "adt":
                return self.const(v[1])
            raise Undecided("discriminant of an unknown value")
        if k == "len":
            root, path = self.resolve(fn, env, rv["p"])
            v = self.get(env, root, path)
            if isinstance(v, list):
                return self.const(len(v))
        raise Undecided(f"rvalue {k}")

    def call(self, fn, env, t, loc):
        """[value] : one per case"""
        cn = callee_name(t) or ""
        last = cn.split("::")[-1]
        f = t.get("fn") or {}
        args = [self.read_op(fn, env, a) for a in t["args"]]
        ity = f.get("impl_self", "")
        if last in ("into_iter", "iter", "iter_mut") and len(args) == 1:
            a = args[0]
            if isinstance(a, tuple) and a and a[0] == "ref":
                tgt = self.get(env, a[1], list(a[2]))
                if isinstance(tgt, list):
                    return [("it", "slice", a[1], tuple(a[2]), 0, len(tgt))]
            if isinstance(a, list) and last == "into_iter":
                return [("it", "vals", tuple(a), 0)] if all(isinstance(x, IV) for x in a) else [("it", "list", a, 0)]
            if last == "into_iter":
                return [a]
            raise Undecided(f"{last} on a value that is not an array in {fn.nname}")
        if last == "enumerate" and len(args) == 1:
            return [("it", "enum", args[0], 0)]
        if last == "zip" and len(args) == 2:
            b2 = args[1]
            if isinstance(b2, tuple) and b2 and b2[0] == "ref":     # zip(&array): IntoIterator of a reference
                tgt = self.get(env, b2[1], list(b2[2]))
                if isinstance(tgt, list):
                    b2 = ("it", "slice", b2[1], tuple(b2[2]), 0, len(tgt))
            return [("it", "zip", args[0], b2)]
        if last == "next" and len(args) == 1:
            r = args[0]
            if not (isinstance(r, tuple) and r and r[0] == "ref"):
                raise Undecided("Iterator::next on a value")
            nit, item = self.iter_next(fn, self.get(env, r[1], list(r[2])))
            env[r[1]] = self.put(env[r[1]], list(r[2]), nit)
            return [("adt", 1, [item]) if item is not None else ("adt", 0, [])]
        if ity in INT_BITS and last in ("overflowing_add", "overflowing_sub", "wrapping_add", "wrapping_sub") and len(args) == 2:
            cases = self.wrap_cases("add" if last.endswith("add") else "sub", args[0], args[1], ity)
            if last.startswith("overflowing"):
                return [Case([v, self.const(c)], f) for v, c, f in cases]
            return [Case(v, f) for v, c, f in cases]
        if ity in INT_BITS and last == "wrapping_neg" and len(args) == 1:
            return [Case(v, f) for v, c, f in self.wrap_cases("sub", self.const(0), args[0], ity)]
        if ity in INT_BITS and last in ("checked_add", "checked_sub") and len(args) == 2:
            cases = self.wrap_cases("add" if last.endswith("add") else "sub", args[0], args[1], ity)
            return [Case(("adt", 1, [v]) if c == 0 else ("adt", 0, []), f) for v, c, f in cases]
        if ity in INT_BITS and last == "wrapping_mul" and len(args) == 2:
            lin, lo, hi = self.exact("Mul", args[0], args[1])
            v = self.mkv(lin, lo, hi) or IV(None, lo, hi)
            r = ty_rng(ity)
            if r[0] <= v.lo and v.hi <= r[1]:
                return [v]
            return [self.trunc(v, INT_BITS[ity]) if (v.lo >= 0 and ity.startswith("u")) else self.unknown(ity)]
        raise Undecided(f"call of {cn} in {fn.nname}")

    def _with_fact(self, facts, n, bnd):
        """facts extended by lo <= n <= hi (None = unbounded); None when the path becomes infeasible"""
        fk = lin_key(n)
        f = dict(facts)
        o = f.get(fk, (None, None))
        nl = bnd[0] if o[0] is None else (o[0] if bnd[0] is None else max(o[0], bnd[0]))
        nh = bnd[1] if o[1] is None else (o[1] if bnd[1] is None else min(o[1], bnd[1]))
        f[fk] = (nl, nh, frozenset(x for x in n if x != ""), tuple(sorted(n.items())))
        saved, self.facts = self.facts, f
        try:
            lo_, hi_ = self.lp_rng(n)
        finally:
            self.facts = saved
        return None if lo_ > hi_ else f

    def iter_next(self, fn, it):
        """(iterator after the call, item or None) for the iterator shapes of a loop with a constant trip count"""
        if isinstance(it, tuple) and it and it[0] == "adt" and len(it[2]) == 2:
            if not all(isinstance(x, IV) and x.is_const() for x in it[2]):
                raise Undecided(f"loop over a range whose bounds are not constants in {fn.nname}")
            s, e = it[2][0].lo, it[2][1].lo
            if s < e:
                return ("adt", it[1], [self.const(s + 1), it[2][1]]), self.const(s)
            return it, None
        if isinstance(it, tuple) and it and it[0] == "it":
            kind = it[1]
            if kind == "slice":
                _, _, root, path, i, n = it
                if i < n:
                    return ("it", "slice", root, path, i + 1, n), ("ref", root, tuple(path) + (i,))
                return it, None
            if kind in ("vals", "list"):
                xs, i = it[2], it[3]
                if i < len(xs):
                    return ("it", kind, xs, i + 1), xs[i]
                return it, None
            if kind == "enum":
                inner, item = self.iter_next(fn, it[2])
                if item is None:
                    return ("it", "enum", inner, it[3]), None
                return ("it", "enum", inner, it[3] + 1), [self.const(it[3]), item]
            if kind == "zip":
                a, x = self.iter_next(fn, it[2])
                if x is None:
                    return ("it", "zip", a, it[3]), None
                b2, y = self.iter_next(fn, it[3])
                if y is None:
                    return ("it", "zip", a, b2), None
                return ("it", "zip", a, b2), [x, y]
        raise Undecided(f"iterator of a kind the engine does not follow in {fn.nname}")

    # ---- driver -------------------------------------------------------------------------------
    def freeze(self, v):
        if isinstance(v, IV):
            return v.key()
        if isinstance(v, list):
            return tuple(self.freeze(x) for x in v)
        if isinstance(v, tuple) and v and v[0] == "adt":
            return ("adt", v[1], tuple(self.freeze(x) for x in v[2]))
        if isinstance(v, dict):
            return tuple(sorted(v.items()))
        if isinstance(v, tuple) and v and v[0] == "it":
            return tuple(self.freeze(x) for x in v)
        if isinstance(v, tuple):
            return tuple(self.freeze(x) if isinstance(x, (IV, list, tuple)) else x for x in v)
        return v

    def run(self, fn, env0):
        """environments of all returning paths of fn (callees in scope spliced in)"""
        g = inline(self.prog, fn, depth=8, eligible=lambda prog, caller, callee: self.scope(callee))
        self.inlined = tuple(getattr(g, "inlined", ()) or ())
        live = liveness(g)
        hdr = loop_headers(g)
        seen = set()
        outs = []
        work = [(0, dict(env0), False)]
        while work:
            b, env, imp = work.pop()
            self.facts = env.get("#facts") or {}
            self.stats["states"] += 1
            if self.stats["states"] > self.max_states:
                raise Undecided("too many abstract states")
            while True:
                self.stats["steps"] += 1
                if self.stats["steps"] > self.max_steps:
                    raise Undecided("too many steps")
                if b in hdr:
                    keep = set(l for l in env if not isinstance(l, int)) | (live[b] & set(env))
                    more = True
                    while more:
                        more = False
                        for l in list(keep):
                            for r in _refs_in(env.get(l)):
                                if r not in keep:
                                    keep.add(r)
                                    more = True
                    fc = env.get("#facts")
                    if fc:
                        # a fact whose atoms no live value mentions any more cannot influence the rest of the path: forget it, so that the
                        # carry cases of a finished iteration merge again
                        live_atoms = set()
                        for l in keep:
                            if l != "#facts":
                                _atoms_in(env.get(l), live_atoms)
                        fc2 = {k_: v_ for k_, v_ in fc.items() if v_[2] & live_atoms}
                        if len(fc2) != len(fc):
                            env = dict(env)
                            env["#facts"] = fc2
                            self.facts = fc2
                    key = (b, imp, tuple(sorted(((repr(l), self.freeze(env[l])) for l in keep), key=lambda x: x[0])))
                    if key in seen:
                        self.stats["merged"] += 1
                        break
                    seen.add(key)
                blk = g.blocks[b]
                for i, s in enumerate(blk["s"]):
                    if s["k"] == "assign":
                        self.write(g, env, s["lhs"], self.eval_rv(g, env, s["rv"], g.loc(b, i)))
                t = blk["t"]
                k = t["k"]
                if k in ("goto", "drop"):
                    b = t["target"]
                    continue
                if k == "return":
                    self.stats["paths"] += 1
                    outs.append((env, imp))
                    break
                if k == "assert":
                    c = self.read_op(g, env, t["cond"])
                    if isinstance(c, IV) and c.is_const() and bool(c.lo) != bool(t["expected"]):
                        self.events.append(("panic", g.loc(b, "T"), f"assertion {t.get('msg')} fails on every input reaching it"))
                        break
                    b = t["target"]
                    continue
                if k == "switch":
                    d = self.read_op(g, env, t["d"])
                    if not isinstance(d, IV):
                        raise Undecided("switch on a non-integer")
                    listed = [(int(v), tb) for v, tb in t["targets"]]
                    if d.is_const():
                        nb = t["otherwise"]
                        for v, tb in listed:
                            if v == d.lo:
                                nb = tb
                        b = nb
                        continue
                    if d.cond is not None and d.lo == 0 and d.hi == 1:
                        # an undecided comparison of two linear forms: each edge learns the bound the comparison implies
                        succs = []
                        for val in (0, 1):
                            tb = next((x for v, x in listed if v == val), t["otherwise"])
                            bnd = d.cond[1] if val == 1 else d.cond[2]
                            e2 = dict(env)
                            if bnd is None:
                                # `n != c`: informative only when c is an end of n's interval
                                ex = d.cond[3]
                                self.facts = env.get("#facts") or {}
                                lo_, hi_ = self.lin_rng(d.cond[0])
                                if lo_ == hi_ == ex:
                                    continue
                                bnd = (ex + 1, None) if lo_ == ex else ((None, ex - 1) if hi_ == ex else None)
                            if bnd is not None:
                                f = self._with_fact(env.get("#facts") or {}, d.cond[0], bnd)
                                if f is None:
                                    continue
                                e2["#facts"] = f
                            succs.append((tb, e2))
                        self.facts = env.get("#facts") or {}
                        if not succs:
                            break
                        self.stats["forks"] += len(succs) - 1
                        for tb, e2 in succs[1:]:
                            work.append((tb, e2, imp))
                        b, env = succs[0]
                        self.facts = env.get("#facts") or {}
                        continue
                    # a branch the domain cannot decide: follow every edge whose value lies in the interval, without refinement
                    self.events.append(("imprecise", g.loc(b, "T"), "branch on a value the linear/interval domain does not determine"))
                    edges = [tb for v, tb in listed if d.lo <= v <= d.hi]
                    if d.hi - d.lo + 1 > len([1 for v, _ in listed if d.lo <= v <= d.hi]):
                        edges.append(t["otherwise"])
                    self.stats["forks"] += len(edges) - 1
                    for tb in edges[1:]:
                        work.append((tb, dict(env), True))
                    b, imp = edges[0], True
                    continue
                if k == "call":
                    res = self.call(g, env, t, g.loc(b, "T"))
                    if t.get("target") is None or not res:
                        break
                    self.stats["forks"] += len(res) - 1
                    nxt = []
                    for rv in res:
                        e2 = dict(env) if len(res) > 1 else env
                        if isinstance(rv, Case):
                            if rv.fact is not None:
                                f = self._with_fact(e2.get("#facts") or {}, rv.fact[0], rv.fact[1])
                                if f is None:
                                    continue
                                e2["#facts"] = f
                            rv = rv.v
                        self.facts = e2.get("#facts") or {}
                        self.write(g, e2, t["dest"], rv)
                        nxt.append(e2)
                    if not nxt:
                        break
                    for e2 in nxt[1:]:
                        work.append((t["target"], e2, imp))
                    env = nxt[0]
                    self.facts = env.get("#facts") or {}
                    b = t["target"]
                    continue
                break   # unreachable / resume
        return outs


def _atoms_in(v, out):
    if isinstance(v, IV):
        if v.lin:
            out.update(x for x in v.lin if x != "")
        if v.cond:
            out.update(x for x in v.cond[0] if x != "")
    elif isinstance(v, (list, tuple)):
        for x in v:
            if isinstance(x, (IV, list, tuple)):
                _atoms_in(x, out)


def _refs_in(v):
    if isinstance(v, tuple) and v and v[0] == "ref":
        yield v[1]
    elif isinstance(v, tuple) and v and v[0] == "it":
        if v[1] == "slice":
            yield v[2]
        for x in v[2:]:
            if isinstance(x, (tuple, list)):
                yield from _refs_in(x)
    elif isinstance(v, tuple) and v and v[0] == "adt":
        for x in v[2]:
            yield from _refs_in(x)
    elif isinstance(v, list):
        for x in v:
            yield from _refs_in(x)
