"""Engine E4: path-sensitive interval analysis with taint over MIR ("range-checked taint").

Values (plain dicts, immutable by convention):
  int   {'k':'int','lo','hi','t':taint,'p2':is-power-of-two}
  bool  is int with lo,hi in {0,1}
  agg   {'k':'agg','f':{index: value},'t'}           tuples, structs, enum payloads (after downcast)
  enum  {'k':'enum','v':{variant index: payload agg or None},'t'}   Option / Result / ControlFlow
  seq   {'k':'seq','len':int value,'t'}               Vec / slice / String / array views
  ref   {'k':'ref','l':local}                         reference to a local of the same frame
  top   {'k':'top','t'}
An obligation is every site that can panic, overflow, index out of bounds, or allocate: it is *discharged* when
the abstract state proves it safe, *alarmed* when it may fail and the failing operand (or the branch leading to an
explicit panic) is tainted.  Untainted imprecision never raises an alarm.
"""
import os
import re
from collections import defaultdict

from .ir import callee_name, op_place, op_local

U = {"u8": 8, "u16": 16, "u32": 32, "u64": 64, "u128": 128, "usize": 64}
I = {"i8": 8, "i16": 16, "i32": 32, "i64": 64, "i128": 128, "isize": 64}
ALLOC_LIMIT = 1 << 24


def ty_range(ty):
    if ty in U:
        return 0, (1 << U[ty]) - 1
    if ty in I:
        return -(1 << (I[ty] - 1)), (1 << (I[ty] - 1)) - 1
    if ty == "bool":
        return 0, 1
    return None


def mk(lo, hi, t=False, p2=False, s=None, ib=False):
    return {"k": "int", "lo": lo, "hi": hi, "t": t, "p2": p2, "s": s, "ib": ib}


def tag_depth(s):
    if not isinstance(s, tuple) or not s or s[0] not in ("Add", "Sub", "Mul", "BitAnd", "BitOr", "BitXor", "Shl", "Shr", "Div", "Rem"):
        return 0
    return 1 + max(tag_depth(s[1]), tag_depth(s[2]))


def _rel_fact(facts, op, sa, sb):
    """record the order relation between two tagged values established by a branch (tags name immutable values)"""
    if sa is None or sb is None:
        return
    facts[("cmp", sa, sb)] = (1, 1, False)
    facts[("cmp", sb, sa)] = (1, 1, False)
    if op == "Lt":
        facts[("lt", sa, sb)] = (1, 1, False)
    elif op == "Gt":
        facts[("lt", sb, sa)] = (1, 1, False)
    elif op == "Le":
        facts[("le", sa, sb)] = (1, 1, False)
    elif op == "Ge":
        facts[("le", sb, sa)] = (1, 1, False)
    elif op == "Eq":
        facts[("le", sa, sb)] = (1, 1, False)
        facts[("le", sb, sa)] = (1, 1, False)


def rel_lt(facts, a, b):
    """is a < b established for int values a, b (by tags)?"""
    if not facts or a is None or b is None or a.get("k") != "int" or b.get("k") != "int":
        return False
    sa, sb = a.get("s"), b.get("s")
    if sa is None or sb is None:
        return False
    if ("lt", sa, sb) in facts:
        return True
    # a <= max(a, y) < b ; a < min(b, y) <= b
    for k in facts:
        if isinstance(k, tuple) and len(k) == 3 and k[0] == "lt":
            if k[2] == sb and isinstance(k[1], tuple) and k[1][0] == "max" and sa in k[1][1:]:
                return True
            if k[1] == sa and isinstance(k[2], tuple) and k[2][0] == "min" and sb in k[2][1:]:
                return True
    # a <= c < b or a < c <= b through one intermediate value
    for k in facts:
        if isinstance(k, tuple) and len(k) == 3 and k[0] in ("lt", "le") and k[1] == sa:
            mid = k[2]
            if k[0] == "lt" and (("le", mid, sb) in facts or ("lt", mid, sb) in facts):
                return True
            if k[0] == "le" and ("lt", mid, sb) in facts:
                return True
    return False


def const(v, t=False):
    return mk(v, v, t, v > 0 and v & (v - 1) == 0, ("c", v))


def top(t=False):
    return {"k": "top", "t": t}


def top_ty(ty, t=False):
    r = ty_range(ty)
    if r:
        return mk(r[0], r[1], t)
    if ty.startswith(("alloc::vec::Vec<", "&[", "&mut [", "alloc::string::String", "&str", "[")) and not re.match(r"^\[[^;]+; \d+\]$", ty):
        return {"k": "seq", "len": mk(0, (1 << 64) - 1, t), "t": t}
    m = re.match(r"^\[[^;]+; (\d+)\]$", ty)
    if m:
        return {"k": "seq", "len": const(int(m.group(1))), "t": t}
    return top(t)


def taint_of(v):
    if v is None:
        return False
    k = v["k"]
    if k == "int" or k == "top":
        return v["t"]
    if k == "seq":
        return v["t"] or v["len"]["t"]
    if k == "agg":
        return v["t"] or any(taint_of(x) for x in v["f"].values())
    if k == "enum":
        return v["t"] or any(taint_of(x) for x in v["v"].values() if x)
    return False


def join(a, b):
    if a is None:
        return b
    if b is None:
        return a
    if a["k"] == "int" and b["k"] == "int":
        return mk(min(a["lo"], b["lo"]), max(a["hi"], b["hi"]), a["t"] or b["t"], a["p2"] and b["p2"],
                  a.get("s") if a.get("s") == b.get("s") else None, bool(a.get("ib")) and bool(b.get("ib")))
    if a["k"] == "seq" and b["k"] == "seq":
        r = {"k": "seq", "len": join(a["len"], b["len"]), "t": a["t"] or b["t"]}
        if a.get("e") is not None and b.get("e") is not None:
            r["e"] = join(a["e"], b["e"])
        elif a.get("e") is not None and b["len"]["hi"] == 0:
            r["e"] = a["e"]
        elif b.get("e") is not None and a["len"]["hi"] == 0:
            r["e"] = b["e"]
        return r
    if a["k"] == "agg" and b["k"] == "agg":
        keys = set(a["f"]) | set(b["f"])
        return {"k": "agg", "f": {k: join(a["f"].get(k), b["f"].get(k)) if (k in a["f"] and k in b["f"]) else top(taint_of(a) or taint_of(b)) for k in keys},
                "t": a["t"] or b["t"]}
    if a["k"] == "enum" and b["k"] == "enum":
        keys = set(a["v"]) | set(b["v"])
        return {"k": "enum", "v": {k: join(a["v"].get(k), b["v"].get(k)) if (a["v"].get(k) and b["v"].get(k)) else (a["v"].get(k) or b["v"].get(k)) for k in keys},
                "t": a["t"] or b["t"]}
    return top(taint_of(a) or taint_of(b))


def freeze(v):
    if v is None:
        return None
    k = v["k"]
    if k == "int":
        return ("i", v["lo"], v["hi"], v["t"], v["p2"], v.get("s"), bool(v.get("ib")), v.get("c"))
    if k == "top":
        return ("T", v["t"])
    if k == "seq":
        return ("s", freeze(v["len"]), v["t"], freeze(v.get("e")), v.get("id"))
    if k == "agg":
        return ("a", tuple(sorted((kk, freeze(x)) for kk, x in v["f"].items())), v["t"])
    if k == "enum":
        return ("e", tuple(sorted((kk, freeze(x)) for kk, x in v["v"].items())), v["t"])
    if k == "ref":
        return ("r", v["l"])
    return ("?",)


class Alarm:
    __slots__ = ("key", "what", "fn", "loc", "chain", "detail")

    def __init__(self, key, what, fn, loc, chain, detail):
        self.key = key
        self.what = what
        self.fn = fn
        self.loc = loc
        self.chain = chain
        self.detail = detail


class Summary:
    __slots__ = ("ret", "alarms", "returns", "sites", "discharged", "outcomes", "hull", "n_out", "err_pure", "accepts")

    def __init__(self):
        self.ret = None
        self.alarms = []
        self.returns = False
        self.sites = 0
        self.discharged = 0
        self.outcomes = []   # [(return value, facts)] per accepting path (deduplicated, bounded)
        self.hull = None     # facts that hold on every returning path (interval hull)
        self.n_out = 0
        self.accepts = []    # (return value, facts) of every non-Err return path of the root function (up to 256)
        self.err_pure = []   # Err-only returns reached without any decision on input-derived data: [(return loc, last decision loc)]


PANIC_FNS = ("core::panicking::panic", "core::panicking::panic_fmt", "core::panicking::panic_display",
             "core::panicking::assert_failed", "core::panicking::panic_explicit", "core::panicking::unreachable_display",
             "core::option::expect_failed", "core::option::unwrap_failed", "core::result::unwrap_failed",
             "core::panicking::panic_nounwind", "core::panicking::panic_bounds_check", "core::slice::index::slice_index_fail",
             "std::rt::begin_panic", "core::panicking::panic_const", "alloc::raw_vec::capacity_overflow", "alloc::alloc::handle_alloc_error")

READER = "winter_utils::serde::byte_reader::ByteReader"
DESER = "winter_utils::serde::Deserializable"
OPT = "core::option::Option"
RES = "core::result::Result"
CF = "core::ops::control_flow::ControlFlow"


class Analyzer:
    def __init__(self, prog, max_depth=10, opaque=None, taint_params=None, path_limit=20000):
        self.prog = prog
        # thorough tier (bin/wfcheck): deeper inlining and a larger path budget
        self.max_depth = max_depth + int(os.environ.get("WF_E4_DEPTH_BONUS", "0") or 0)
        self.memo = {}
        self.opaque = opaque or (lambda fn: False)
        self.path_limit = path_limit * int(os.environ.get("WF_E4_PATH_FACTOR", "1") or 1)
        self.stats = defaultdict(int)
        self.undecided = {}
        self.split_shifts = False
        self.check_truncation = False   # narrowing integer casts are sites (the operand must fit the target type)
        self.invariants = {}   # adt id -> {field index: (lo, hi)} checked at every construction site
        self.site_log = {}
        self.analysed_fns = set()
        self.type_inv = {}
        self._facts = None
        self._fresh = 0
        self.trusted = None
        self.contracts = {}
        self._inst = 0
        self._made_tag = False

    # ---- helpers -------------------------------------------------------------------------------
    # optional: an explicit panic reached under a branch on input stays input-controlled across nested untainted branches, until the
    # branches join (post-dominator). Off by default: with it, every assertion on AIR-defined values that merely sits behind a parsing
    # decision would need the AIR-side invariant that makes it true.
    sticky_control = False

    def fresh(self, kind, fn, b):
        """tag for a value that is new in this invocation of fn (same on every path of the invocation)"""
        self._made_tag = True
        return (kind, fn.id, b, self._inst)

    def with_facts(self, st, v):
        """apply the path's relational facts to an int value"""
        if v is None or v.get("k") != "int" or v.get("s") is None:
            return v
        facts = st.get("#facts")
        if facts and v["s"] in facts:
            f = facts[v["s"]]
            lo, hi = max(f[0], v["lo"]), min(f[1], v["hi"])
            if lo <= hi:
                v = dict(v)
                v["lo"], v["hi"] = lo, hi
                v["p2"] = v["p2"] or (len(f) > 2 and f[2])
        return v

    def local_desc(self, fn, op):
        p = op_place(op)
        if p is None:
            c = op.get("const") or {}
            if "def" in c:
                return c.get("def_name", c["def"]).split("::")[-1]
            return str(c.get("scalar", "const"))
        l = p["l"]
        nm = fn.local_name(l)
        if nm:
            s = nm
        else:
            s = self._origin_name(fn, l)
        for e in p.get("p", []):
            if isinstance(e, dict) and "f" in e and e.get("n"):
                s += "." + e["n"]
        return s

    def _origin_name(self, fn, l, depth=0):
        if depth > 4:
            return "tmp"
        ds = fn.defs.get(l, [])
        if len(ds) == 1:
            b, i, s = ds[0]
            if i == "T":
                return (callee_name(s) or "call").split("::")[-1] + "()"
            rv = s.get("rv") or {}
            if rv.get("k") in ("use", "cast"):
                p = op_place(rv["a"])
                if p is not None:
                    nm = fn.local_name(p["l"])
                    flds = [e.get("n") for e in p.get("p", []) if isinstance(e, dict) and "f" in e and e.get("n")]
                    if nm:
                        return nm + "".join("." + f for f in flds if f)
                    base = self._origin_name(fn, p["l"], depth + 1)
                    return base + "".join("." + f for f in flds if f)
                c = rv["a"].get("const") or {}
                return c.get("def_name", str(c.get("scalar", "const"))).split("::")[-1]
            if rv.get("k") == "bin":
                return f"{self.local_desc(fn, rv['a'])}{ {'Add':'+','Sub':'-','Mul':'*','Div':'/','Rem':'%','AddWithOverflow':'+','SubWithOverflow':'-','MulWithOverflow':'*','Shl':'<<','Shr':'>>'}.get(rv['op'], rv['op']) }{self.local_desc(fn, rv['b'])}"
        return "tmp"

    # ---- state access --------------------------------------------------------------------------
    def read_place(self, fn, st, p):
        v = st.get(p["l"])
        if v is None:
            v = top_ty(fn.local_ty(p["l"]))
        for e in p.get("p", []):
            if v is None:
                return top()
            if e == "deref":
                if v["k"] == "ref":
                    v = st.get(v["l"]) or top_ty(fn.local_ty(v["l"]))
                continue
            if isinstance(e, dict) and "f" in e:
                if v["k"] == "agg":
                    v = v["f"].get(e["f"], top(v["t"]))
                elif v["k"] == "enum":
                    # downcast already selected; payload aggregated
                    v = top(v["t"])
                else:
                    v = top(taint_of(v))
            elif isinstance(e, dict) and "down" in e:
                if v["k"] == "enum":
                    pv = v["v"].get(e["down"])
                    v = pv if pv is not None else {"k": "agg", "f": {}, "t": v["t"]}
                else:
                    v = top(taint_of(v))
            elif isinstance(e, dict) and "idx" in e and v["k"] == "seq" and v.get("e") is not None:
                v = v["e"]       # seq[i]: the element summary (what `next()` of its iterator yields as well)
            elif isinstance(e, dict) and ("idx" in e or "cidx" in e or "sub" in e):
                v = top(taint_of(v))
            else:
                v = top(taint_of(v))
        return v

    def read_op(self, fn, st, op):
        p = op_place(op)
        if p is not None:
            v = self.read_place(fn, st, p)
            if v["k"] == "int" and v.get("s") is not None:
                facts = st.get("#facts")
                if facts and v["s"] in facts:
                    lo, hi = facts[v["s"]][:2]
                    fp2 = len(facts[v["s"]]) > 2 and facts[v["s"]][2]
                    lo, hi = max(lo, v["lo"]), min(hi, v["hi"])
                    if lo <= hi and ((lo, hi) != (v["lo"], v["hi"]) or (fp2 and not v["p2"])):
                        v = dict(v)
                        v["lo"], v["hi"] = lo, hi
                        v["p2"] = v["p2"] or fp2
            return v
        c = op.get("const") or {}
        if "scalar" in c:
            v = int(c["scalar"])
            ty = c.get("ty", "")
            if ty in I and v >= (1 << (I[ty] - 1)):
                v -= 1 << I[ty]
            return const(v)
        ty = c.get("ty", "")
        d = c.get("def") or ""
        if "pbytes" in c and ("RangeInclusive<usize>" in ty or "::Range<usize>" in ty):
            raw = bytes.fromhex(c["pbytes"])
            if len(raw) >= 16:
                lo = int.from_bytes(raw[0:8], "little")
                hi = int.from_bytes(raw[8:16], "little")
                return {"k": "agg", "f": {0: const(lo), 1: const(hi)}, "t": False}
        if d.endswith("::ELEMENT_BYTES") or d.endswith("::VALUE_SIZE"):
            return mk(1, 64)
        if d.endswith("::EXTENSION_DEGREE"):
            return mk(1, 3)
        if d.endswith("::MODULUS_BITS"):
            return mk(1, 128)
        if d.endswith("::COLLISION_RESISTANCE"):
            return mk(0, 256)
        return top_ty(ty)

    def write_place(self, fn, st, p, v):
        l = p["l"]
        proj = p.get("p", [])
        if not proj:
            if v is not None and v.get("k") == "top":
                # an unknown value stored in a local of integer type is an unknown INTEGER: it has the type's range, can be refined by
                # comparisons and is an operand of the sites it reaches (index, length, shift amount) like any other
                r = ty_range(fn.local_ty(l))
                if r:
                    v = mk(r[0], r[1], bool(v.get("t")))
                    v["s"] = self.fresh("top", fn, l)
            st[l] = v
            return
        if proj[0] == "deref":
            cur = st.get(l)
            if cur and cur["k"] == "ref" and len(proj) == 1:
                st[cur["l"]] = v
            elif cur and cur["k"] == "ref":
                st[cur["l"]] = self._update(st.get(cur["l"]), proj[1:], v)
            elif cur is not None and len(proj) > 1:
                # the parameter holds the referent's value itself (references are passed by value into callee frames)
                st[l] = self._update(cur, proj[1:], v)
            elif len(proj) == 1:
                st[l] = v
            return
        st[l] = self._update(st.get(l), proj, v)

    def _update(self, cur, proj, v):
        e = proj[0]
        if isinstance(e, dict) and "f" in e and len(proj) == 1:
            base = cur if (cur and cur["k"] == "agg") else {"k": "agg", "f": {}, "t": taint_of(cur) if cur else False}
            f = dict(base["f"])
            f[e["f"]] = v
            return {"k": "agg", "f": f, "t": base["t"]}
        return top(taint_of(cur) or taint_of(v))

    # ---- arithmetic ----------------------------------------------------------------------------
    def binop(self, op, a, b, ty):
        t = taint_of(a) or taint_of(b)
        if a["k"] != "int" or b["k"] != "int":
            r = ty_range(ty)
            if op in ("Lt", "Le", "Gt", "Ge", "Eq", "Ne"):
                return mk(0, 1, t)
            return mk(r[0], r[1], t) if r else top(t)
        lo = hi = None
        p2 = False
        if op in ("Add", "AddWithOverflow", "AddUnchecked"):
            lo, hi = a["lo"] + b["lo"], a["hi"] + b["hi"]
            for x, y in ((a, b), (b, a)):
                sx = x.get("s")
                # (K - u) + v with v < u  is  < K ; with v <= u it is <= K
                if isinstance(sx, tuple) and sx[0] == "Sub" and isinstance(sx[1], tuple) and sx[1][0] == "c" and y.get("s") is not None and self._facts:
                    if ("lt", y["s"], sx[2]) in self._facts:
                        hi = min(hi, sx[1][1] - 1)
                    elif ("le", y["s"], sx[2]) in self._facts:
                        hi = min(hi, sx[1][1])
        elif op in ("Sub", "SubWithOverflow", "SubUnchecked"):
            lo, hi = a["lo"] - b["hi"], a["hi"] - b["lo"]
            sa_ = a.get("s")
            if isinstance(sa_, tuple) and sa_[0] == "Shl" and b.get("s") is not None and sa_[1] == b["s"] and isinstance(sa_[2], tuple) and sa_[2][0] == "c" \
                    and b["lo"] >= 0 and a["hi"] == b["hi"] << sa_[2][1]:
                # (x << k) - x == x * (2^k - 1) when the shift loses no bits
                kk_ = (1 << sa_[2][1]) - 1
                lo, hi = max(lo, b["lo"] * kk_), min(hi, b["hi"] * kk_)
            if a.get("s") is not None and b.get("s") is not None and self._facts:
                # a - b with b <= a (b < a) established on this path
                if ("lt", b["s"], a["s"]) in self._facts:
                    lo = max(lo, 1)
                elif ("le", b["s"], a["s"]) in self._facts:
                    lo = max(lo, 0)
            sb = b.get("s")
            if a.get("s") is not None and isinstance(sb, tuple) and a["lo"] >= 0 and (
                    (sb[0] == "BitAnd" and a["s"] in sb[1:]) or (sb[0] in ("Rem", "Shr", "Div") and sb[1] == a["s"])):
                lo = max(lo, 0)  # x - (x & m), x - (x % m), x - (x >> k), x - x / k never underflow
        elif op in ("Mul", "MulWithOverflow", "MulUnchecked"):
            c = [a["lo"] * b["lo"], a["lo"] * b["hi"], a["hi"] * b["lo"], a["hi"] * b["hi"]]
            lo, hi = min(c), max(c)
            p2 = a["p2"] and b["p2"]
        elif op == "Div":
            if b["lo"] > 0 and a["lo"] >= 0:
                lo, hi = a["lo"] // b["hi"], a["hi"] // b["lo"]
                p2 = a["p2"] and b["p2"] and b["lo"] == b["hi"] and a["lo"] >= b["hi"]
            else:
                lo, hi = ty_range(ty) or (None, None)
        elif op == "Rem":
            if b["lo"] > 0 and a["lo"] >= 0:
                lo, hi = 0, min(a["hi"], b["hi"] - 1)
            else:
                lo, hi = ty_range(ty) or (None, None)
        elif op == "Shl":
            if b["lo"] >= 0 and b["hi"] < 200 and a["lo"] >= 0:
                lo, hi = a["lo"] << b["lo"], a["hi"] << b["hi"]
                p2 = a["p2"]
            else:
                lo, hi = ty_range(ty) or (None, None)
        elif op == "Shr":
            if b["lo"] >= 0 and a["lo"] >= 0:
                lo, hi = a["lo"] >> min(b["hi"], 200), a["hi"] >> b["lo"]
            else:
                lo, hi = ty_range(ty) or (None, None)
        elif op == "BitAnd":
            if a["lo"] >= 0 and b["lo"] >= 0:
                lo, hi = 0, min(a["hi"], b["hi"])
            else:
                lo, hi = ty_range(ty) or (None, None)
        elif op in ("BitOr", "BitXor"):
            if a["lo"] >= 0 and b["lo"] >= 0:
                lo, hi = 0, (1 << max(a["hi"].bit_length(), b["hi"].bit_length())) - 1
            else:
                lo, hi = ty_range(ty) or (None, None)
        elif op in ("Lt", "Le", "Gt", "Ge", "Eq", "Ne"):
            res = self.cmp(op, a, b)
            r = mk(res[0], res[1], t)
            if a.get("s") is not None and b.get("s") is not None:
                r["c"] = (op, a["s"], b["s"], (a["lo"], a["hi"]), (b["lo"], b["hi"]))
            return r
        else:
            r = ty_range(ty)
            return mk(r[0], r[1], t) if r else top(t)
        if lo is None:
            return top(t)
        tag = None
        base = {"AddWithOverflow": "Add", "AddUnchecked": "Add", "SubWithOverflow": "Sub", "SubUnchecked": "Sub",
                "MulWithOverflow": "Mul", "MulUnchecked": "Mul"}.get(op, op)
        if base in ("Add", "Sub", "Mul", "BitAnd", "BitOr", "BitXor", "Shl", "Shr", "Div", "Rem") and a.get("s") is not None and b.get("s") is not None:
            sa, sb = a["s"], b["s"]
            if base in ("Add", "Mul", "BitAnd", "BitOr", "BitXor") and repr(sb) < repr(sa):
                sa, sb = sb, sa
            tag = (base, sa, sb)
            if tag_depth(tag) > 4:
                tag = None
        if lo == hi:
            tag = ("c", lo)
        fp2 = False
        if tag is not None and self._facts and tag in self._facts:
            flo, fhi = self._facts[tag][:2]
            fp2 = len(self._facts[tag]) > 2 and self._facts[tag][2]
            lo, hi = max(lo, flo), min(hi, fhi)
            if lo > hi:
                lo, hi = flo, fhi
        ib = False
        if base in ("Div", "Rem", "Shr"):
            ib = bool(a.get("ib"))
        elif base == "Sub":
            ib = bool(a.get("ib"))
        elif base == "Mul":
            ib = (bool(a.get("ib")) and b["hi"] <= 65536) or (bool(b.get("ib")) and a["hi"] <= 65536)
        elif base == "Add":
            ib = (bool(a.get("ib")) and b["hi"] <= 65536) or (bool(b.get("ib")) and a["hi"] <= 65536) or (bool(a.get("ib")) and bool(b.get("ib")))
        r = mk(lo, hi, t, (p2 and (lo == hi or base in ("Mul", "Shl"))) or fp2, tag)
        r["ib"] = ib
        return r

    @staticmethod
    def cmp(op, a, b):
        """possible truth values (lo, hi) of a op b"""
        if op == "Lt":
            if a["hi"] < b["lo"]:
                return 1, 1
            if a["lo"] >= b["hi"]:
                return 0, 0
        elif op == "Le":
            if a["hi"] <= b["lo"]:
                return 1, 1
            if a["lo"] > b["hi"]:
                return 0, 0
        elif op == "Gt":
            if a["lo"] > b["hi"]:
                return 1, 1
            if a["hi"] <= b["lo"]:
                return 0, 0
        elif op == "Ge":
            if a["lo"] >= b["hi"]:
                return 1, 1
            if a["hi"] < b["lo"]:
                return 0, 0
        elif op == "Eq":
            if a["lo"] == a["hi"] == b["lo"] == b["hi"]:
                return 1, 1
            if a["hi"] < b["lo"] or a["lo"] > b["hi"]:
                return 0, 0
        elif op == "Ne":
            if a["lo"] == a["hi"] == b["lo"] == b["hi"]:
                return 0, 0
            if a["hi"] < b["lo"] or a["lo"] > b["hi"]:
                return 1, 1
        return 0, 1

    def clamp(self, v, ty, wrap_note=None):
        r = ty_range(ty)
        if r is None or v["k"] != "int":
            return v
        if v["lo"] < r[0] or v["hi"] > r[1]:
            return mk(r[0], r[1], v["t"])
        return v

    # ---- refinement ----------------------------------------------------------------------------
    def refine(self, fn, st, cond_local, truth):
        """refine st assuming bool local cond_local == truth. Returns False if infeasible."""
        fact = st.get(("fact", cond_local))
        if fact:
            self._apply_fact(fn, st, fact, truth)
        ds = fn.defs.get(cond_local, [])
        full = [d for d in ds if d[1] != "T" and d[2]["k"] == "assign" and "p" not in d[2]["lhs"]]
        if len(ds) != 1 or not full:
            # call result (is_power_of_two etc.) : handled through facts attached at call time
            return True
        rv = full[0][2]["rv"]
        if rv["k"] == "un" and rv["op"] == "Not":
            l = op_local(rv["a"], pure=True)
            return self.refine(fn, st, l, not truth) if l is not None else True
        if rv["k"] == "use":
            l = op_local(rv["a"], pure=True)
            return self.refine(fn, st, l, truth) if l is not None else True
        if rv["k"] != "bin" or rv["op"] not in ("Lt", "Le", "Gt", "Ge", "Eq", "Ne"):
            return True
        op = rv["op"]
        if not truth:
            op = {"Lt": "Ge", "Le": "Gt", "Gt": "Le", "Ge": "Lt", "Eq": "Ne", "Ne": "Eq"}[op]
        a = self.read_op(fn, st, rv["a"])
        b = self.read_op(fn, st, rv["b"])
        if a["k"] != "int" or b["k"] != "int":
            return True
        na, nb = dict(a), dict(b)
        if op == "Lt":
            na["hi"] = min(a["hi"], b["hi"] - 1)
            nb["lo"] = max(b["lo"], a["lo"] + 1)
        elif op == "Le":
            na["hi"] = min(a["hi"], b["hi"])
            nb["lo"] = max(b["lo"], a["lo"])
        elif op == "Gt":
            na["lo"] = max(a["lo"], b["lo"] + 1)
            nb["hi"] = min(b["hi"], a["hi"] - 1)
        elif op == "Ge":
            na["lo"] = max(a["lo"], b["lo"])
            nb["hi"] = min(b["hi"], a["hi"])
        elif op == "Eq":
            lo, hi = max(a["lo"], b["lo"]), min(a["hi"], b["hi"])
            na["lo"] = nb["lo"] = lo
            na["hi"] = nb["hi"] = hi
        elif op == "Ne":
            if b["lo"] == b["hi"]:
                if a["lo"] == b["lo"]:
                    na["lo"] = a["lo"] + 1
                if a["hi"] == b["lo"]:
                    na["hi"] = a["hi"] - 1
            if a["lo"] == a["hi"]:
                if b["lo"] == a["lo"]:
                    nb["lo"] = b["lo"] + 1
                if b["hi"] == a["lo"]:
                    nb["hi"] = b["hi"] - 1
        for v in (na, nb):
            if v.get("p2") and v["lo"] <= v["hi"]:
                v["lo"] = npot(max(v["lo"], 1))
                if v["hi"] >= 1:
                    v["hi"] = 1 << (v["hi"].bit_length() - 1)
        if na["lo"] > na["hi"] or nb["lo"] > nb["hi"]:
            return False
        if na["lo"] != na["hi"] or not (na["lo"] > 0 and na["lo"] & (na["lo"] - 1) == 0):
            na["p2"] = a["p2"]
        facts = dict(st.get("#facts") or {})
        _rel_fact(facts, op, a.get("s"), b.get("s"))
        for v in (na, nb):
            if v.get("s") is not None and v["s"][0] != "c":
                old = facts.get(v["s"])
                facts[v["s"]] = (max(v["lo"], old[0]), min(v["hi"], old[1]), bool(v.get("p2")) or (len(old) > 2 and old[2])) if old else (v["lo"], v["hi"], bool(v.get("p2")))
        st["#facts"] = facts
        self._store_refined(fn, st, rv["a"], na)
        self._store_refined(fn, st, rv["b"], nb)
        return True

    def _store_refined(self, fn, st, op, v):
        p = op_place(op)
        if p is None:
            return
        self.write_place(fn, st, p, v)
        # propagate to the variable the temporary was copied from (one or two steps)
        l = p["l"]
        for _ in range(3):
            if "p" in p:
                break
            ds = fn.defs.get(l, [])
            if len(ds) != 1 or ds[0][1] == "T" or ds[0][2]["k"] != "assign":
                break
            rv = ds[0][2]["rv"]
            if rv["k"] == "use":
                src = op_place(rv["a"])
                if src is None:
                    break
                # only if the source has not been reassigned since (approximation: single def or named local)
                self.write_place(fn, st, src, v)
                if "p" in src:
                    break
                l = src["l"]
                p = src
            elif rv["k"] == "cast" and rv.get("ck") == "IntToInt":
                src = op_place(rv["a"])
                if src is None:
                    break
                fr = ty_range(rv["from"])
                old = self.read_place(fn, st, src)
                if fr and old["k"] == "int" and old["lo"] >= 0 and old["hi"] <= (ty_range(rv["to"]) or (0, -1))[1]:
                    # value-preserving cast: refinement transfers
                    nv = dict(v)
                    nv["lo"] = max(v["lo"], old["lo"])
                    nv["hi"] = min(v["hi"], old["hi"])
                    if nv["lo"] <= nv["hi"]:
                        self.write_place(fn, st, src, nv)
                        v = nv
                        if "p" in src:
                            break
                        l = src["l"]
                        p = src
                        continue
                break
            else:
                break


# =================================================================================================
# interpreter
# =================================================================================================

def name_value(v, base):
    """give identity to the parts of an argument value: sequence ids (and tags for their lengths), tags for integers"""
    if v is None:
        return v
    k = v["k"]
    if k == "int":
        if v.get("s") is None and v["lo"] != v["hi"]:
            v = dict(v)
            v["s"] = ("arg",) + base
        return v
    if k == "seq":
        v = dict(v)
        if v.get("id") is None:
            v["id"] = ("seq",) + base
        ln = dict(v["len"])
        if ln.get("s") is None and ln["lo"] != ln["hi"]:
            ln["s"] = ("len", v["id"])
        v["len"] = ln
        if v.get("e") is not None:
            v["e"] = name_value(v["e"], base + ("e",))
        return v
    if k == "agg":
        return {"k": "agg", "f": {kk: name_value(x, base + (kk,)) for kk, x in v["f"].items()}, "t": v["t"]}
    if k == "enum":
        return {"k": "enum", "v": {kk: (name_value(x, base + ("v", kk)) if x else x) for kk, x in v["v"].items()}, "t": v["t"]}
    return v


def enum_val(variants, t=False):
    return {"k": "enum", "v": variants, "t": t}


def payload(x):
    return {"k": "agg", "f": {0: x}, "t": False}


def result_ok_err(okv, t=True, errv=None):
    return enum_val({0: payload(okv), 1: payload(errv or top(t))}, t)


def seq(lenv, t=False):
    return {"k": "seq", "len": lenv, "t": t}


def ilog2(n):
    return n.bit_length() - 1


def npot(n):
    if n <= 1:
        return 1
    return 1 << (n - 1).bit_length()


class _Frame:
    pass


ITER_TY = re.compile(r"^(core::slice::iter::|core::iter::adapters::|alloc::vec::into_iter::|core::ops::range::Range)")


def _ipdom(fn):
    """immediate post-dominator of every block (None = the virtual exit), iterative algorithm on the reversed CFG"""
    c = getattr(fn, "_ipdom_cache", None)
    if c is not None:
        return c
    n = len(fn.blocks)
    succ = fn.succ
    EXIT = n
    order = []
    seen = set()
    # post-order of the reversed graph from EXIT
    preds_rev = {b: list(succ[b]) or [EXIT] for b in range(n)}     # edges b -> s ; blocks without successors go to EXIT
    rsucc = {b: [] for b in range(n + 1)}
    for b in range(n):
        for s_ in preds_rev[b]:
            rsucc[s_].append(b)
    stack = [(EXIT, iter(rsucc[EXIT]))]
    seen.add(EXIT)
    while stack:
        x, it = stack[-1]
        for y in it:
            if y not in seen:
                seen.add(y)
                stack.append((y, iter(rsucc[y])))
                break
        else:
            order.append(x)
            stack.pop()
    idx = {x: i for i, x in enumerate(order)}
    idom = {EXIT: EXIT}

    def inter(a, b_):
        while a != b_:
            while idx[a] < idx[b_]:
                a = idom[a]
            while idx[b_] < idx[a]:
                b_ = idom[b_]
        return a
    changed = True
    while changed:
        changed = False
        for x in reversed(order):
            if x == EXIT:
                continue
            ps = [p_ for p_ in preds_rev[x] if p_ in idom]
            if not ps:
                continue
            new = ps[0]
            for p_ in ps[1:]:
                new = inter(new, p_)
            if idom.get(x) != new:
                idom[x] = new
                changed = True
    res = {b: (None if idom.get(b, EXIT) == EXIT else idom[b]) for b in range(n)}
    try:
        fn._ipdom_cache = res
    except Exception:
        pass
    return res


def _loops(fn):
    """back-edge targets and, per target, the set of locals assigned (or possibly mutated) in the loop"""
    color = {}
    back = set()
    stack = [(0, iter(fn.succ[0]))]
    color[0] = 1
    while stack:
        b, it = stack[-1]
        adv = False
        for s in it:
            if color.get(s, 0) == 0:
                color[s] = 1
                stack.append((s, iter(fn.succ[s])))
                adv = True
                break
            elif color.get(s) == 1:
                back.add((b, s))
        if not adv:
            color[b] = 2
            stack.pop()
    info = {}
    preds = fn.pred
    for (src, hdr) in back:
        body = {hdr, src}
        st = [src]
        while st:
            x = st.pop()
            if x == hdr:
                continue
            for p in preds[x]:
                if p not in body:
                    body.add(p)
                    st.append(p)
        info.setdefault(hdr, set()).update(body)
    assigned = {}
    for hdr, body in info.items():
        ls = set()
        for b in body:
            for s in fn.stmts(b):
                if s["k"] in ("assign", "setdiscr"):
                    ls.add(s["lhs"]["l"])
                    rv = s.get("rv") or {}
                    if rv.get("k") in ("ref", "rawptr") and rv.get("mut"):
                        ls.add(("mut", rv["p"]["l"]))
            t = fn.term(b)
            if t["k"] == "call":
                ls.add(t["dest"]["l"])
                for a in t["args"]:
                    l = op_local(a)
                    if l is not None:
                        ls.add(("ref", l))
        assigned[hdr] = ls
    return {h for (_, h) in back}, assigned, back, info


FULL_ITER = {"cloned", "copied", "enumerate", "rev"}


def _exhaustion_edges(fn, headers, bodies):
    """edges (switch block -> block outside the loop) taken when `Iterator::next` of a loop over a whole slice/vector returns None"""
    exh, nxt = {}, {}
    for h in headers:
        body = bodies[h]
        for nb in body:
            t = fn.term(nb)
            if t["k"] != "call" or not (callee_name(t) or "").endswith("Iterator::next") or t.get("target") is None:
                continue
            ity = ((t.get("fn") or {}).get("targs") or [""])[0]
            adapters = set(re.findall(r"core::iter::adapters::(\w+)::", ity))
            if not adapters <= FULL_ITER or not re.search(r"core::slice::iter::Iter<|alloc::vec::into_iter::IntoIter<", ity):
                continue
            tb = t["target"]
            tt = fn.term(tb)
            if tt["k"] != "switch" or tb not in body:
                continue
            none = [x for v, x in tt["targets"] if v == "0"]
            if len(none) == 1 and none[0] not in body and sum(1 for x in body if (callee_name(fn.term(x)) or "").endswith("Iterator::next")) == 1:
                exh[(tb, none[0])] = h
                nxt[h] = t
    # counted loops over a whole slice: `let mut i = 0; while i < seq.len() { .. seq[i] ..; i += 1 }` — the edge on which `i < len` is false
    # is taken exactly when every index 0..len has been visited, like the exhaustion of `seq.iter()`
    for h in headers:
        if h in nxt:
            continue
        body = bodies[h]
        for sb in body:
            tt = fn.term(sb)
            if tt["k"] != "switch" or len(tt["targets"]) != 1 or tt["targets"][0][0] != "0":
                continue
            exit_b, stay_b = tt["targets"][0][1], tt["otherwise"]
            if exit_b in body or stay_b not in body:
                continue
            dl = op_local(tt["d"], pure=True)
            cmpst = None
            for st_ in fn.stmts(sb):
                if st_["k"] == "assign" and st_["lhs"]["l"] == dl and st_["rv"]["k"] == "bin" and st_["rv"]["op"] == "Lt":
                    cmpst = st_
            if cmpst is None:
                continue

            def chase(l):
                for _ in range(4):
                    ds = [(bb, ii, ss) for bb, ii, ss in fn.defs.get(l, [])]
                    if len(ds) != 1 or ds[0][1] == "T" or ds[0][2]["rv"]["k"] != "use":
                        return l
                    nl = op_local(ds[0][2]["rv"]["a"], pure=True)
                    if nl is None:
                        return l
                    l = nl
                return l
            ctr = chase(op_local(cmpst["rv"]["a"], pure=True)) if op_local(cmpst["rv"]["a"], pure=True) is not None else None
            lenl = op_local(cmpst["rv"]["b"], pure=True)
            if ctr is None or lenl is None:
                continue
            # the right-hand side is the length of a slice / vector: result of `len()` (or PtrMetadata) taken inside the loop head
            ld = fn.defs.get(lenl, [])
            seq_op = None
            if len(ld) == 1 and ld[0][1] == "T" and (callee_name(ld[0][2]) or "").endswith(("slice::len", "Vec::len")) and ld[0][2]["args"]:
                al = op_local(ld[0][2]["args"][0], pure=True)
                ad = fn.defs.get(al, []) if al is not None else []
                if len(ad) == 1 and ad[0][1] != "T" and ad[0][2]["rv"]["k"] == "ref":
                    pl = ad[0][2]["rv"]["p"]
                    if pl.get("p") in (["deref"], None, []):
                        seq_op = {"copy": {"l": pl["l"]}} if pl.get("p") == ["deref"] else {"ref_of": pl["l"]}
            if seq_op is None or "ref_of" in seq_op:
                continue
            # the counter: one definition outside the loop (the constant 0), one inside (itself plus the constant 1)
            cds = fn.defs.get(ctr, [])
            outside = [d for d in cds if d[0] not in body]
            inside = [d for d in cds if d[0] in body]
            if len(outside) != 1 or len(inside) != 1 or outside[0][1] == "T" or inside[0][1] == "T":
                continue
            o_rv, i_rv = outside[0][2]["rv"], inside[0][2]["rv"]
            if not (o_rv["k"] == "use" and (o_rv["a"].get("const") or {}).get("scalar") in ("0", 0)):
                continue
            step_ok = False
            if i_rv["k"] == "use":
                sl = op_local(i_rv["a"])
                sd = fn.defs.get(sl, []) if sl is not None else []
                if len(sd) == 1 and sd[0][1] != "T" and sd[0][2]["rv"]["k"] == "bin" and sd[0][2]["rv"]["op"] in ("AddWithOverflow", "Add", "AddUnchecked"):
                    a_, b_ = sd[0][2]["rv"]["a"], sd[0][2]["rv"]["b"]
                    step_ok = op_local(a_, pure=True) == ctr and (b_.get("const") or {}).get("scalar") in ("1", 1)
            elif i_rv["k"] == "bin" and i_rv["op"] in ("Add", "AddUnchecked"):
                step_ok = op_local(i_rv["a"], pure=True) == ctr and (i_rv["b"].get("const") or {}).get("scalar") in ("1", 1)
            if not step_ok:
                continue
            exh[(sb, exit_b)] = h
            nxt[h] = {"args": [seq_op], "counted": True}
    return exh, nxt


def _int_tags(v, out):
    if v is None:
        return
    if v["k"] == "int" and v.get("s") is not None:
        out.add(v["s"])
    elif v["k"] == "agg":
        for x in v["f"].values():
            _int_tags(x, out)


def _iter_elem_tags(self, fn, st, next_term):
    rv = self.read_op(fn, st, next_term["args"][0]) if next_term.get("args") else None
    tgt = _ref_target(st, rv)
    v = st.get(tgt) if tgt is not None else None
    if v is None and next_term.get("counted") and rv is not None and rv.get("k") == "seq":
        v = rv        # a counted loop names the slice itself (a `&[T]` parameter is held as the sequence)
    out = set()
    if v and v["k"] == "seq":
        _int_tags(v.get("e"), out)
    return out


Analyzer._iter_elem_tags = _iter_elem_tags


def _analyze(self, fn, args, chain=(), subst=None, facts=None):
    subst = subst or {}
    facts = facts or {}
    key = (fn.id, tuple(freeze(a) for a in args), tuple(sorted(subst.items())), tuple(sorted((repr(k), v) for k, v in facts.items())))
    if key in self.memo:
        return self.memo[key]
    summ = Summary()
    if fn.nname in self.contracts:
        lo, hi = self.contracts[fn.nname]
        summ.returns = True
        summ.ret = mk(lo, hi, any(taint_of(a) for a in args))
        self.memo[key] = summ
        return summ
    if len(chain) >= self.max_depth or fn.id in chain or self.opaque(fn):
        summ.returns = True
        out = fn.get("output") or ""
        tt = any(taint_of(a) for a in args) and not (self.trusted and self.trusted(fn))
        summ.ret = top_ty(out, tt)
        if out.startswith("core::result::Result<"):
            summ.ret = result_ok_err(top(tt), tt)
        self.memo[key] = summ
        return summ
    self.memo[key] = summ  # provisional (recursion guard)
    self.stats["functions"] += 1
    self.analysed_fns.add(fn.nname)
    self._fresh += 1
    saved_inst, saved_flag = self._inst, self._made_tag
    self._inst, self._made_tag = self._fresh, False
    my_inst = self._inst
    headers, assigned, back, bodies = _loops(fn)
    exh, exh_next = _exhaustion_edges(fn, headers, bodies)
    deferred = []
    backfacts = defaultdict(list)
    st0 = {"#facts": dict(facts)}
    for i, a in enumerate(args):
        st0[i + 1] = name_value(a, (fn.id, i + 1)) if not chain else a
    work = [(0, st0, False, frozenset())]
    seen = set()
    steps = 0
    hdr_entry = {}   # loop header -> (state, tctrl, onpath) at first arrival
    hdr_extra = {}   # loop header -> {local: seq info learned from the loop body (elements, taint)}
    hdr_rounds = defaultdict(int)
    chain2 = chain + (fn.id,)
    while work or deferred:
        if not work:
            # every path through the loop bodies has been explored: release the paths that leave a loop because its iterator is
            # exhausted, crediting them with the facts every completed iteration established about the iterated element
            for (hdr, tb0, dst, dtc, dnp) in deferred:
                dst = dict(dst)
                tags = self._iter_elem_tags(fn, dst, exh_next[hdr])
                if tags and backfacts[hdr]:
                    facts0 = dict(dst.get("#facts") or {})
                    for tg in tags:
                        rs = [bf.get(tg) for bf in backfacts[hdr]]
                        if all(r is not None for r in rs):
                            lo_, hi_ = min(r[0] for r in rs), max(r[1] for r in rs)
                            if tg in facts0:
                                lo_, hi_ = max(lo_, facts0[tg][0]), min(hi_, facts0[tg][1])
                            if lo_ <= hi_:
                                facts0[tg] = (lo_, hi_, False)
                    dst["#facts"] = facts0
                work.append((tb0, dst, dtc, dnp))
            deferred = []
            continue
        item = work.pop()
        b, st, tctrl, onpath = item[:4]
        tcu = st.get("#tcu")
        if tcu and not (len(item) > 4 and item[4]):
            while tcu and tcu[-1] == b:
                tcu = tcu[:-1]
            if tcu != st.get("#tcu"):
                st = dict(st)
                if tcu:
                    st["#tcu"] = tcu
                else:
                    st.pop("#tcu", None)
                    tctrl = False
        start = item[4] if len(item) > 4 else 0
        steps += 1
        if steps > self.path_limit:
            summ.ret = join(summ.ret, top(True))
            summ.returns = True
            self.stats["path_limit_hits"] += 1
            break
        if b in headers and b not in onpath and not start:
            # first arrival at a loop header on this path: havoc what the loop modifies
            hdr_entry.setdefault(b, []).append((st, tctrl, onpath))
            st = dict(st)
            asg = assigned.get(b, ())
            for l in asg:
                if isinstance(l, tuple) and l[0] == "mut":
                    if l[1] in asg:
                        continue
                    old = st.get(l[1])
                    if old and old["k"] == "seq" and ITER_TY.match(fn.local_ty(l[1])):
                        # an iterator only mutated through &mut (next/…): it yields a suffix of what it yielded before the loop
                        nv = dict(old)
                        if old.get("olen") is None and old["len"].get("s") is not None:
                            nv["olen"] = old["len"]["s"]  # the number of items it yields in total
                        nv["len"] = mk(0, old["len"]["hi"], old["len"]["t"])
                        nv.pop("id", None)
                        st[l[1]] = nv
                        continue
                    l = l[1]
                if isinstance(l, tuple):
                    v = st.get(l[1])
                    if v and v["k"] == "ref":
                        tgt = v["l"]
                        st[tgt] = top_ty(fn.local_ty(tgt), taint_of(st.get(tgt)) or tctrl)
                else:
                    old = st.get(l)
                    nv = top_ty(fn.local_ty(l), taint_of(old) or _any_taint(st))
                    if nv["k"] == "seq":
                        ln = dict(nv["len"])
                        ln["s"] = self.fresh("len", fn, b)
                        if old and old["k"] == "seq":
                            ln["ib"] = bool(old["len"].get("ib"))
                            nv = dict(nv)
                            if old.get("e") is not None:
                                nv["e"] = old["e"]
                            if old["len"]["hi"] == 0 or old.get("e0"):
                                nv["e0"] = True  # every element is pushed inside the loop
                        nv = dict(nv)
                        nv["len"] = ln
                        ex = hdr_extra.get(b, {}).get(l)
                        if ex:
                            if ex.get("e") is not None:
                                nv["e"] = join(nv.get("e"), ex["e"]) if nv.get("e") is not None else ex["e"]
                            if ex.get("t"):
                                nv["t"] = True
                                nv["len"] = dict(nv["len"], t=True)
                    if nv["k"] == "int" and nv["lo"] != nv["hi"] and nv.get("s") is None:
                        nv = dict(nv)
                        nv["s"] = ("hv", fn.id, b, l, self._inst)
                        self._made_tag = True
                    st[l] = nv
        fp = (b, tctrl, bool(st.get("#tc")), st.get("#sw"), tuple(sorted(((k, freeze(v)) for k, v in st.items() if isinstance(k, int)), key=lambda x: x[0])),
              tuple(sorted((repr(k), v) for k, v in (st.get("#facts") or {}).items())))
        if not start:
            if fp in seen:
                continue
            seen.add(fp)
        st = dict(st)
        self._facts = st.get("#facts")
        blk = fn.blocks[b]
        for i, s in enumerate(blk["s"]):
            if i < start:
                continue
            if s["k"] == "assign":
                if self.split_shifts and s["rv"]["k"] == "bin" and s["rv"]["op"] == "Shr" and "p" not in s["lhs"]:
                    cases = self._shift_cases(fn, st, s["rv"])
                    if cases:
                        # x = y >> c with a handful of possible results: one path per result, y refined to the matching slice
                        for kk, refined in cases[1:]:
                            st2 = dict(st)
                            self._store_refined(fn, st2, s["rv"]["a"], refined)
                            st2[s["lhs"]["l"]] = const(kk, refined["t"])
                            work.append((b, st2, tctrl, onpath, i + 1))
                        kk, refined = cases[0]
                        self._store_refined(fn, st, s["rv"]["a"], refined)
                        st[s["lhs"]["l"]] = const(kk, refined["t"])
                        continue
                v = self.eval_rv(fn, st, s["rv"], s)
                self.write_place(fn, st, s["lhs"], v)
                if self.split_shifts and s["rv"]["k"] == "bin" and s["rv"]["op"] in ("Eq", "Ne", "Lt", "Le", "Gt", "Ge") and "p" not in s["lhs"] \
                        and v["k"] == "int" and v["lo"] == 0 and v["hi"] == 1 \
                        and not (blk["t"]["k"] == "switch" and op_local(blk["t"]["d"], pure=True) == s["lhs"]["l"]):
                    # a comparison stored in a boolean that is combined further (`(a == 0) != (b == 0)`): one path per truth value, each
                    # with what the comparison implies about its operands
                    alts = []
                    for truth in (True, False):
                        st2 = dict(st)
                        if self.refine(fn, st2, s["lhs"]["l"], truth):
                            st2[s["lhs"]["l"]] = const(1 if truth else 0, v["t"])
                            alts.append(st2)
                    if len(alts) == 2:
                        work.append((b, alts[1], tctrl, onpath, i + 1))
                        st.clear()
                        st.update(alts[0])
                        self._facts = st.get("#facts")
                    elif len(alts) == 1:
                        st.clear()
                        st.update(alts[0])
                        self._facts = st.get("#facts")
                if s["rv"]["k"] == "use" and "p" not in s["lhs"]:
                    sl_ = op_local(s["rv"]["a"], pure=True)
                    if sl_ is not None and ("fact", sl_) in st:
                        st[("fact", s["lhs"]["l"])] = st[("fact", sl_)]
                if self.check_truncation and s["rv"]["k"] == "cast" and s["rv"].get("ck") == "IntToInt":
                    tr_, fr_ = ty_range(s["rv"].get("to", "")), ty_range(s["rv"].get("from", ""))
                    if tr_ and fr_ and (fr_[0] < tr_[0] or fr_[1] > tr_[1]):
                        a_ = self.read_op(fn, st, s["rv"]["a"])
                        safe_ = a_["k"] == "int" and tr_[0] <= a_["lo"] and a_["hi"] <= tr_[1]
                        self._record(summ, fn, b, i, "Truncation", f"{self.local_desc(fn, s['rv']['a'])} as {s['rv']['to']}", safe_, True, chain2,
                                     f"value in [{a_['lo']}, {a_['hi']}]" if a_["k"] == "int" else "unknown value")
                if self.invariants and s["rv"]["k"] == "agg" and s["rv"].get("adt") in self.invariants and v["k"] == "agg":
                    for fi, (ilo, ihi) in self.invariants[s["rv"]["adt"]].items():
                        fv = v["f"].get(fi)
                        safe = fv is not None and fv["k"] == "int" and ilo <= fv["lo"] and fv["hi"] <= ihi
                        self._record(summ, fn, b, i, "Invariant", f"{s['rv']['adt'].split('::')[-1]}.{fi} in [{ilo}, {ihi}]", safe, True, chain2,
                                     f"constructed with a value in [{fv['lo']}, {fv['hi']}]" if fv is not None and fv["k"] == "int" else "constructed with an unknown value")
            elif s["k"] == "setdiscr":
                pass
        t = blk["t"]
        k = t["k"]
        np = onpath | {b}

        def push(tb, nst, ntc):
            if (b, tb) in exh and exh[(b, tb)] in np:
                deferred.append((exh[(b, tb)], tb, nst, ntc, np))
                return
            for h in np:
                if h in exh_next and tb not in bodies[h] and b in bodies[h]:
                    # leaving the loop early: what was learned about the current element says nothing about the others
                    tags = self._iter_elem_tags(fn, nst, exh_next[h])
                    fc0 = nst.get("#facts") or {}
                    if tags and any(tg in fc0 for tg in tags):
                        ent = hdr_entry.get(h) or []
                        keep = {}
                        for tg in tags:
                            if tg in fc0 and ent and all(tg in (e[0].get("#facts") or {}) for e in ent):
                                los = [e[0]["#facts"][tg] for e in ent]
                                keep[tg] = (min(x[0] for x in los), max(x[1] for x in los), False)
                        nst = dict(nst)
                        nst["#facts"] = {k_: v_ for k_, v_ in fc0.items() if k_ not in tags}
                        nst["#facts"].update(keep)
            if tb in np and (b, tb) in back:
                backfacts[tb].append(dict(nst.get("#facts") or {}))
                # loop already summarised by the havoc at its header; learn what the body stored into sequences
                changed = False
                ex = hdr_extra.setdefault(tb, {})
                for l in assigned.get(tb, ()):
                    if isinstance(l, tuple) and l[0] == "mut":
                        l = l[1]
                    if isinstance(l, tuple):
                        continue
                    v = nst.get(l)
                    if v and v["k"] == "seq":
                        cur = ex.get(l, {})
                        ne = join(cur.get("e"), v.get("e")) if v.get("e") is not None else cur.get("e")
                        nt = bool(cur.get("t")) or taint_of(v)
                        if freeze(ne) != freeze(cur.get("e")) or nt != bool(cur.get("t")):
                            ex[l] = {"e": ne, "t": nt}
                            changed = True
                if changed and hdr_rounds[tb] < 3:
                    hdr_rounds[tb] += 1
                    for (est, etc, eop) in hdr_entry.get(tb, []):
                        work.append((tb, est, etc, eop))
                return
            work.append((tb, nst, ntc, np))
        if k == "goto" or k == "drop":
            push(t["target"], st, tctrl)
        elif k == "return":
            summ.returns = True
            rv0 = st.get(0) or top_ty(fn.get("output") or "")
            pend = st.get(("fact", 0))
            if pend and rv0["k"] == "int" and rv0["lo"] == 0 and rv0["hi"] == 1:
                # a boolean returned unbranched (`a && range.contains(&x)`): return it once as true and once as false, each with what
                # it implies, so that the caller's branch on the result learns it
                for truth in (True, False):
                    st2 = dict(st)
                    st2.pop(("fact", 0), None)
                    self._apply_fact(fn, st2, pend, truth)
                    st2[0] = const(1 if truth else 0, rv0["t"])
                    work.append((b, st2, tctrl, onpath, len(blk["s"])))
                continue
            if rv0["k"] == "enum" and st.get("#tc") and not rv0["t"]:
                # which variant is returned was decided by input-derived data: the caller's branch on it is input-driven too
                rv0 = dict(rv0, t=True)
            summ.ret = join(summ.ret, rv0)
            fc = st.get("#facts") or {}
            summ.n_out += 1
            is_err_only = rv0["k"] == "enum" and set(rv0["v"]) == {1} and (fn.get("output") or "").startswith("core::result::Result<")
            if is_err_only:
                # facts that hold on the accepting paths are what callers continue with after `?`
                if not st.get("#tc") and not chain and len(summ.err_pure) < 16:
                    sw = st.get("#sw")
                    summ.err_pure.append((fn.loc(b, "T"), fn.loc(sw, "T") if sw is not None else None))
            elif summ.hull is None:
                if not chain and len(summ.accepts) < 256:
                    summ.accepts.append((rv0, dict(fc)))
                summ.hull = dict(fc)
            else:
                if not chain and len(summ.accepts) < 256:
                    summ.accepts.append((rv0, dict(fc)))
                summ.hull = {kk: (min(summ.hull[kk][0], fc[kk][0]), max(summ.hull[kk][1], fc[kk][1]),
                                  (len(summ.hull[kk]) > 2 and summ.hull[kk][2]) and (len(fc[kk]) > 2 and fc[kk][2]))
                             for kk in summ.hull if kk in fc}
            oc = (freeze(rv0), tuple(sorted((repr(kk), vv) for kk, vv in (st.get("#facts") or {}).items())))
            if len(summ.outcomes) <= 8 and not any(o[2] == oc for o in summ.outcomes):
                summ.outcomes.append((rv0, dict(st.get("#facts") or {}), oc))
        elif k == "switch":
            dv = self.read_op(fn, st, t["d"])
            dl = op_local(t["d"], pure=True)
            ntc = taint_of(dv) or self._cond_taint(fn, st, dl)
            listed = [int(v) for v, _ in t["targets"]]
            outs_ = []
            for v, tb in t["targets"]:
                nst = self._branch(fn, st, t, dl, dv, int(v), None)
                if nst is not None:
                    outs_.append((tb, nst))
            nst = self._branch(fn, st, t, dl, dv, None, listed)
            if nst is not None:
                outs_.append((t["otherwise"], nst))
            for tb, nst in outs_:
                if ntc:
                    nst["#tc"] = True
                    if self.sticky_control:
                        # what follows is control-dependent on input until the branches join again
                        nst["#tcu"] = (st.get("#tcu") or ()) + (_ipdom(fn).get(b),)
                elif len(outs_) > 1:
                    nst["#sw"] = b
                push(tb, nst, (ntc or tctrl) if self.sticky_control else ntc)
        elif k == "assert":
            self._assert(fn, st, b, t, summ, chain2, tctrl)
            cl = op_local(t["cond"], pure=True)
            nst = dict(st)
            feasible = True
            cv = self.read_op(fn, st, t["cond"])
            want = 1 if t["expected"] else 0
            if cv["k"] == "int" and (cv["lo"] > want or cv["hi"] < want):
                feasible = False
            if feasible:
                if cl is not None:
                    feasible = self.refine(fn, nst, cl, t["expected"])
                    self._refine_overflow(fn, nst, t)
                if feasible:
                    push(t["target"], nst, tctrl)
        elif k == "call":
            self._outs = None
            res = self._call(fn, st, b, t, summ, chain2, tctrl, subst)
            if res is not None and not self._outs and "p" not in t["dest"]:
                rv_ = st.get(t["dest"]["l"])
                if rv_ and rv_.get("k") == "seq" and rv_["len"].get("s") is None and rv_["len"]["lo"] != rv_["len"]["hi"]:
                    # a sequence produced by the call: name its length so that later comparisons can be related to it
                    st[t["dest"]["l"]] = dict(rv_, len=dict(rv_["len"], s=self.fresh("len", fn, b)))
            if res is not None and t.get("target") is not None:
                if self._outs:
                    for (rv1, facts1) in self._outs:
                        nst = dict(st)
                        self.write_place(fn, nst, t["dest"], rv1)
                        merged = dict(nst.get("#facts") or {})
                        for kk, fv in facts1.items():
                            lo1, hi1 = fv[0], fv[1]
                            p21 = len(fv) > 2 and fv[2]
                            if kk in merged:
                                lo1, hi1 = max(lo1, merged[kk][0]), min(hi1, merged[kk][1])
                                p21 = p21 or (len(merged[kk]) > 2 and merged[kk][2])
                            merged[kk] = (lo1, hi1, p21)
                        nst["#facts"] = merged
                        push(t["target"], nst, tctrl)
                else:
                    push(t["target"], st, tctrl)
        # unreachable / resume / other: path ends
    if self._made_tag:
        # the summary contains value tags created for this very invocation: it must not be reused for another one
        self.memo.pop(key, None)
    self._inst, self._made_tag = saved_inst, (saved_flag or self._made_tag)
    return summ


def _wrap_cases(self, op, a, b, dty, t):
    """[(value, facts)] for wrapping_/overflowing_ add/sub: the no-wrap case and the wrapped case, each with its exact interval"""
    ity = dty.strip("()").split(",")[0].strip()
    r = ty_range(ity)
    if not r or r[0] != 0:
        return None
    mod = r[1] + 1
    pair = op.startswith("overflowing")
    sub = op.endswith("sub")
    out = []

    def val(lo, hi, flag):
        v = mk(lo, hi, t)
        return {"k": "agg", "f": {0: v, 1: const(flag, t)}, "t": False} if pair else v

    def facts(rel):
        fc = {}
        if not sub:
            return fc
        if a.get("s") is not None and b.get("s") is not None:
            _rel_fact(fc, rel, a["s"], b["s"])
        ra = (max(a["lo"], b["lo"]), a["hi"]) if rel == "Ge" else (a["lo"], min(a["hi"], b["hi"] - 1))
        rb = (b["lo"], min(b["hi"], a["hi"])) if rel == "Ge" else (max(b["lo"], a["lo"] + 1), b["hi"])
        for x, rx in ((a, ra), (b, rb)):
            if x.get("s") is not None and x["s"][0] != "c" and rx[0] <= rx[1]:
                fc[x["s"]] = (rx[0], rx[1], False)
        return fc
    if sub:
        lo, hi = a["lo"] - b["hi"], a["hi"] - b["lo"]
        if hi >= 0:
            out.append((val(max(lo, 0), hi, 0), facts("Ge")))
        if lo < 0:
            out.append((val(lo + mod, min(hi, -1) + mod, 1), facts("Lt")))
    else:
        lo, hi = a["lo"] + b["lo"], a["hi"] + b["hi"]
        if lo < mod:
            out.append((val(lo, min(hi, mod - 1), 0), {}))
        if hi >= mod:
            out.append((val(max(lo, mod) - mod, hi - mod, 1), {}))
    return out


Analyzer._wrap_cases = _wrap_cases


def _shift_cases(self, fn, st, rv):
    a = self.read_op(fn, st, rv["a"])
    c = self.read_op(fn, st, rv["b"])
    if a["k"] != "int" or c["k"] != "int" or c["lo"] != c["hi"] or a["lo"] < 0 or not (0 < c["lo"] < 128):
        return None
    sh = c["lo"]
    lo_k, hi_k = a["lo"] >> sh, a["hi"] >> sh
    if not (1 <= hi_k - lo_k <= 7):
        return None
    out = []
    for kk in range(lo_k, hi_k + 1):
        r = dict(a)
        r["lo"], r["hi"] = max(a["lo"], kk << sh), min(a["hi"], ((kk + 1) << sh) - 1)
        out.append((kk, r))
    return out


Analyzer._shift_cases = _shift_cases


def _any_taint(st):
    return False


Analyzer.analyze = _analyze


def _branch(self, fn, st, t, dl, dv, value, excluded):
    nst = dict(st)
    if t["dty"] == "bool" and dl is not None:
        truth = (value != 0) if value is not None else (0 in excluded)
        if dv["k"] == "int":
            if truth and dv["hi"] < 1:
                return None
            if not truth and dv["lo"] > 0:
                return None
        if not self.refine(fn, nst, dl, truth):
            return None
        fact = st.get(("fact", dl))
        if fact:
            self._apply_fact(fn, nst, fact, truth)
        if dv["k"] == "int" and dv.get("c"):
            # the bool was computed elsewhere (e.g. returned by a callee) from a comparison of tagged values
            op, sa, sb, ra, rb = dv["c"]
            if not truth:
                op = {"Lt": "Ge", "Le": "Gt", "Gt": "Le", "Ge": "Lt", "Eq": "Ne", "Ne": "Eq"}[op]
            facts = dict(nst.get("#facts") or {})

            def cur(tag, rng):
                f = facts.get(tag)
                return [max(rng[0], f[0]), min(rng[1], f[1])] if f else list(rng)
            a_, b_ = cur(sa, ra), cur(sb, rb)
            if op == "Lt":
                a_[1] = min(a_[1], b_[1] - 1); b_[0] = max(b_[0], a_[0] + 1)
            elif op == "Le":
                a_[1] = min(a_[1], b_[1]); b_[0] = max(b_[0], a_[0])
            elif op == "Gt":
                a_[0] = max(a_[0], b_[0] + 1); b_[1] = min(b_[1], a_[1] - 1)
            elif op == "Ge":
                a_[0] = max(a_[0], b_[0]); b_[1] = min(b_[1], a_[1])
            elif op == "Eq":
                lo, hi = max(a_[0], b_[0]), min(a_[1], b_[1])
                a_ = [lo, hi]; b_ = [lo, hi]
            elif op == "Ne" and b_[0] == b_[1]:
                if a_[0] == b_[0]:
                    a_[0] += 1
                if a_[1] == b_[0]:
                    a_[1] -= 1
            if a_[0] > a_[1] or b_[0] > b_[1]:
                return None
            _rel_fact(facts, op, sa, sb)
            for tag, rng in ((sa, a_), (sb, b_)):
                if tag[0] != "c":
                    old = facts.get(tag)
                    facts[tag] = (rng[0], rng[1], bool(old[2]) if old and len(old) > 2 else False)
            nst["#facts"] = facts
        return nst
    if dv["k"] == "int":
        if value is not None:
            if value < dv["lo"] or value > dv["hi"]:
                return None
        else:
            rem = [x for x in range(dv["lo"], min(dv["hi"], dv["lo"] + 64) + 1) if x not in excluded]
            if dv["hi"] - dv["lo"] <= 64 and not rem:
                return None
    src = st.get(("discr", dl)) if dl is not None else None
    if src is not None:
        ev = self.read_place(fn, nst, src)
        if ev["k"] == "enum":
            if value is not None:
                if value not in ev["v"]:
                    return None
                self.write_place(fn, nst, src, enum_val({value: ev["v"][value]}, ev["t"]))
            else:
                left = {k: x for k, x in ev["v"].items() if k not in excluded}
                if not left:
                    return None
                self.write_place(fn, nst, src, enum_val(left, ev["t"]))
    elif dl is not None and dv["k"] == "int" and value is not None:
        nv = dict(dv)
        nv["lo"] = nv["hi"] = value
        nst[dl] = nv
        # propagate equality to the compared variable when the discriminant is a plain copy
        ds = fn.defs.get(dl, [])
        if len(ds) == 1 and ds[0][1] != "T" and ds[0][2]["k"] == "assign" and ds[0][2]["rv"]["k"] == "use":
            p = op_place(ds[0][2]["rv"]["a"])
            if p is not None:
                self.write_place(fn, nst, p, nv)
    return nst


Analyzer._branch = _branch


def _cond_taint(self, fn, st, dl):
    """taint of the operands of the comparison that defines bool local dl"""
    if dl is None:
        return False
    ds = fn.defs.get(dl, [])
    if len(ds) != 1:
        return False
    b, i, s = ds[0]
    if i == "T":
        return any(taint_of(_deref(st, self.read_op(fn, st, a))) for a in s["args"])
    rv = s.get("rv") or {}
    if rv.get("k") == "bin":
        return taint_of(self.read_op(fn, st, rv["a"])) or taint_of(self.read_op(fn, st, rv["b"]))
    if rv.get("k") in ("un", "use"):
        l = op_local(rv["a"], pure=True)
        return self._cond_taint(fn, st, l) if l is not None else False
    return False


Analyzer._cond_taint = _cond_taint


def _apply_fact(self, fn, st, fact, truth):
    kind, place = fact[0], fact[1]
    if kind == "lentag":
        facts = dict(st.get("#facts") or {})
        tag, lo, hi = fact[2], fact[3], fact[4]
        old = facts.get(tag)
        if old:
            lo, hi = max(lo, old[0]), min(hi, old[1])
        if truth:
            lo, hi = 0, 0
        else:
            lo = max(lo, 1)
        if lo <= hi:
            facts[tag] = (lo, hi, False)
            st["#facts"] = facts
        return
    v = self.read_place(fn, st, place)
    if kind == "range":
        if truth and v["k"] == "int":
            nv = dict(v)
            nv["lo"], nv["hi"] = max(v["lo"], fact[2]), min(v["hi"], fact[3])
            if nv["lo"] <= nv["hi"]:
                if nv.get("s") is not None and nv["s"][0] != "c":
                    facts = dict(st.get("#facts") or {})
                    facts[nv["s"]] = (nv["lo"], nv["hi"], bool(nv.get("p2")))
                    st["#facts"] = facts
                self._store_refined(fn, st, {"copy": place}, nv)
        return
    if kind == "p2" and truth and v["k"] == "int":
        nv = dict(v)
        nv["p2"] = True
        nv["lo"] = max(nv["lo"], 1)
        if nv.get("s") is not None and nv["s"][0] != "c":
            facts = dict(st.get("#facts") or {})
            old = facts.get(nv["s"])
            facts[nv["s"]] = (max(nv["lo"], old[0]) if old else nv["lo"], min(nv["hi"], old[1]) if old else nv["hi"], True)
            st["#facts"] = facts
        self._store_refined(fn, st, {"copy": place}, nv)
    elif kind == "empty" and v["k"] == "seq":
        ln = dict(v["len"])
        if truth:
            ln["lo"] = ln["hi"] = 0
        else:
            ln["lo"] = max(ln["lo"], 1)
        if ln["lo"] <= ln["hi"]:
            self.write_place(fn, st, place, {"k": "seq", "len": ln, "t": v["t"]})
    elif kind in ("is_some", "is_ok") and v["k"] == "enum":
        want = {"is_some": 1, "is_ok": 0}[kind]
        keep = {k: x for k, x in v["v"].items() if (k == want) == truth}
        if keep:
            self.write_place(fn, st, place, enum_val(keep, v["t"]))


Analyzer._apply_fact = _apply_fact


def _refine_overflow(self, fn, st, t):
    """after `assert(!overflow_flag)` the checked result lies in its type's range"""
    if not t["msg"].startswith("Overflow"):
        return
    p = op_place(t["cond"])
    if p is None or not p.get("p"):
        return
    base = st.get(p["l"])
    if base and base["k"] == "agg" and 0 in base["f"] and base["f"][0]["k"] == "int":
        ty = fn.local_ty(p["l"])
        m = re.match(r"^\((\w+), bool\)$", ty)
        if m:
            r = ty_range(m.group(1))
            v = dict(base["f"][0])
            v["lo"] = max(v["lo"], r[0])
            v["hi"] = min(v["hi"], r[1])
            if v["lo"] <= v["hi"]:
                f = dict(base["f"])
                f[0] = v
                f[1] = const(0)
                st[p["l"]] = {"k": "agg", "f": f, "t": base["t"]}


Analyzer._refine_overflow = _refine_overflow


def _unknown_len(v):
    """an integer with no upper bound that is not a value read from the input: in practice the length of a sequence
    built in a loop (summarised by havoc) or taken from an element the analysis does not track"""
    if v is None:
        return False
    if v["k"] == "seq":
        return _unknown_len(v["len"])
    if v["k"] == "top":
        return True
    if v["k"] == "int":
        return v["hi"] >= 2**40 and not _has_src(v.get("s"))
    return False


def _has_src(s):
    if not isinstance(s, tuple) or not s:
        return False
    if s[0] in ("src", "arg"):
        return True
    if s[0] == "seq":
        return True  # identity of a sequence handed in as an argument
    return any(_has_src(x) for x in s[1:] if isinstance(x, tuple))


def _has_hv(s):
    if not isinstance(s, tuple) or not s:
        return False
    if s[0] == "hv":
        return True
    return any(_has_hv(x) for x in s[1:] if isinstance(x, tuple))


def _loop_index_unrelated(self, operands):
    a, b = operands
    if a.get("k") == "seq":
        lenv, idx = a["len"], b
    elif b.get("k") == "seq":
        lenv, idx = b["len"], a
    else:
        lenv, idx = a, b  # MIR bounds check: (len, index)
    if idx.get("k") != "int" or not _has_hv(idx.get("s")):
        return False
    ls = lenv.get("s") if lenv.get("k") == "int" else None
    if ls is None:
        return True
    return ("cmp", idx["s"], ls) not in (self._facts or {})


Analyzer._loop_index_unrelated = _loop_index_unrelated


def _compared(self, v):
    """has the path established any fact about this (unknown) value?"""
    if v is None:
        return False
    if v["k"] == "seq":
        v = v["len"]
    if v["k"] != "int" or v.get("s") is None:
        return False
    return bool(self._facts) and v["s"] in self._facts


Analyzer._compared = _compared


RANK = {"untainted": 0, "safe": 1, "undecided": 2, "alarm": 3}


def _log_site(self, fn, b, i, kind, desc, status):
    k = f"{fn.nname}/{kind}:{desc}"
    cur = self.site_log.get(k)
    if cur is None or RANK[status] > RANK[cur[0]]:
        self.site_log[k] = (status, fn.loc(b, i))


Analyzer._log_site = _log_site


def _record(self, summ, fn, b, i, kind, desc, safe, tainted, chain, detail=None, operands=()):
    summ.sites += 1
    self.stats["sites"] += 1
    self.analysed_fns.add(fn.nname)
    if not safe and tainted and kind == "BoundsCheck" and len(operands) == 2 and self._loop_index_unrelated(operands):
        # not decided: a loop counter indexes a sequence whose length the path never related it to; whether this is in bounds rests on
        # an inductive invariant between the loop and the sequence that an interval analysis does not establish
        self.stats["undecided_loop_length"] += 1
        self.undecided.setdefault(f"{fn.nname}/{kind}:{desc} @{fn.loc(b, i)}", fn.loc(b, i))
        self._log_site(fn, b, i, kind, desc, "undecided")
        return
    und_ops = operands
    if kind == "BoundsCheck" and len(operands) == 2:
        # (length or sequence, index): an INDEX that is an untracked value the path never compared with anything is not "undecided" — a
        # missing bounds check looks exactly like that; only an unknown LENGTH (built in a loop, or an untracked element) is
        a_, b_ = operands
        und_ops = (a_,) if (a_.get("k") == "seq" or b_.get("k") != "seq") else (b_,)
    if not safe and tainted and und_ops and any(_unknown_len(o) and (kind == "panic" or not self._compared(o)) for o in und_ops):
        # not decided: the deciding operand is a loop-built length / untracked element the code never compared on this path
        self.stats["undecided_loop_length"] += 1
        self.undecided.setdefault(f"{fn.nname}/{kind}:{desc} @{fn.loc(b, i)}", fn.loc(b, i))
        self._log_site(fn, b, i, kind, desc, "undecided")
        return
    if safe or not tainted:
        self._log_site(fn, b, i, kind, desc, "safe" if safe else "untainted")
        summ.discharged += 1
        self.stats["discharged" if safe else "untainted"] += 1
        return
    key = f"{fn.nname}/{kind}:{desc}"
    self._log_site(fn, b, i, kind, desc, "alarm")
    if any(a.key == key for a in summ.alarms):
        return
    summ.alarms.append(Alarm(key, kind, fn, fn.loc(b, i), chain, detail))


Analyzer._record = _record


def _assert(self, fn, st, b, t, summ, chain, tctrl):
    msg = t["msg"]
    ops = [self.read_op(fn, st, o) for o in t["ops"]]
    cv = self.read_op(fn, st, t["cond"])
    want = 1 if t["expected"] else 0
    safe = cv["k"] == "int" and cv["lo"] == cv["hi"] == want
    tainted = any(taint_of(o) for o in ops) or taint_of(cv)
    names = [self.local_desc(fn, o) for o in t["ops"]]
    detail = None
    if msg.startswith("Overflow") and len(ops) == 2 and all(o["k"] == "int" for o in ops):
        detail = f"operands in [{ops[0]['lo']}, {ops[0]['hi']}] and [{ops[1]['lo']}, {ops[1]['hi']}]"
        if not safe and tainted and (not ops[0]["t"] or not ops[1]["t"]) and msg in ("Overflow(Mul)", "Overflow(Add)"):
            # an overflow that needs the untainted (AIR-defined / constant) operand to exceed 2^32 is not attacker-driven
            a2 = [dict(o) if o["t"] else dict(o, hi=min(o["hi"], 2**32), lo=min(o["lo"], 2**32)) for o in ops]
            r = ty_range(fn.local_ty(op_place(t["cond"])["l"]).strip("()").split(",")[0]) if op_place(t["cond"]) else None
            if r:
                res = self.binop("Mul" if "Mul" in msg else "Add", a2[0], a2[1], "")
                if res["k"] == "int" and res["hi"] <= r[1] and res["lo"] >= r[0]:
                    safe = True
        desc = (names[0] + {"Overflow(Add)": "+", "Overflow(Sub)": "-", "Overflow(Mul)": "*", "Overflow(Shl)": "<<", "Overflow(Shr)": ">>"}.get(msg, "?") + names[1])
    elif msg == "BoundsCheck":
        if all(o["k"] == "int" for o in ops):
            safe = safe or ops[1]["hi"] < ops[0]["lo"] or rel_lt(self._facts, ops[1], ops[0])
            detail = f"index in [{ops[1]['lo']}, {ops[1]['hi']}], length in [{ops[0]['lo']}, {ops[0]['hi']}]"
        desc = f"{names[1]} < len({names[0]})"
    elif msg in ("DivisionByZero", "RemainderByZero"):
        if ops and ops[0]["k"] == "int":
            safe = safe or ops[0]["lo"] > 0 or ops[0]["hi"] < 0
        desc = f"{names[0] if names else '?'} != 0"
    else:
        desc = "+".join(names) or msg
    self._record(summ, fn, b, "T", msg, desc, safe, tainted, chain, detail, ops if (msg == "BoundsCheck" or msg.startswith("Overflow")) else ())


Analyzer._assert = _assert


def _eval_rv(self, fn, st, rv, stmt):
    k = rv["k"]
    if k == "use":
        return self.read_op(fn, st, rv["a"])
    if k == "bin":
        a = self.read_op(fn, st, rv["a"])
        b = self.read_op(fn, st, rv["b"])
        op = rv["op"]
        ty = rv.get("ty", "")
        res = self.binop(op, a, b, ty)
        if op.endswith("WithOverflow"):
            r = ty_range(ty)
            t = taint_of(a) or taint_of(b)
            if res["k"] == "int" and r:
                ovf = res["lo"] < r[0] or res["hi"] > r[1]
                flag = mk(0, 1, t) if ovf else const(0)
                return {"k": "agg", "f": {0: res, 1: flag}, "t": False}
            return {"k": "agg", "f": {0: res, 1: mk(0, 1, t)}, "t": False}
        if op in ("Add", "Sub", "Mul", "Shl") and res["k"] == "int":
            return self.clamp(res, ty)
        return res
    if k == "cast":
        a = self.read_op(fn, st, rv["a"])
        r = ty_range(rv["to"])
        if a["k"] == "int" and r:
            if a["lo"] >= r[0] and a["hi"] <= r[1]:
                return a
            return mk(r[0], r[1], a["t"])
        if r:
            fr = ty_range(rv.get("from", ""))
            if fr and fr[0] >= r[0] and fr[1] <= r[1]:
                return mk(fr[0], fr[1], taint_of(a))  # widening of a value about which nothing is known but its type
            return mk(r[0], r[1], taint_of(a))
        return a
    if k == "un":
        a = self.read_op(fn, st, rv["a"])
        if rv["op"] == "Not" and a["k"] == "int" and a["lo"] >= 0 and a["hi"] <= 1:
            return mk(1 - a["hi"], 1 - a["lo"], a["t"])
        if rv["op"] == "PtrMetadata":
            if a["k"] == "ref":
                a = st.get(a["l"]) or top()
            if a["k"] == "seq":
                return a["len"]
            return mk(0, (1 << 64) - 1, taint_of(a))
        r = ty_range(rv.get("ty", ""))
        return mk(r[0], r[1], taint_of(a)) if r else top(taint_of(a))
    if k in ("ref", "rawptr"):
        p = rv["p"]
        if not p.get("p"):
            return {"k": "ref", "l": p["l"]}
        if p["p"] == ["deref"]:
            v = st.get(p["l"])
            if v and v["k"] == "ref":
                return v
        return self.read_place(fn, st, p)
    if k == "discr":
        v = self.read_place(fn, st, rv["p"])
        lhs = stmt["lhs"]
        if "p" not in lhs:
            st[("discr", lhs["l"])] = rv["p"]
        if v["k"] == "enum" and v["v"]:
            ks = sorted(v["v"])
            return mk(ks[0], ks[-1], v["t"])
        return mk(0, 255, taint_of(v))
    if k == "agg":
        ops = [self.read_op(fn, st, o) for o in rv["ops"]]
        if rv.get("agg") == "adt":
            adt = self.prog.adts.get(rv["adt"])
            body = {"k": "agg", "f": dict(enumerate(ops)), "t": False}
            if rv["adt"] in (OPT, RES, CF) or (adt is not None and adt["kind"] == "enum"):
                return enum_val({rv["variant"]: body})
            return body
        if rv.get("agg") == "array":
            return seq(const(len(ops)), any(taint_of(o) for o in ops))
        return {"k": "agg", "f": dict(enumerate(ops)), "t": False}
    if k == "repeat":
        m = re.match(r"^\d+", rv.get("n", ""))
        a = self.read_op(fn, st, rv["a"])
        return seq(const(int(m.group(0))) if m else mk(0, (1 << 64) - 1), taint_of(a))
    return top()


Analyzer.eval_rv = _eval_rv


# =================================================================================================
# calls
# =================================================================================================

def _deref(st, v):
    n = 0
    while v is not None and v["k"] == "ref" and n < 4:
        v = st.get(v["l"])
        n += 1
    return v or top()


def _ref_target(st, v):
    if v is not None and v["k"] == "ref":
        return v["l"]
    return None


def _havoc_mut_args(self, fn, st, t, taint):
    for a in t["args"]:
        l = op_local(a)
        if l is None:
            continue
        ty = fn.local_ty(l)
        if ty.startswith("&mut ") or ty.startswith("*mut "):
            v = st.get(l)
            tgt = _ref_target(st, v)
            if tgt is not None:
                old = st.get(tgt)
                st[tgt] = top_ty(fn.local_ty(tgt), taint or taint_of(old))


Analyzer._havoc_mut_args = _havoc_mut_args

READ_FIXED = {"read_u8": (0, 255), "read_bool": (0, 1), "read_u16": (0, 65535), "read_u32": (0, 2**32 - 1), "read_u64": (0, 2**64 - 1),
              "read_u128": (0, 2**128 - 1), "read_usize": (0, 2**64 - 1), "peek_u8": (0, 255)}


def _call(self, fn, st, b, t, summ, chain, tctrl, subst=None):
    subst = subst or {}
    """evaluate a call; returns None if control does not continue (diverges)"""
    cn = callee_name(t) or ""
    f = t.get("fn") or {}
    args = [self.read_op(fn, st, a) for a in t["args"]]
    dargs = [_deref(st, a) for a in args]
    targ = any(taint_of(a) for a in dargs)
    dest = t["dest"]
    item = f.get("item", "")
    tr = f.get("trait")

    def ret(v):
        self.write_place(fn, st, dest, v)
        return True

    # ---- panics --------------------------------------------------------------------------------
    if cn.startswith(PANIC_FNS) or (t.get("target") is None and cn.startswith(("core::panicking", "core::option::expect", "core::result::unwrap"))):
        what = "panic"
        # describe by the source line's enclosing statement kind (assert!/panic!/unreachable!)
        desc = f"{cn.split('::')[-1]}@{self._panic_desc(fn, b)}"
        self._record(summ, fn, b, "T", "panic", desc, False, tctrl or targ, chain,
                     "an explicit panic is reachable under a condition computed from untrusted input", self._guard_operands(fn, st, b))
        return None
    if t.get("target") is None and not f:
        return None

    # ---- byte readers: taint sources ---------------------------------------------------------------
    if (tr == READER and item != "read_many") or (cn.split("::")[-1] in READ_FIXED and "ByteReader" in cn):
        if item in READ_FIXED:
            lo, hi = READ_FIXED[item]
            return ret(result_ok_err(mk(lo, hi, True, False, self.fresh("src", fn, b)), True))
        if item in ("read_vec", "read_slice", "read_string", "check_eor") and len(dargs) > 1 and dargs[1]["k"] == "int":
            # the in-memory reader decides `pos + n > len`: the sum must not wrap for an input-chosen n (a full-width length — a vint
            # size — handed straight to a bulk read; lengths read from u8/u16/u32 prefixes cannot reach the top of usize)
            nn = self.with_facts(st, dargs[1])
            self._record(summ, fn, b, "T", "Overflow(Add)", f"reader position + {self.local_desc(fn, t['args'][1])}", nn["hi"] <= 2**62, nn["t"], chain,
                         "an input-chosen length near usize::MAX makes the end-of-data test `pos + n` of the slice reader overflow")
        if item in ("read_vec", "read_slice", "read_string"):
            n = dargs[1] if len(dargs) > 1 else top(True)
            ln = n if n["k"] == "int" else mk(0, 2**64 - 1, True)
            return ret(result_ok_err(seq(dict(ln, t=True, ib=True), True), True))
        if item == "read_array":
            return ret(result_ok_err(top_ty(t.get("dest_ty", "").split("Result<", 1)[-1].split(", winter_utils")[0], True), True))
        if item == "read":
            return ret(result_ok_err(top(True), True))
        if item in ("check_eor",):
            return ret(result_ok_err(top(False), True))
        if item == "has_more_bytes":
            return ret(mk(0, 1, True))
        return ret(top(True))
    csub = None
    ccallee = None
    if tr and "resolved" not in f:
        ccallee, csub = resolve_with_subst(self.prog, t, subst)
    if tr == DESER and item in ("read_from", "read_from_bytes") and ccallee is None and "resolved" not in f:
        return ret(result_ok_err(top(True), True))

    # ---- std models ------------------------------------------------------------------------------
    last = cn.split("::")[-1]
    if cn.startswith(("core::", "alloc::", "std::")):
        m = self._std(fn, st, b, t, cn, last, args, dargs, targ, summ, chain, tctrl)
        if m is not NotImplemented:
            if m is None:
                return None
            if m["k"] == "int" and m.get("s") is None and m["lo"] != m["hi"]:
                m = dict(m)
                m["s"] = ("v", fn.id, b, tuple(a.get("s") for a in dargs if a["k"] == "int"))
            return ret(m)
        self._havoc_mut_args(fn, st, t, targ)
        return ret(top_ty(t.get("dest_ty", ""), targ))

    # ---- workspace callees -------------------------------------------------------------------------
    cands, precise = self.prog.resolve_call(t)
    cands = [c for c in cands if c.kind != "closure"]
    callee_subst = {}
    if ccallee is not None:
        cands, precise = [ccallee], True
        callee_subst = csub or {}
    elif cands and len(cands) == 1:
        gens = cands[0].get("generics") or []
        targs = [subst_ty(x, subst) for x in f.get("targs", [])]
        if "resolved" in f and f.get("trait") and cands[0].get("impl_self") and targs:
            m = match_impl(cands[0].get("impl_self"), targs[0]) or {}
            callee_subst = dict(m)
            rest = [g for g in gens if g not in m]
            for g, a in zip(rest, targs[1:]):
                callee_subst[g] = a
        elif len(gens) == len(targs):
            callee_subst = dict(zip(gens, targs))
    if cands and (precise or len(cands) == 1) and len(cands) == 1:
        c = cands[0]
        # pass values; references to locals are passed as the referent's value (callee-local copy)
        cargs = []
        for a in args:
            cargs.append(_deref(st, a) if a["k"] == "ref" else a)
        sub = self.analyze(c, cargs[: c.arg_count], chain, callee_subst, st.get("#facts"))
        self._facts = st.get("#facts")
        self._outs = None
        for al in sub.alarms:
            if not any(x.key == al.key for x in summ.alarms):
                summ.alarms.append(al)
        summ.sites += sub.sites
        summ.discharged += sub.discharged
        self._havoc_mut_args(fn, st, t, targ)
        if not sub.returns:
            return None
        if 1 <= len(sub.outcomes) <= 6 and sub.n_out == len(sub.outcomes):
            self._outs = [(o[0], o[1]) for o in sub.outcomes]
        elif sub.hull:
            self._outs = [(sub.ret if sub.ret is not None else top_ty(t.get("dest_ty", ""), targ), sub.hull)]
        return ret(sub.ret if sub.ret is not None else top_ty(t.get("dest_ty", ""), targ))
    self._havoc_mut_args(fn, st, t, targ)
    dty = t.get("dest_ty", "")
    bare = dty.lstrip("&").replace("mut ", "").split("<")[0].strip()
    if bare in self.type_inv:
        return ret(self.type_inv[bare])
    if dty.startswith("core::result::Result<"):
        return ret(result_ok_err(top(targ), targ))
    if dty.startswith("core::option::Option<"):
        return ret(enum_val({0: {"k": "agg", "f": {}, "t": False}, 1: payload(top(targ))}, targ))
    return ret(top_ty(dty, targ))


Analyzer._call = _call


def _guard_operands(self, fn, st, b):
    """values of the operands of the comparison guarding block b"""
    from .cfg import trace_cond
    seen = set()
    stack = [b]
    while stack:
        x = stack.pop()
        if x in seen:
            continue
        seen.add(x)
        for p in fn.pred[x]:
            t = fn.term(p)
            if t["k"] == "switch":
                c = trace_cond(fn, t["d"])
                if c.kind == "cmp":
                    return tuple(_deref(st, self.read_op(fn, st, o)) for o in (c.lhs, c.rhs))
                if c.kind == "call":
                    return tuple(_deref(st, self.read_op(fn, st, a)) for a in c.call["args"])
                return ()
            stack.append(p)
    return ()


Analyzer._guard_operands = _guard_operands


def _panic_desc(self, fn, b):
    """a stable description of which decision leads to this panic: the comparison guarding it"""
    from .cfg import trace_cond
    # walk back to the nearest switch
    seen = set()
    st = [b]
    while st:
        x = st.pop()
        if x in seen:
            continue
        seen.add(x)
        for p in fn.pred[x]:
            t = fn.term(p)
            if t["k"] == "switch":
                c = trace_cond(fn, t["d"])
                if c.kind == "cmp":
                    return f"{self.local_desc(fn, c.lhs)}{c.op}{self.local_desc(fn, c.rhs)}"
                if c.kind == "call":
                    return (callee_name(c.call) or "cond").split("::")[-1] + "(" + ",".join(self.local_desc(fn, a) for a in c.call["args"]) + ")"
                return "match"
            st.append(p)
    return "entry"


Analyzer._panic_desc = _panic_desc


def _std(self, fn, st, b, t, cn, last, args, dargs, targ, summ, chain, tctrl):
    dty = t.get("dest_ty", "")
    r = ty_range(dty)
    dargs = [dict(a, len=self.with_facts(st, a["len"])) if a["k"] == "seq" else self.with_facts(st, a) for a in dargs]

    def ints(*idx):
        return all(i < len(dargs) and dargs[i]["k"] == "int" for i in idx)
    # numeric helpers
    if "::num::" in cn or cn.startswith("core::num::"):
        if last == "pow" and ints(0, 1):
            a, e = dargs[0], dargs[1]
            if e["hi"] <= 4096 and a["lo"] >= 0:
                lo, hi = a["lo"] ** e["lo"], a["hi"] ** e["hi"]
                safe = r is not None and hi <= r[1]
                self._record(summ, fn, b, "T", "Overflow(pow)", f"{self.local_desc(fn, t['args'][0])}^{self.local_desc(fn, t['args'][1])}", safe,
                             taint_of(a) or taint_of(e), chain, f"base in [{a['lo']}, {a['hi']}], exponent in [{e['lo']}, {e['hi']}]")
                if not safe and r:
                    hi = r[1]
                    lo = min(lo, hi)
                return mk(lo, hi, targ, (a["lo"] == a["hi"] == 2) or a["p2"])
            self._record(summ, fn, b, "T", "Overflow(pow)", f"{self.local_desc(fn, t['args'][0])}^{self.local_desc(fn, t['args'][1])}", False, targ, chain)
            return mk(r[0], r[1], targ) if r else top(targ)
        if last == "ilog2" and ints(0):
            a = dargs[0]
            self._record(summ, fn, b, "T", "ilog2(0)", f"ilog2({self.local_desc(fn, t['args'][0])})", a["lo"] >= 1, a["t"], chain)
            return mk(ilog2(max(a["lo"], 1)), ilog2(max(a["hi"], 1)), a["t"])
        if last == "is_power_of_two" and ints(0):
            a = dargs[0]
            p = op_place(t["args"][0])
            if p is not None and "p" not in t["dest"]:
                st[("fact", t["dest"]["l"])] = ("p2", p)
            if a["p2"] and a["lo"] >= 1:
                return const(1)
            return mk(0, 1, a["t"])
        if last == "next_power_of_two" and ints(0):
            a = dargs[0]
            safe = r is not None and a["hi"] <= (r[1] + 1) // 2
            self._record(summ, fn, b, "T", "Overflow(next_power_of_two)", self.local_desc(fn, t["args"][0]), safe, a["t"], chain)
            return mk(npot(a["lo"]), npot(min(a["hi"], (r[1] + 1) // 2 if r else a["hi"])), a["t"], True)
        if last in ("trailing_zeros", "leading_zeros") and ints(0) and dargs[0]["lo"] >= 0:
            # exact on a bit-length class: leading_zeros is antitone in the value; trailing_zeros of a power of two is its logarithm
            m = re.search(r"impl (u\d+|usize)", cn)
            w = U.get(m.group(1)) if m else None
            if w is None:
                al = op_local(t["args"][0], pure=True)
                w = U.get(fn.local_ty(al)) if al is not None else None
            a = dargs[0]
            if w is not None and a["hi"] < (1 << w):
                if last == "leading_zeros":
                    return mk(w - a["hi"].bit_length(), w - a["lo"].bit_length(), targ)
                if a["lo"] >= 1 and a["p2"]:
                    return mk(ilog2(npot(a["lo"])), ilog2(a["hi"]), targ)
                if a["lo"] >= 1:
                    return mk(0, ilog2(a["hi"]), targ)
                return mk(0, w, targ)
            return mk(0, 128, targ)
        if last in ("trailing_zeros", "leading_zeros", "count_ones"):
            return mk(0, 128, targ)
        if last in ("saturating_sub",) and ints(0, 1):
            a, c = dargs[0], dargs[1]
            return mk(max(a["lo"] - c["hi"], 0), max(a["hi"] - c["lo"], 0), targ)
        if last == "saturating_add" and ints(0, 1) and r and dargs[0]["lo"] >= 0 and dargs[1]["lo"] >= 0:
            # min(a + b, MAX): named like the exact sum — a bound K < MAX established on the result is a bound on a + b
            a, c = dargs[0], dargs[1]
            tag = None
            if a.get("s") is not None and c.get("s") is not None:
                sa, sb = a["s"], c["s"]
                if repr(sb) < repr(sa):
                    sa, sb = sb, sa
                tag = ("Add", sa, sb)
                if tag_depth(tag) > 4:
                    tag = None
            return mk(min(a["lo"] + c["lo"], r[1]), min(a["hi"] + c["hi"], r[1]), targ, s=tag)
        if last in ("checked_sub", "checked_add", "checked_mul") and ints(0, 1):
            op = {"checked_sub": "Sub", "checked_add": "Add", "checked_mul": "Mul"}[last]
            inner = dty.split("Option<", 1)[-1].rstrip(">")
            res = self.binop(op, dargs[0], dargs[1], inner)
            rr = ty_range(inner)
            variants = {}
            if res["k"] == "int" and rr:
                if res["hi"] >= rr[0] and res["lo"] <= rr[1]:
                    variants[1] = payload(mk(max(res["lo"], rr[0]), min(res["hi"], rr[1]), targ))
                if res["lo"] < rr[0] or res["hi"] > rr[1]:
                    variants[0] = {"k": "agg", "f": {}, "t": False}
            else:
                variants = {0: {"k": "agg", "f": {}, "t": False}, 1: payload(top(targ))}
            return enum_val(variants, targ)
        if last == "checked_next_power_of_two" and ints(0) and dargs[0]["lo"] >= 0:
            inner = dty.split("Option<", 1)[-1].rstrip(">")
            rr = ty_range(inner)
            a = dargs[0]
            variants = {}
            if rr:
                top_p2 = (rr[1] + 1) // 2
                if a["lo"] <= top_p2:
                    variants[1] = payload(mk(npot(a["lo"]), npot(min(a["hi"], top_p2)), targ, True))
                if a["hi"] > top_p2:
                    variants[0] = {"k": "agg", "f": {}, "t": False}
                return enum_val(variants, targ)
        if last == "clamp" and ints(0, 1, 2):
            a, lo_, hi_ = dargs[0], dargs[1], dargs[2]
            return mk(min(max(a["lo"], lo_["lo"]), hi_["hi"]), min(max(a["hi"], lo_["lo"]), hi_["hi"]), targ)
        if last in ("from_le_bytes", "from_be_bytes", "from_ne_bytes"):
            return mk(r[0], r[1], targ) if r else top(targ)
        if last in ("wrapping_sub", "wrapping_add", "overflowing_sub", "overflowing_add") and ints(0, 1):
            cases = self._wrap_cases(last, dargs[0], dargs[1], dty, targ)
            if cases:
                tg = ("v", fn.id, b, tuple(a.get("s") for a in dargs if a["k"] == "int"))
                for cv, _ in cases:
                    x = cv["f"][0] if cv["k"] == "agg" else cv
                    if x.get("s") is None and x["lo"] != x["hi"]:
                        x["s"] = tg
                if len(cases) > 1 and self.split_shifts:
                    self._outs = cases
                    return cases[0][0]
                v = cases[0][0]
                for c2, _ in cases[1:]:
                    v = join(v, c2)
                return v
            return top_ty(dty, targ)
        if last in ("wrapping_sub", "wrapping_add", "wrapping_mul", "overflowing_sub", "overflowing_add"):
            return top_ty(dty, targ)
        if last in ("div_ceil",) and ints(0, 1):
            a, c = dargs[0], dargs[1]
            self._record(summ, fn, b, "T", "DivisionByZero", f"{self.local_desc(fn, t['args'][1])} != 0", c["lo"] > 0, c["t"], chain)
            if c["lo"] > 0:
                return mk(-(-a["lo"] // c["hi"]), -(-a["hi"] // c["lo"]), targ)
        return NotImplemented
    if cn.endswith("RangeInclusive::new") and len(dargs) == 2:
        return {"k": "agg", "f": {0: dargs[0], 1: dargs[1]}, "t": False}
    if cn.endswith(("RangeInclusive::contains", "Range::contains")) and len(dargs) > 1:
        rg, x = dargs[0], dargs[1]
        p = op_place(t["args"][1])
        if rg["k"] == "agg" and x["k"] == "int" and rg["f"].get(0, {}).get("k") == "int" and rg["f"].get(1, {}).get("k") == "int":
            lo, hi = rg["f"][0]["lo"], rg["f"][1]["hi"] - (0 if "Inclusive" in cn else 1)
            src = args[1]
            tgt = _ref_target(st, src)
            if tgt is not None and "p" not in t["dest"]:
                st[("fact", t["dest"]["l"])] = ("range", {"l": tgt}, lo, hi)
            if x["lo"] >= rg["f"][0]["hi"] and x["hi"] <= (rg["f"][1]["lo"] - (0 if "Inclusive" in cn else 1)):
                return const(1)
            if x["hi"] < lo or x["lo"] > hi:
                return const(0)
            return mk(0, 1, taint_of(x))
        return mk(0, 1, targ)
    if last == "clamp" and (cn.startswith("core::cmp::") or cn.endswith("Ord::clamp")) and ints(0, 1, 2):
        a, lo_, hi_ = dargs[0], dargs[1], dargs[2]
        return mk(min(max(a["lo"], lo_["lo"]), hi_["hi"]), min(max(a["hi"], lo_["lo"]), hi_["hi"]), targ)
    if (cn.startswith("core::cmp::") and last in ("min", "max") and ints(0, 1)) or (cn.endswith(("Ord::min", "Ord::max")) and ints(0, 1)):
        a, c = dargs[0], dargs[1]
        tag = None
        if a.get("s") is not None and c.get("s") is not None:
            sa, sb = a["s"], c["s"]
            if repr(sb) < repr(sa):
                sa, sb = sb, sa
            tag = (last, sa, sb)      # ("max", x, y) >= x, y ; ("min", x, y) <= x, y : used by rel_lt
            if tag_depth(tag) > 4:
                tag = None
        if last == "min":
            return mk(min(a["lo"], c["lo"]), min(a["hi"], c["hi"]), targ, s=tag)
        return mk(max(a["lo"], c["lo"]), max(a["hi"], c["hi"]), targ, s=tag)
    # conversions
    if cn.startswith("core::convert::"):
        a = dargs[0] if dargs else top()
        cands, precise = self.prog.resolve_call(t)
        if cands:
            return NotImplemented if False else self._call_ws(fn, st, b, t, cands, args, summ, chain, targ)
        if last in ("from", "into") and a["k"] == "int":
            if r and a["lo"] >= r[0] and a["hi"] <= r[1]:
                return a
            return mk(r[0], r[1], a["t"]) if r else a
        if last in ("try_from", "try_into") and a["k"] == "int":
            inner = dty.split("Result<", 1)[-1].split(",")[0]
            rr = ty_range(inner)
            if rr:
                v = {}
                if a["hi"] >= rr[0] and a["lo"] <= rr[1]:
                    v[0] = payload(mk(max(a["lo"], rr[0]), min(a["hi"], rr[1]), a["t"]))
                if a["lo"] < rr[0] or a["hi"] > rr[1]:
                    v[1] = payload(top(a["t"]))
                return enum_val(v, a["t"])
        if last in ("as_ref", "as_mut", "borrow", "borrow_mut"):
            return dargs[0]
        if last in ("from", "into"):
            return dargs[0] if dargs else top()
        return NotImplemented
    # Option / Result
    if cn.startswith(("core::option::Option::", "core::result::Result::")):
        a = dargs[0] if dargs else top()
        is_opt = cn.startswith("core::option")
        okv = 1 if is_opt else 0
        bad = 1 - okv
        if last in ("unwrap", "expect", "unwrap_unchecked"):
            safe = a["k"] == "enum" and bad not in a["v"]
            self._record(summ, fn, b, "T", "unwrap", f"{last}({self.local_desc(fn, t['args'][0])})", safe, taint_of(a) or tctrl, chain,
                         "the value may be None/Err depending on untrusted input")
            if a["k"] == "enum":
                if okv not in a["v"]:
                    return None
                pv = a["v"][okv]
                return pv["f"].get(0, top(a["t"])) if pv else top(a["t"])
            return top_ty(dty, taint_of(a))
        if last in ("is_some", "is_none", "is_ok", "is_err"):
            p = op_place(t["args"][0])
            pos = last in ("is_some", "is_ok")
            if a["k"] == "enum":
                has_ok, has_bad = okv in a["v"], bad in a["v"]
                if pos:
                    res = mk(0 if has_bad else 1, 1 if has_ok else 0, a["t"])
                else:
                    res = mk(0 if has_ok else 1, 1 if has_bad else 0, a["t"])
                return res
            return mk(0, 1, taint_of(a))
        if last == "map_err" and a["k"] == "enum":
            v = dict(a["v"])
            if 1 in v:
                v[1] = payload(top(a["t"]))
            return enum_val(v, a["t"])
        if last in ("ok_or", "ok_or_else") and a["k"] == "enum":
            v = {}
            if 1 in a["v"]:
                v[0] = a["v"][1]
            if 0 in a["v"]:
                v[1] = payload(top(a["t"]))
            return enum_val(v, a["t"])
        if last in ("map", "and_then") and a["k"] == "enum":
            v = {k: (payload(top(taint_of(a) or targ)) if k == okv else x) for k, x in a["v"].items()}
            if last == "and_then":
                v[bad] = v.get(bad) or ({"k": "agg", "f": {}, "t": False} if is_opt else payload(top(targ)))
            return enum_val(v, a["t"] or targ)
        if last in ("as_ref", "as_mut", "take", "clone", "cloned", "copied"):
            if last == "take":
                tgt = _ref_target(st, args[0])
            return a
        if last in ("unwrap_or", "unwrap_or_default", "unwrap_or_else"):
            return top_ty(dty, taint_of(a) or targ)
        return NotImplemented
    if cn.endswith("Try::branch"):
        a = dargs[0]
        if a["k"] == "enum":
            v = {}
            if 0 in a["v"]:
                v[0] = a["v"][0]
            if 1 in a["v"]:
                v[1] = payload(enum_val({1: a["v"][1]}, a["t"]))
            return enum_val(v, a["t"])
        return enum_val({0: payload(top(taint_of(a))), 1: payload(top(taint_of(a)))}, taint_of(a))
    if cn.endswith("FromResidual::from_residual"):
        return enum_val({1: payload(top(targ))}, targ)
    # containers
    if cn.startswith(("alloc::vec::", "core::slice::", "alloc::slice::", "alloc::string::", "core::str::", "core::array::")):
        a = dargs[0] if dargs else top()
        if last in ("len",):
            if a["k"] == "seq":
                return a["len"]
            return mk(0, 2**64 - 1, taint_of(a))
        if last == "is_empty":
            p = op_place(t["args"][0])
            if a["k"] == "seq":
                src = args[0]
                tgt = _ref_target(st, src)
                if tgt is not None and "p" not in t["dest"]:
                    st[("fact", t["dest"]["l"])] = ("empty", {"l": tgt})
                elif a["len"].get("s") is not None and "p" not in t["dest"]:
                    st[("fact", t["dest"]["l"])] = ("lentag", None, a["len"]["s"], a["len"]["lo"], a["len"]["hi"])
                ln = a["len"]
                if ln["hi"] == 0:
                    return const(1)
                if ln["lo"] > 0:
                    return const(0)
                return mk(0, 1, ln["t"])
            return mk(0, 1, taint_of(a))
        if last == "new":
            return seq(const(0))
        if last == "with_capacity":
            n = dargs[0]
            safe = n["k"] == "int" and (n["hi"] <= ALLOC_LIMIT or n.get("ib"))
            self._record(summ, fn, b, "T", "alloc", f"with_capacity({self.local_desc(fn, t['args'][0])})", safe, taint_of(n), chain,
                         f"capacity in [{n.get('lo')}, {n.get('hi')}]", (n,))
            return seq(const(0))
        if last == "from_elem":
            n = dargs[1] if len(dargs) > 1 else top()
            safe = n["k"] == "int" and (n["hi"] <= ALLOC_LIMIT or n.get("ib"))
            self._record(summ, fn, b, "T", "alloc", f"vec![_; {self.local_desc(fn, t['args'][1])}]", safe, taint_of(n), chain,
                         f"length in [{n.get('lo')}, {n.get('hi')}]", (n,))
            return seq(n if n["k"] == "int" else mk(0, 2**64 - 1, taint_of(n)), targ)
        if last in ("push", "push_str", "extend_from_slice", "append", "insert"):
            tgt = _ref_target(st, args[0])
            if tgt is not None:
                old = st.get(tgt)
                if old and old["k"] == "seq":
                    ln = old["len"]
                    nv = seq(mk(ln["lo"] + (1 if last == "push" else 0), min(ln["hi"] + (1 if last == "push" else 2**32), 2**64 - 1), ln["t"] or targ,
                                False, None, bool(ln.get("ib"))), old["t"] or targ)
                    if last == "push" and len(dargs) > 1:
                        if old.get("e0"):
                            nv["e0"] = True
                        nv["e"] = join(old.get("e"), dargs[1]) if (old.get("e") is not None or ln["hi"] == 0 or old.get("e0")) else None
                        if nv["e"] is None:
                            nv.pop("e")
                    elif old.get("e") is not None:
                        nv["e"] = old["e"]
                    st[tgt] = nv
            return top_ty(dty, False)
        if last in ("remove", "swap_remove"):
            tgt = _ref_target(st, args[0])
            idx = dargs[1] if len(dargs) > 1 else top()
            safe = a["k"] == "seq" and idx["k"] == "int" and idx["hi"] < a["len"]["lo"]
            self._record(summ, fn, b, "T", "BoundsCheck", f"remove({self.local_desc(fn, t['args'][1])}) on {self.local_desc(fn, t['args'][0])}", safe,
                         taint_of(a) or taint_of(idx) or tctrl, chain,
                         f"vector length in [{a['len']['lo'] if a['k'] == 'seq' else '?'}, {a['len']['hi'] if a['k'] == 'seq' else '?'}]", (a,))
            if tgt is not None and a["k"] == "seq":
                ln = a["len"]
                st[tgt] = seq(mk(max(ln["lo"] - 1, 0), max(ln["hi"] - 1, 0), ln["t"]), a["t"])
            return top_ty(dty, taint_of(a))
        if last in ("to_vec", "clone", "deref", "deref_mut", "as_slice", "as_mut_slice", "as_ref", "as_mut", "iter", "iter_mut", "into_iter",
                    "as_str", "as_bytes", "to_owned", "borrow", "into_boxed_slice", "into_vec"):
            return a
        if last in ("chunks", "chunks_exact", "chunks_mut", "chunks_exact_mut"):
            n = dargs[1] if len(dargs) > 1 else top()
            self._record(summ, fn, b, "T", "panic", f"{last}(0)", n["k"] == "int" and n["lo"] > 0, taint_of(n), chain)
            return top(targ)
        if last == "split_at":
            n = dargs[1] if len(dargs) > 1 else top()
            safe = a["k"] == "seq" and n["k"] == "int" and n["hi"] <= a["len"]["lo"]
            self._record(summ, fn, b, "T", "BoundsCheck", f"split_at({self.local_desc(fn, t['args'][1])})", safe, taint_of(n) or taint_of(a), chain)
            return {"k": "agg", "f": {0: seq(n if n["k"] == "int" else mk(0, 2**64 - 1), taint_of(a)), 1: seq(mk(0, 2**64 - 1, taint_of(a)), taint_of(a))}, "t": False}
        if last in ("copy_from_slice", "clone_from_slice"):
            c = dargs[1] if len(dargs) > 1 else top()
            safe = a["k"] == "seq" and c["k"] == "seq" and a["len"]["lo"] == a["len"]["hi"] == c["len"]["lo"] == c["len"]["hi"]
            self._record(summ, fn, b, "T", "panic", f"copy_from_slice len({self.local_desc(fn, t['args'][0])})==len({self.local_desc(fn, t['args'][1])})",
                         safe, taint_of(a) or taint_of(c), chain)
            return top_ty(dty, False)
        if last in ("try_into",):
            return NotImplemented
        return NotImplemented
    if cn.endswith(("Index::index", "IndexMut::index_mut")):
        a = dargs[0]
        idx = dargs[1] if len(dargs) > 1 else top()
        if idx["k"] == "int":
            safe = a["k"] == "seq" and (idx["hi"] < a["len"]["lo"] or rel_lt(self._facts, idx, a["len"]))
            self._record(summ, fn, b, "T", "BoundsCheck", f"{self.local_desc(fn, t['args'][1])} < len({self.local_desc(fn, t['args'][0])})", safe,
                         taint_of(a) or taint_of(idx), chain, None, (a, idx))
            el = a.get("e") if a["k"] == "seq" else None
            ety = dty.lstrip("&").replace("mut ", "")
            if el is None:
                el = top_ty(ety, taint_of(a))
            if el["k"] == "seq" and a["k"] == "seq" and a.get("id") is not None and idx.get("s") is not None:
                el = dict(el)
                el["id"] = ("elem", a["id"], idx["s"])
                el["len"] = dict(el["len"], s=("len", el["id"]))
            return el
        if idx["k"] == "agg":
            # range index: start..end
            ends = [v for v in idx["f"].values() if v["k"] == "int"]
            hi = max([v["hi"] for v in ends], default=None)
            safe = a["k"] == "seq" and hi is not None and hi <= a["len"]["lo"]
            tt = taint_of(a) or taint_of(idx)
            self._record(summ, fn, b, "T", "BoundsCheck", f"range {self.local_desc(fn, t['args'][1])} within {self.local_desc(fn, t['args'][0])}", safe, tt, chain)
            if len(ends) == 2:
                lo_v, hi_v = idx["f"].get(0), idx["f"].get(1)
                if lo_v and hi_v and lo_v["k"] == "int" and hi_v["k"] == "int":
                    return seq(mk(max(hi_v["lo"] - lo_v["hi"], 0), max(hi_v["hi"] - lo_v["lo"], 0), tt), taint_of(a))
            return seq(mk(0, a["len"]["hi"] if a["k"] == "seq" else 2**64 - 1, tt), taint_of(a))
        return NotImplemented
    if cn.endswith(("Deref::deref", "DerefMut::deref_mut", "Clone::clone", "Borrow::borrow", "AsRef::as_ref", "ToOwned::to_owned",
                    "IntoIterator::into_iter", "ToString::to_string")):
        return dargs[0] if dargs else top()
    if cn.endswith("Default::default"):
        if ty_range(dty):
            return const(0)
        return top_ty(dty, False)
    if cn.startswith(("core::fmt", "alloc::fmt", "core::hint")):
        return top(False)
    if cn.endswith(("PartialEq::eq", "PartialEq::ne", "PartialOrd::lt", "PartialOrd::le", "PartialOrd::gt", "PartialOrd::ge")) and ints(0, 1):
        op = {"eq": "Eq", "ne": "Ne", "lt": "Lt", "le": "Le", "gt": "Gt", "ge": "Ge"}[last]
        lo, hi = self.cmp(op, dargs[0], dargs[1])
        return mk(lo, hi, targ)
    if cn.endswith(("Iterator::next",)):
        src = dargs[0] if dargs else top()
        item = src.get("e") if src["k"] == "seq" and src.get("e") is not None else top(targ)
        if "Enumerate" in fn.local_ty(op_local(t["args"][0])) if op_local(t["args"][0]) is not None else False:
            cnt = mk(0, max(src["len"]["hi"] - 1, 0) if src["k"] == "seq" and src.get("olen") is None else 2**64 - 1, False)
            cnt["s"] = self.fresh("enum", fn, b)
            if src["k"] == "seq" and src.get("olen") is not None:
                # the counter of a whole-sequence enumerate is below the number of items
                fc = dict(st.get("#facts") or {})
                _rel_fact(fc, "Lt", cnt["s"], src["olen"])
                st["#facts"] = fc
                self._facts = fc
            item = {"k": "agg", "f": {0: cnt, 1: item}, "t": False}
        return enum_val({0: {"k": "agg", "f": {}, "t": False}, 1: payload(item)}, targ)
    if cn.endswith("Iterator::zip") and len(dargs) == 2 and dargs[0]["k"] == "seq":
        a, c = dargs
        ea = a.get("e") if a.get("e") is not None else top(taint_of(a))
        ec = (c.get("e") if c.get("e") is not None else top(taint_of(c))) if c["k"] == "seq" else top(taint_of(c))
        ln = a["len"]
        if c["k"] == "seq":
            ln = mk(min(a["len"]["lo"], c["len"]["lo"]), min(a["len"]["hi"], c["len"]["hi"]), a["len"]["t"] or c["len"]["t"])
        z = seq(ln, taint_of(a) or taint_of(c))
        z["e"] = {"k": "agg", "f": {0: ea, 1: ec}, "t": False}
        return z
    if cn.endswith(("Iterator::enumerate", "Iterator::rev", "Iterator::skip", "Iterator::take", "Iterator::cloned", "Iterator::copied")) and dargs and dargs[0]["k"] == "seq":
        return dargs[0]
    if cn.endswith(("Iterator::map", "Iterator::filter", "Iterator::filter_map", "Iterator::inspect")) and dargs and dargs[0]["k"] == "seq":
        # one item out per item in at most: the length bound survives, the elements are unknown
        src = dargs[0]
        exact = cn.endswith(("Iterator::map", "Iterator::inspect"))
        ln = dict(src["len"]) if exact else mk(0, src["len"]["hi"], src["len"]["t"])
        if not exact:
            ln.pop("s", None)
        return seq(ln, taint_of(src) or targ)
    if cn.endswith(("Iterator::collect", "FromIterator::from_iter")) and dargs and dargs[0]["k"] == "seq":
        # a collection of what the iterator yields: a Vec has exactly that many items, a set or map at most that many
        src = dargs[0]
        if dty.startswith("alloc::vec::Vec<"):
            out = seq(dict(src["len"]), taint_of(src))
            if src.get("e") is not None:
                out["e"] = src["e"]
            return out
        if "BTreeSet<" in dty or "BTreeMap<" in dty or "HashSet<" in dty or "HashMap<" in dty:
            return seq(mk(0, src["len"]["hi"], src["len"]["t"]), taint_of(src))
        return NotImplemented
    if cn.startswith("core::mem::"):
        if last in ("take", "replace"):
            return dargs[0] if dargs else top()
        if last == "size_of":
            return mk(0, 4096)
    return NotImplemented


Analyzer._std = _std


def _call_ws(self, fn, st, b, t, cands, args, summ, chain, targ):
    c = cands[0]
    cargs = [(_deref(st, a) if a["k"] == "ref" else a) for a in args]
    sub = self.analyze(c, cargs[: c.arg_count], chain)
    self._outs = None
    for al in sub.alarms:
        if not any(x.key == al.key for x in summ.alarms):
            summ.alarms.append(al)
    summ.sites += sub.sites
    summ.discharged += sub.discharged
    if not sub.returns:
        return None
    return sub.ret if sub.ret is not None else top_ty(t.get("dest_ty", ""), targ)


Analyzer._call_ws = _call_ws


# =================================================================================================
# type-parameter substitution for resolving trait calls inside generic bodies
# =================================================================================================

def split_generic(ty):
    """'a::B<X, Y<Z>>' -> ('a::B', ['X', 'Y<Z>'])"""
    i = ty.find("<")
    if i < 0 or not ty.endswith(">"):
        return ty, []
    base = ty[:i]
    inner = ty[i + 1:-1]
    args = []
    depth = 0
    cur = ""
    for ch in inner:
        if ch in "<([":
            depth += 1
        elif ch in ">)]":
            depth -= 1
        if ch == "," and depth == 0:
            args.append(cur.strip())
            cur = ""
        else:
            cur += ch
    if cur.strip():
        args.append(cur.strip())
    return base, args


def subst_ty(ty, subst):
    if not subst:
        return ty
    if ty in subst:
        return subst[ty]

    def rep(m):
        w = m.group(0)
        return subst.get(w, w)
    return re.sub(r"(?<![\w:])[A-Z]\w*(?![\w:])", rep, ty)


def match_impl(self_pat, ty):
    """match impl self type pattern (with type parameters) against a concrete type; returns subst or None"""
    self_pat = self_pat.strip()
    ty = ty.strip()
    if re.match(r"^[A-Z]\w*$", self_pat):
        return {self_pat: ty}
    bp, ap = split_generic(self_pat)
    bt, at = split_generic(ty)
    if bp != bt or len(ap) != len(at):
        return None
    res = {}
    for p, a in zip(ap, at):
        m = match_impl(p, a) if not re.match(r"^\d+$", p) else ({} if p == a else None)
        if m is None:
            if p == a:
                continue
            return None
        res.update(m)
    return res


def resolve_with_subst(prog, t, subst):
    """(callee Fn, callee substitution) for a trait-method call whose Self is known only through `subst`"""
    f = t.get("fn") or {}
    d = f.get("def")
    targs = [subst_ty(x, subst) for x in f.get("targs", [])]
    if not targs:
        return None, None
    self_ty = targs[0]
    for im, it in prog.impls_of_item.get(d, []):
        m = match_impl(im["self_ty"], self_ty)
        if m is not None and it["id"] in prog.fns:
            return prog.fns[it["id"]], m
    # default (provided) method body with Self bound
    if d in prog.fns and f.get("trait"):
        callee = prog.fns[d]
        gens = callee.get("generics") or []
        s2 = {"Self": self_ty}
        for g, a in zip(gens, targs):
            s2[g] = a
        return callee, s2
    return None, None


def report_sites(ck, an, rule="E4", alarmed=()):
    """one obligation per site proved safe; sites that are not attacker-controlled or not decided are listed as notes"""
    n = {"safe": 0, "untainted": 0, "undecided": 0, "alarm": 0}
    for k, (status, loc) in sorted(an.site_log.items()):
        n[status] += 1
        if status == "safe":
            ck.ob(rule, "safe:" + k, True, "proved not to fail for any value of the attacker-controlled operands", loc=loc)
        elif status == "undecided":
            ck.note(f"not decided: {k} at {loc} (a loop-built length / loop counter the path never related to the operand; "
                    f"its safety rests on an inductive invariant outside an interval analysis)")
    for f in an.analysed_fns:
        ck.saw(f)
    ck.stats["distinct_sites"] = len(an.site_log)
    ck.stats["distinct_sites_safe"] = n["safe"]
    ck.stats["distinct_sites_not_attacker_controlled"] = n["untainted"]
    ck.stats["distinct_sites_undecided"] = n["undecided"]
    ck.stats["distinct_sites_alarmed"] = n["alarm"]
    return n


def with_path_facts(v, facts):
    """the value as the facts of one path see it (integers by tag, sequence lengths by their length tag)"""
    if v is None:
        return v
    if v["k"] == "int":
        f = facts.get(v.get("s")) if v.get("s") is not None else None
        if f:
            v = dict(v, lo=max(v["lo"], f[0]), hi=min(v["hi"], f[1]), p2=bool(v.get("p2")) or (len(f) > 2 and bool(f[2])))
        if v.get("p2") and v["hi"] >= 1:
            v = dict(v, hi=1 << (v["hi"].bit_length() - 1))
        return v
    if v["k"] == "seq":
        return dict(v, len=with_path_facts(v["len"], facts))
    if v["k"] == "agg":
        return {"k": "agg", "f": {k: with_path_facts(x, facts) for k, x in v["f"].items()}, "t": v["t"]}
    return v
