"""Inter-procedural expanded CFG (supergraph) by context-sensitive inlining of selected callees and
of closures passed to call-through adaptors.

Node = (ctx, block, 'S'|'T') where ctx is a tuple of (caller fn id, call block) frames.
"""
from .cfg import S, T
from .ir import callee_name

# adaptors that run their closure argument exactly once, synchronously
CALL_ONCE = {
    "tracing::span::Span::in_scope",
}


class Super:
    def __init__(self, prog, root, want_inline, max_depth=6, closure_policy=None):
        """want_inline(fn, caller, block) -> bool decides whether a resolved callee is expanded."""
        self.prog = prog
        self.root = root
        self.want_inline = want_inline
        self.max_depth = max_depth
        self.fn_of_ctx = {(): root}
        self._succ = {}
        self.entry = ((), 0, S)
        self.unresolved_inlines = []

    def fn_at(self, node):
        return self.fn_of_ctx[node[0]]

    def _callee_targets(self, ctx, fn, b, t):
        """list of (callee Fn, once: bool|None) to expand at call (fn, b). once=None: plain call."""
        res = []
        if len(ctx) >= self.max_depth:
            return res
        cands, precise = self.prog.resolve_call(t)
        for c in cands:
            if c.id in [fr[2] for fr in ctx] or c.id == self.root.id and ctx:
                continue  # no recursion
            if self.want_inline(c, fn, b):
                res.append((c, None))
        # closures passed as arguments
        cn = callee_name(t)
        for cid in fn.closure_args(t):
            cf = self.prog.fns.get(cid)
            if cf is None:
                continue
            if self.want_inline(cf, fn, b):
                res.append((cf, cn in CALL_ONCE))
        # direct call of a closure value (FnOnce::call_once etc.) is handled as closure arg (self)
        return res

    def succs(self, node):
        r = self._succ.get(node)
        if r is not None:
            return r
        ctx, b, k = node
        fn = self.fn_of_ctx[ctx]
        if k == S:
            r = [(ctx, b, T)]
        else:
            t = fn.term(b)
            r = []
            normal = [(ctx, s, S) for s in fn.succ[b]]
            if t["k"] == "call":
                targets = self._callee_targets(ctx, fn, b, t)
                if targets:
                    for c, once in targets:
                        nctx = ctx + ((fn.id, b, c.id),)
                        self.fn_of_ctx[nctx] = c
                        r.append((nctx, 0, S))
                    plain = any(once is None for c, once in targets)
                    once_clos = any(once for c, once in targets)
                    if not plain and not once_clos:
                        # closures that may or may not run: control may also skip them
                        r.extend(normal)
                else:
                    r = normal
            elif t["k"] == "return":
                if ctx:
                    pctx = ctx[:-1]
                    cfn_id, cb, _ = ctx[-1]
                    pfn = self.fn_of_ctx[pctx]
                    r = [(pctx, s, S) for s in pfn.succ[cb]]
                    # closures that may run several times: allow re-entry
                    if fn.kind == "closure":
                        pt = pfn.term(cb)
                        if callee_name(pt) not in CALL_ONCE:
                            r.append((ctx, 0, S))
                else:
                    r = []
            else:
                r = normal
        self._succ[node] = r
        return r

    def explore(self, limit=400000):
        seen = {self.entry}
        st = [self.entry]
        while st:
            n = st.pop()
            for m in self.succs(n):
                if m not in seen:
                    seen.add(m)
                    st.append(m)
                    if len(seen) > limit:
                        raise RuntimeError("supergraph too large")
        return seen

    def call_nodes(self):
        """yield (node, fn, terminator) for every call terminator in the expanded graph"""
        for n in self.explore():
            ctx, b, k = n
            if k != T:
                continue
            fn = self.fn_of_ctx[ctx]
            t = fn.term(b)
            if t["k"] == "call":
                yield n, fn, t

    def must_between(self, A, B, C, after_a=True):
        B = frozenset(B)
        C = set(C)
        parent = {}
        queue = []
        if A is None:
            if self.entry not in B:
                parent[self.entry] = None
                queue.append(self.entry)
        else:
            for n in A:
                if after_a:
                    for m in self.succs(n):
                        if m not in B and m not in parent:
                            parent[m] = ("START", n)
                            queue.append(m)
                elif n not in B and n not in parent:
                    parent[n] = None
                    queue.append(n)
        qi = 0
        while qi < len(queue):
            n = queue[qi]
            qi += 1
            if n in C:
                path = [n]
                while parent.get(path[-1]) is not None:
                    path.append(parent[path[-1]])
                path.reverse()
                return False, path
            for m in self.succs(n):
                if m not in B and m not in parent:
                    parent[m] = n
                    queue.append(m)
        return True, None

    def fmt_path(self, path, maxn=16):
        out = []
        for node in path:
            if len(node) != 3:
                continue  # start sentinel
            ctx, b, k = node
            fn = self.fn_of_ctx[ctx]
            ln = fn.line(b, None if k == T else 0) if (k == T or fn.stmts(b)) else None
            if ln is None:
                continue
            item = f"{fn.file}:{ln}"
            if not out or out[-1] != item:
                out.append(item)
        if len(out) > maxn:
            out = out[: maxn // 2] + ["..."] + out[-maxn // 2:]
        return " -> ".join(out)


def reaches_event(prog, is_event, max_rounds=50):
    """Set of fn ids from which a call satisfying is_event(fn, block, term) is reachable in the call
    graph (closures are attributed to their parent as callees)."""
    direct = set()
    callers = {}
    for f in prog.fns.values():
        for b, t in f.calls():
            if is_event(f, b, t):
                direct.add(f.id)
            cands, _ = prog.resolve_call(t)
            for c in cands:
                callers.setdefault(c.id, set()).add(f.id)
            for cid in f.closure_args(t):
                callers.setdefault(cid, set()).add(f.id)
        if f.kind == "closure":
            # a closure body is executed by whoever receives it; attribute to the parent
            callers.setdefault(f.id, set()).add(f.get("parent_fn"))
    res = set(direct)
    work = list(direct)
    while work:
        x = work.pop()
        for c in callers.get(x, ()):
            if c not in res:
                res.add(c)
                work.append(c)
    return res
