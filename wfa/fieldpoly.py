"""Engine E5 (field part): symbolic evaluation of small field-arithmetic functions into polynomials over F_p.

The MIR of a function is executed on symbolic values: base-field operations (`+ - * neg double square new(k) ZERO ONE`) are ring
operations on multivariate polynomials with coefficients mod p, arrays / tuples / tuple-structs are lists, array indexes and
bounds checks are concrete. A branch on a symbolic equality forks the path and records the condition. Calls to other workspace
functions (the `ExtensibleField<N>` methods of the base field from the generic extension code, derived `PartialEq`) are inlined.
What the base-field operations themselves compute is the business of C07; here they are the ring operations they stand for.
"""
from .ir import callee_name, op_place


class Unsupported(Exception):
    pass


# ---- polynomials -----------------------------------------------------------------------------------

class Poly:
    __slots__ = ("t", "p")

    def __init__(self, t, p):
        self.t = {m: c % p for m, c in t.items() if c % p}
        self.p = p

    @staticmethod
    def const(c, p):
        return Poly({(): c}, p)

    @staticmethod
    def var(name, p):
        return Poly({((name, 1),): 1}, p)

    def __add__(self, o):
        t = dict(self.t)
        for m, c in o.t.items():
            t[m] = t.get(m, 0) + c
        return Poly(t, self.p)

    def __sub__(self, o):
        t = dict(self.t)
        for m, c in o.t.items():
            t[m] = t.get(m, 0) - c
        return Poly(t, self.p)

    def __neg__(self):
        return Poly({m: -c for m, c in self.t.items()}, self.p)

    def __mul__(self, o):
        t = {}
        for m1, c1 in self.t.items():
            for m2, c2 in o.t.items():
                d = dict(m1)
                for v, e in m2:
                    d[v] = d.get(v, 0) + e
                m = tuple(sorted(d.items()))
                t[m] = (t.get(m, 0) + c1 * c2) % self.p
        return Poly(t, self.p)

    def is_zero(self):
        return not self.t

    def __eq__(self, o):
        return isinstance(o, Poly) and self.t == o.t

    def __hash__(self):
        return hash(tuple(sorted(self.t.items())))

    def vars(self):
        return {v for m in self.t for v, _ in m}

    def coeff_of(self, var):
        """(terms with var^1 divided by var, terms without var); raises if var appears with another power"""
        a, b = {}, {}
        for m, c in self.t.items():
            d = dict(m)
            e = d.pop(var, 0)
            if e == 0:
                b[m] = c
            elif e == 1:
                a[tuple(sorted(d.items()))] = c
            else:
                raise Unsupported(f"{var} appears with power {e}")
        return Poly(a, self.p), Poly(b, self.p)

    def show(self, maxterms=12):
        if not self.t:
            return "0"
        out = []
        for m, c in sorted(self.t.items())[:maxterms]:
            cc = c if c <= self.p // 2 else c - self.p
            mono = "*".join(v if e == 1 else f"{v}^{e}" for v, e in m)
            out.append(f"{cc}" if not mono else (mono if cc == 1 else f"{cc}*{mono}"))
        return " + ".join(out) + (" + ..." if len(self.t) > maxterms else "")


# ---- interpreter -----------------------------------------------------------------------------------

BASE_OPS = {
    ("core::ops::arith::Add", "add"): lambda a, b: a + b,
    ("core::ops::arith::Sub", "sub"): lambda a, b: a - b,
    ("core::ops::arith::Mul", "mul"): lambda a, b: a * b,
}
EXT = "winter_math::field::traits::ExtensibleField"
FE = "winter_math::field::traits::FieldElement"


class Interp:
    def __init__(self, prog, base_ty, p, degree=None, max_paths=64, max_steps=20000):
        self.prog = prog
        self.base = base_ty
        self.degree = degree
        self.p = p
        self.max_paths = max_paths
        self.max_steps = max_steps
        self.inv_calls = []    # [(argument poly, fresh variable name)]
        self.inlined = set()

    # ---- values ----
    def zero(self):
        return Poly.const(0, self.p)

    def one(self):
        return Poly.const(1, self.p)

    def const_for(self, c):
        ty = c.get("ty", "")
        name = c.get("def_name") or c.get("def") or ""
        if "scalar" in c and ty in ("usize", "u8", "u16", "u32", "u64", "u128", "bool", "isize", "i32", "i64"):
            return int(c["scalar"])
        last = name.split("::")[-1]
        if last in ("ZERO", "ONE"):
            v = self.zero() if last == "ZERO" else self.one()
            if "QuadExtension" in ty:
                return [v, self.zero()]
            if "CubeExtension" in ty:
                return [v, self.zero(), self.zero()]
            return v
        if c.get("zst"):
            return ()
        return ("opaque", ty or name)

    def read_place(self, fn, env, p):
        l = p["l"]
        if l not in env:
            raise Unsupported(f"read of unassigned local _{l} in {fn.nname}")
        v = env[l]
        for e in p.get("p", []):
            if e == "deref":
                continue
            if isinstance(e, dict) and "f" in e:
                if isinstance(v, list):
                    v = v[e["f"]]
                else:
                    raise Unsupported(f"field projection of a non-aggregate in {fn.nname}")
            elif isinstance(e, dict) and "idx" in e:
                i = env.get(e["idx"])
                if not isinstance(i, int) or not isinstance(v, list):
                    raise Unsupported("symbolic array index")
                v = v[i]
            elif isinstance(e, dict) and "cidx" in e:
                v = v[e["cidx"]]
            elif isinstance(e, dict) and "down" in e:
                continue
            else:
                raise Unsupported(f"projection {e}")
        return v

    def read_op(self, fn, env, op):
        p = op_place(op)
        if p is not None:
            return self.read_place(fn, env, p)
        return self.const_for(op.get("const") or {})

    def write_place(self, fn, env, p, v):
        if not p.get("p"):
            env[p["l"]] = v
            return
        proj = [e for e in p["p"] if e != "deref"]
        if not proj:
            env[p["l"]] = v
            return
        cur = env.get(p["l"])
        if len(proj) == 1 and isinstance(proj[0], dict) and "f" in proj[0] and isinstance(cur, list):
            cur = list(cur)
            cur[proj[0]["f"]] = v
            env[p["l"]] = cur
            return
        raise Unsupported("write through a projection")

    # ---- execution ----
    def run(self, fn, args, depth=0):
        """[(conds, return value)] over all paths; conds = [(poly-or-list pair, truth)]"""
        if depth > 12:
            raise Unsupported("inlining too deep")
        self.inlined.add(fn.nname)
        out = []
        steps = [0]
        env0 = {i + 1: a for i, a in enumerate(args)}

        def go(b, env, conds, seen):
            while True:
                steps[0] += 1
                if steps[0] > self.max_steps:
                    raise Unsupported("too many steps")
                if b in seen:
                    raise Unsupported(f"loop in {fn.nname}")
                seen = seen | {b}
                blk = fn.blocks[b]
                for s in blk["s"]:
                    if s["k"] != "assign":
                        continue
                    self.write_place(fn, env, s["lhs"], self.eval_rv(fn, env, s["rv"]))
                t = blk["t"]
                k = t["k"]
                if k == "return":
                    out.append((conds, env.get(0, ())))
                    if len(out) > self.max_paths:
                        raise Unsupported("too many paths")
                    return
                if k in ("goto", "drop"):
                    b = t["target"]
                    continue
                if k == "assert":
                    c = self.read_op(fn, env, t["cond"])
                    if isinstance(c, int) and bool(c) == bool(t["expected"]):
                        b = t["target"]
                        continue
                    raise Unsupported(f"assertion {t['msg']} not decided concretely in {fn.nname}")
                if k == "call":
                    results = self.call(fn, env, t, depth)
                    if t.get("target") is None:
                        return  # diverges: panic path
                    if len(results) == 1 and not results[0][0]:
                        self.write_place(fn, env, t["dest"], results[0][1])
                        b = t["target"]
                        continue
                    for cc, rv in results:
                        e2 = dict(env)
                        self.write_place(fn, e2, t["dest"], rv)
                        go(t["target"], e2, conds + cc, seen)
                    return
                if k == "switch":
                    d = self.read_op(fn, env, t["d"])
                    if isinstance(d, int):
                        nb = t["otherwise"]
                        for v, tb in t["targets"]:
                            if int(v) == d:
                                nb = tb
                        b = nb
                        continue
                    if isinstance(d, tuple) and d and d[0] == "eqz":
                        # symbolic boolean: value is true iff (all listed polynomials are zero) xor negated
                        polys, negated = d[1], d[2]
                        for bv in (1, 0):
                            nb = t["otherwise"]
                            for v, tb in t["targets"]:
                                if int(v) == bv:
                                    nb = tb
                            allzero = bool(bv) ^ bool(negated)
                            go(nb, dict(env), conds + [(polys, allzero)], seen)
                        return
                    raise Unsupported(f"switch on a symbolic value in {fn.nname}")
                return  # unreachable / resume

        go(0, env0, [], frozenset())
        return out

    def eval_rv(self, fn, env, rv):
        k = rv["k"]
        if k == "use":
            return self.read_op(fn, env, rv["a"])
        if k in ("ref", "rawptr"):
            return self.read_place(fn, env, rv["p"])
        if k == "agg":
            return [self.read_op(fn, env, o) for o in rv["ops"]]
        if k == "bin":
            a, b = self.read_op(fn, env, rv["a"]), self.read_op(fn, env, rv["b"])
            if isinstance(a, int) and isinstance(b, int):
                op = rv["op"]
                res = {"Lt": a < b, "Le": a <= b, "Gt": a > b, "Ge": a >= b, "Eq": a == b, "Ne": a != b}.get(op)
                if res is not None:
                    return int(res)
                if op in ("Add", "AddWithOverflow"):
                    return a + b if op == "Add" else [a + b, 0]
                if op in ("Sub", "SubWithOverflow"):
                    return a - b if op == "Sub" else [a - b, 0]
                if op in ("Mul", "MulWithOverflow"):
                    return a * b if op == "Mul" else [a * b, 0]
            raise Unsupported(f"integer operation {rv['op']} on symbolic values in {fn.nname}")
        if k == "un":
            a = self.read_op(fn, env, rv["a"])
            if rv["op"] == "Not":
                if isinstance(a, int):
                    return int(not a)
                if isinstance(a, tuple) and a[0] == "eqz":
                    return ("eqz", a[1], not a[2])
            raise Unsupported(f"unary {rv['op']}")
        if k == "cast":
            return self.read_op(fn, env, rv["a"])
        if k == "discr":
            raise Unsupported("discriminant read")
        raise Unsupported(f"rvalue {k}")

    def is_base(self, ty):
        return ty == self.base or ty == "B" or ty == "Self" or ty == "<Self as " + FE + ">::BaseField"

    def call(self, fn, env, t, depth):
        """[(extra conds, value)]"""
        f = t.get("fn") or {}
        cn = callee_name(t) or ""
        tr, item = f.get("trait"), f.get("item")
        targs = f.get("targs") or []
        args = [self.read_op(fn, env, a) for a in t["args"]]
        single = lambda v: [([], v)]
        polys = all(isinstance(a, Poly) for a in args)
        if (tr, item) in BASE_OPS and len(args) == 2 and polys:
            return single(BASE_OPS[(tr, item)](args[0], args[1]))
        if tr == "core::ops::arith::Neg" and polys:
            return single(-args[0])
        if tr == FE and polys and len(args) == 1:
            if item == "double":
                return single(args[0] + args[0])
            if item == "square":
                return single(args[0] * args[0])
            if item == "cube":
                return single(args[0] * args[0] * args[0])
            if item == "inv":
                for q, nm in self.inv_calls:
                    if q == args[0]:
                        return single(Poly.var(nm, self.p))
                name = f"inv{len(self.inv_calls)}"
                self.inv_calls.append((args[0], name))
                return single(Poly.var(name, self.p))
        if item == "new" and len(args) == 1 and isinstance(args[0], int) and (f.get("impl_self") or "").endswith("BaseElement"):
            return single(Poly.const(args[0], self.p))
        if tr == "core::convert::From" and len(args) == 1 and isinstance(args[0], int):
            return single(Poly.const(args[0], self.p))
        if tr in ("core::cmp::PartialEq",) and item in ("eq", "ne") and len(args) == 2:
            a, b = args
            if isinstance(a, Poly) and isinstance(b, Poly):
                d = a - b
                if d.is_zero():
                    return single(int(item == "eq"))
                if not d.vars():
                    return single(int(item != "eq"))
                return single(("eqz", (d,), item == "ne"))
            if isinstance(a, list) and isinstance(b, list):
                # structural equality of tuple-structs: resolved to the derived impl below (so that a hand-written eq is really read)
                pass
        if cn.startswith("core::fmt") or cn.startswith("core::panicking"):
            return single(())
        # workspace callee: resolve and inline
        callee = self.resolve(fn, t)
        if callee is None:
            raise Unsupported(f"call to {cn} is not modelled")
        res = self.run(callee, args[: callee.arg_count], depth + 1)
        return [(c, v) for c, v in res]

    def resolve(self, fn, t):
        f = t.get("fn") or {}
        res = f.get("resolved")
        if res and res in self.prog.fns:
            return self.prog.fns[res]
        tr, item = f.get("trait"), f.get("item")
        targs = f.get("targs") or []
        if tr == EXT and targs:
            n = targs[1] if len(targs) > 1 and targs[1].isdigit() else self.degree
            want = f"<{self.base} as {EXT}<{n}>>"
            for im in self.prog.impls:
                if im.get("trait_ref") == want:
                    for it in im["items"]:
                        if it["name"] == item:
                            return self.prog.fns[it["id"]]
            # default method of the trait
            for g in self.prog.fns.values():
                if g.get("in_trait") == EXT and g.nname == f"{EXT}::{item}" and g.blocks:
                    return g
            return None
        if tr and targs:
            # trait method on a concrete workspace type (derived PartialEq of the extension structs)
            self_ty = targs[0].split("<")[0]
            for im in self.prog.impls:
                if im.get("trait") == tr and (im.get("self_ty") or "").split("<")[0] == self_ty:
                    for it in im["items"]:
                        if it["name"] == item and it["id"] in self.prog.fns:
                            return self.prog.fns[it["id"]]
        d = f.get("def")
        if d in self.prog.fns:
            return self.prog.fns[d]
        return None
