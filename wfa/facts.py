"""Fact extraction: run the wf-facts driver over /repo's current working tree (cached by content hash)."""
import fcntl
import hashlib
import json
import os
import shutil
import subprocess
import sys
import tempfile
import time

VERIF = os.path.dirname(os.path.dirname(os.path.abspath(__file__)))
REPO = os.environ.get("WF_REPO", "/repo")
CACHE = os.path.join(VERIF, ".cache")
DRIVER_DIR = os.path.join(VERIF, "driver")
DRIVER_BIN = os.path.join(DRIVER_DIR, "target", "release", "wf-facts")

# configuration -> (cargo args, extra RUSTFLAGS, expected crate files)
CONFIGS = {
    "default": (["--workspace", "--lib"], "",
                ["winter_utils", "winter_math", "winter_crypto", "winter_fri", "winter_air",
                 "winter_prover", "winter_verifier", "examples"]),
    "concurrent": (["-p", "winter-prover", "--features", "concurrent", "--lib"], "",
                   ["winter_utils", "winter_math", "winter_crypto", "winter_fri", "winter_air",
                    "winter_prover"]),
    "nostd": (["-p", "winter-verifier", "-p", "winter-prover", "--no-default-features", "--lib"], "",
              ["winter_utils", "winter_math", "winter_crypto", "winter_fri", "winter_air",
               "winter_prover", "winter_verifier"]),
    "release": (["--workspace", "--lib"], "-C debug-assertions=off",
                ["winter_utils", "winter_math", "winter_crypto", "winter_fri", "winter_air",
                 "winter_prover", "winter_verifier"]),
}

# floors: number of function bodies per crate counted on the pinned tree (fail closed below 80%)
FN_FLOORS = {
    "winter_utils": 124, "winter_math": 328, "winter_crypto": 173, "winter_fri": 86,
    "winter_air": 322, "winter_prover": 272, "winter_verifier": 51,
}


# counted per configuration where it differs: without std the streaming reader (ReadAdapter) and the io impls are not compiled
FN_FLOORS_CFG = {"nostd": {"winter_utils": 93}}


class FactsError(Exception):
    pass


def _sh(cmd, **kw):
    return subprocess.run(cmd, stdout=subprocess.PIPE, stderr=subprocess.STDOUT, text=True, **kw)


def nightly_sysroot():
    r = _sh(["rustc", "+nightly", "--print", "sysroot"])
    if r.returncode != 0:
        raise FactsError("nightly toolchain not available: " + r.stdout)
    return r.stdout.strip()


def _hash_tree(root, exts=(".rs", ".toml", ".lock")):
    h = hashlib.sha256()
    n = 0
    for dp, dns, fns in os.walk(root):
        dns[:] = sorted(d for d in dns if d not in ("target", ".git", ".cache"))
        for fn in sorted(fns):
            if fn.endswith(exts):
                p = os.path.join(dp, fn)
                h.update(os.path.relpath(p, root).encode())
                h.update(b"\0")
                with open(p, "rb") as f:
                    h.update(f.read())
                h.update(b"\0")
                n += 1
    return h.hexdigest()[:20], n


def ensure_driver():
    """Build the driver if missing or older than its sources."""
    srcs = [os.path.join(DRIVER_DIR, "src", f) for f in os.listdir(os.path.join(DRIVER_DIR, "src"))]
    srcs.append(os.path.join(DRIVER_DIR, "Cargo.toml"))
    if os.path.exists(DRIVER_BIN):
        mt = os.path.getmtime(DRIVER_BIN)
        if all(os.path.getmtime(s) <= mt for s in srcs):
            return
    env = dict(os.environ, CARGO_NET_OFFLINE="true")
    r = _sh(["cargo", "+nightly", "build", "--release", "--offline"], cwd=DRIVER_DIR, env=env)
    if r.returncode != 0 or not os.path.exists(DRIVER_BIN):
        raise FactsError("driver build failed:\n" + r.stdout[-4000:])


def tree_key():
    rk, nfiles = _hash_tree(REPO)
    dk, _ = _hash_tree(os.path.join(DRIVER_DIR, "src"))
    return f"{rk}-{dk[:8]}", nfiles


def extract(config="default", verbose=False):
    """Return the directory holding <crate>.json files for `config`, extracting if not cached."""
    if config not in CONFIGS:
        raise FactsError("unknown config " + config)
    ensure_driver()
    key, nfiles = tree_key()
    os.makedirs(CACHE, exist_ok=True)
    out = os.path.join(CACHE, "facts", key, config)
    lockf = open(os.path.join(CACHE, f"lock.{key}.{config}"), "w")
    fcntl.flock(lockf, fcntl.LOCK_EX)
    try:
        cargo_args, extra_flags, expected = CONFIGS[config]
        if os.path.exists(os.path.join(out, "OK")):
            return out
        t0 = time.time()
        if os.path.exists(out):
            shutil.rmtree(out)
        os.makedirs(out)
        target = tempfile.mkdtemp(prefix="wf-target-", dir=os.environ.get("WF_TMP", "/tmp"))
        try:
            env = dict(os.environ)
            env.update({
                "LD_LIBRARY_PATH": os.path.join(nightly_sysroot(), "lib"),
                "RUSTFLAGS": ("-Zmir-opt-level=0 -Awarnings " + extra_flags).strip(),
                "RUSTC_WORKSPACE_WRAPPER": DRIVER_BIN,
                "WF_FACTS_OUT": out,
                "CARGO_TARGET_DIR": target,
                "CARGO_NET_OFFLINE": "true",
            })
            env.pop("RUSTC_WRAPPER", None)
            r = _sh(["cargo", "+nightly", "check", "--offline"] + cargo_args, cwd=REPO, env=env)
            if r.returncode != 0:
                raise FactsError(f"cargo check ({config}) failed on {REPO}:\n" + r.stdout[-6000:])
        finally:
            shutil.rmtree(target, ignore_errors=True)
        for c in expected:
            if not os.path.exists(os.path.join(out, c + ".json")):
                raise FactsError(f"fact file missing for crate {c} ({config}): driver was skipped?")
        with open(os.path.join(out, "OK"), "w") as f:
            json.dump({"config": config, "key": key, "files": nfiles, "wall_s": time.time() - t0}, f)
        if verbose:
            print(f"[facts] extracted {config} in {time.time() - t0:.1f}s -> {out}", file=sys.stderr)
        _prune(os.path.join(CACHE, "facts"), keep=key)
        return out
    finally:
        fcntl.flock(lockf, fcntl.LOCK_UN)
        lockf.close()


def _prune(root, keep, maxn=60):
    try:
        ents = [(os.path.getmtime(os.path.join(root, d)), d) for d in os.listdir(root)]
    except FileNotFoundError:
        return
    ents.sort(reverse=True)
    for i, (_, d) in enumerate(ents):
        if d != keep and i >= maxn:
            shutil.rmtree(os.path.join(root, d), ignore_errors=True)


def load_raw(config="default", crates=None):
    d = extract(config)
    res = {}
    for fn in sorted(os.listdir(d)):
        if not fn.endswith(".json"):
            continue
        c = fn[:-5]
        if crates is not None and c not in crates:
            continue
        with open(os.path.join(d, fn)) as f:
            res[c] = json.load(f)
    for c, floor in FN_FLOORS.items():
        floor = FN_FLOORS_CFG.get(config, {}).get(c, floor)
        if c in res and (crates is None or c in crates):
            n = len(res[c]["functions"])
            if n < floor * 0.9:
                raise FactsError(f"crate {c}: only {n} function bodies extracted (floor {floor})")
    return res
