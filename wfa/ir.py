"""In-memory program representation over the JSON facts."""
import re
import os
from collections import defaultdict

from . import facts


class AnchorError(Exception):
    """A semantic anchor (function, impl, field...) could not be found: the check fails closed."""


def strip_generics(s):
    """Remove generic argument lists from a path string, keeping `<T as Trait>` qualifiers.

    `a::B::<E, H>::new` -> `a::B::new`;  `<a::B<E> as c::D<E>>::f` -> `<a::B as c::D>::f`
    """
    out = []
    i = 0
    n = len(s)
    while i < n:
        c = s[i]
        if c == '<':
            prev = s[i - 1] if i > 0 else ''
            qual = (i == 0) or prev in ' (&,[<' or (prev == '*')
            if qual:
                out.append(c)
                i += 1
                continue
            # generic args: skip to the matching '>'
            depth = 0
            j = i
            while j < n:
                if s[j] == '<':
                    depth += 1
                elif s[j] == '>' and s[j - 1] != '-':
                    depth -= 1
                    if depth == 0:
                        break
                j += 1
            # drop a preceding '::' (turbofish)
            if len(out) >= 2 and out[-1] == ':' and out[-2] == ':':
                out.pop()
                out.pop()
            i = j + 1
            continue
        out.append(c)
        i += 1
    return ''.join(out)


def strip_lifetimes(s):
    return re.sub(r"&'\w+ ", "&", s).replace("'_ ", "")


class Fn:
    __slots__ = ("d", "crate", "id", "name", "nname", "kind", "file", "lo", "hi", "blocks", "locals",
                 "arg_count", "_succ", "_pred", "_usucc", "item", "prog", "_defs", "_closures", "_refs", "inlined", "origin")

    def __init__(self, d, crate, prog):
        self.d = d
        self.crate = crate
        self.prog = prog
        self.id = d["id"]
        self.name = d["name"]
        self.nname = strip_generics(d["name"])
        self.kind = d["kind"]
        self.file = d["file"]
        self.lo = d["lo"]
        self.hi = d["hi"]
        self.blocks = d["blocks"]
        self.locals = d["locals"]
        self.arg_count = d["arg_count"]
        self.item = d.get("item_name")
        self._succ = None
        self._pred = None
        self._usucc = None
        self._defs = None
        self._closures = None
        self._refs = None
        self.inlined = ()     # names of the private helpers whose bodies were spliced in (wfa.inline)
        self.origin = None    # the function as compiled, when this is an inlined view of it

    def __repr__(self):
        return f"Fn({self.nname})"

    def get(self, k, default=None):
        return self.d.get(k, default)

    # ---- CFG -----------------------------------------------------------------------------------
    def term(self, b):
        return self.blocks[b]["t"]

    def stmts(self, b):
        return self.blocks[b]["s"]

    @staticmethod
    def term_succs(t):
        k = t["k"]
        if k == "goto":
            return [t["target"]]
        if k == "switch":
            return [x[1] for x in t["targets"]] + [t["otherwise"]]
        if k in ("call", "assert", "drop"):
            return [t["target"]] if t.get("target") is not None else []
        return []

    @property
    def succ(self):
        if self._succ is None:
            self._succ = [self.term_succs(b["t"]) for b in self.blocks]
        return self._succ

    @property
    def pred(self):
        if self._pred is None:
            p = [[] for _ in self.blocks]
            for i, ss in enumerate(self.succ):
                for s in ss:
                    p[s].append(i)
            self._pred = p
        return self._pred

    @property
    def unwind_succ(self):
        if self._usucc is None:
            self._usucc = [([b["t"]["unwind"]] if b["t"].get("unwind") is not None else []) for b in self.blocks]
        return self._usucc

    def line(self, b, i=None):
        blk = self.blocks[b]
        if i is None or i == "T" or i >= len(blk["s"]):
            return blk["t"].get("line")
        return blk["s"][i].get("line")

    def loc(self, b=None, i=None):
        if b is None:
            return f"{self.file}:{self.lo}"
        return f"{self.file}:{self.line(b, i)}"

    # ---- iteration -----------------------------------------------------------------------------
    def calls(self):
        for b, blk in enumerate(self.blocks):
            t = blk["t"]
            if t["k"] == "call":
                yield b, t

    def assigns(self):
        for b, blk in enumerate(self.blocks):
            for i, s in enumerate(blk["s"]):
                if s["k"] == "assign":
                    yield b, i, s

    def reachable_blocks(self):
        seen = {0}
        st = [0]
        while st:
            x = st.pop()
            for s in self.succ[x]:
                if s not in seen:
                    seen.add(s)
                    st.append(s)
        return seen

    # ---- definitions ---------------------------------------------------------------------------
    @property
    def defs(self):
        """local -> list of (bb, idx|'T', kind, payload) for every write whose base is the local."""
        if self._defs is None:
            d = defaultdict(list)
            for b, blk in enumerate(self.blocks):
                for i, s in enumerate(blk["s"]):
                    if s["k"] in ("assign", "setdiscr"):
                        d[s["lhs"]["l"]].append((b, i, s))
                t = blk["t"]
                if t["k"] == "call":
                    d[t["dest"]["l"]].append((b, "T", t))
            self._defs = d
        return self._defs

    def local_ty(self, l):
        return self.locals[l]["ty"]

    def local_name(self, l):
        return self.locals[l].get("name")

    def locals_named(self, name):
        return [i for i, l in enumerate(self.locals) if l.get("name") == name]

    # ---- closures ------------------------------------------------------------------------------
    @property
    def closure_locals(self):
        """local -> closure fn id, for locals that hold a closure value created in this body."""
        if self._closures is None:
            m = {}
            for b, i, s in self.assigns():
                rv = s["rv"]
                if rv["k"] == "agg" and rv.get("agg") == "closure" and "p" not in s["lhs"]:
                    m[s["lhs"]["l"]] = rv["closure"]
            # propagate through moves / refs
            changed = True
            while changed:
                changed = False
                for b, i, s in self.assigns():
                    if "p" in s["lhs"]:
                        continue
                    rv = s["rv"]
                    src = None
                    if rv["k"] == "use":
                        src = op_local(rv["a"], pure=True)
                    elif rv["k"] == "ref":
                        src = rv["p"]["l"] if "p" not in rv["p"] else None
                    if src is not None and src in m and s["lhs"]["l"] not in m:
                        m[s["lhs"]["l"]] = m[src]
                        changed = True
            self._closures = m
        return self._closures

    def closure_args(self, t):
        """closure fn ids passed as arguments at call terminator t."""
        res = []
        for a in t["args"]:
            l = op_local(a, pure=True)
            if l is not None and l in self.closure_locals:
                res.append(self.closure_locals[l])
        return res


def op_place(op):
    if "copy" in op:
        return op["copy"]
    if "move" in op:
        return op["move"]
    return None


def op_local(op, pure=False):
    """Base local of an operand (None for constants). pure=True: only if no projection."""
    p = op_place(op)
    if p is None:
        return None
    if pure and "p" in p:
        return None
    return p["l"]


def op_const(op):
    return op.get("const")


def const_int(op):
    c = op.get("const")
    if c is None or "scalar" not in c:
        return None
    return int(c["scalar"])


def place_fields(p):
    """list of (field name, adt id) projections of a place"""
    return [(e.get("n"), e.get("of")) for e in p.get("p", []) if isinstance(e, dict) and "f" in e]


def callee_name(t):
    f = t.get("fn")
    if not f:
        return None
    return strip_generics(f["name"])


class Program:
    def __init__(self, config="default", crates=None):
        # thorough tier: the rule packs are re-run on further build configurations of /repo (see bin/wfcheck)
        if config == "default" and os.environ.get("WF_CONFIG_OVERRIDE"):
            config = os.environ["WF_CONFIG_OVERRIDE"]
            if crates is not None:
                crates = set(crates) & set(facts.CONFIGS[config][2])
        self.config = config
        raw = facts.load_raw(config, crates)
        self.raw = raw
        self.fns = {}
        self.by_nname = defaultdict(list)
        self.adts = {}
        self.impls = []
        self.traits = {}
        self.consts = {}
        self.consts_by_name = defaultdict(list)
        for crate, d in raw.items():
            for f in d["functions"]:
                fn = Fn(f, crate, self)
                self.fns[fn.id] = fn
                self.by_nname[fn.nname].append(fn)
            for a in d["adts"]:
                self.adts[a["id"]] = a
            for im in d["impls"]:
                im["crate"] = crate
                self.impls.append(im)
            for t in d["traits"]:
                self.traits[t["id"]] = t
            for c in d["consts"]:
                self.consts[c["id"]] = c
                self.consts_by_name[strip_generics(c["name"])].append(c)
        # trait item id -> list of impl method fn ids
        self.impls_of_item = defaultdict(list)
        for im in self.impls:
            for it in im["items"]:
                if it.get("trait_item"):
                    self.impls_of_item[it["trait_item"]].append((im, it))
        self._closures_of = None

    # ---- lookup --------------------------------------------------------------------------------
    def fn(self, nname):
        """Unique function by normalised pretty name; fail closed otherwise."""
        c = self.by_nname.get(nname, [])
        if len(c) != 1:
            raise AnchorError(f"anchor function {nname!r}: {len(c)} candidates")
        return c[0]

    def fn_opt(self, nname):
        c = self.by_nname.get(nname, [])
        return c[0] if len(c) == 1 else None

    def find_fns(self, regex):
        r = re.compile(regex)
        return [f for n, fs in self.by_nname.items() if r.search(n) for f in fs]

    def impl_method(self, self_adt, trait_id, method):
        """Function implementing `method` of trait `trait_id` (None = inherent) for ADT `self_adt`."""
        res = []
        for f in self.fns.values():
            if f.get("item_name") != method:
                continue
            if f.get("impl_self_adt") != self_adt:
                continue
            if (f.get("impl_trait") or None) != trait_id:
                continue
            res.append(f)
        if len(res) != 1:
            raise AnchorError(f"anchor impl method {self_adt}::{method} (trait {trait_id}): {len(res)} candidates")
        return res[0]

    def methods_of(self, self_adt, trait_id="*"):
        res = []
        for f in self.fns.values():
            if f.get("impl_self_adt") == self_adt and (trait_id == "*" or (f.get("impl_trait") or None) == trait_id):
                res.append(f)
        return res

    def trait_impl_fns(self, trait_id, method):
        """All workspace functions implementing trait method (by name) for any type."""
        res = []
        for f in self.fns.values():
            if f.get("impl_trait") == trait_id and f.get("item_name") == method:
                res.append(f)
        return res

    def closures_of(self, fn):
        if self._closures_of is None:
            m = defaultdict(list)
            for f in self.fns.values():
                if f.kind == "closure":
                    m[f.get("parent_fn")].append(f)
            self._closures_of = m
        return self._closures_of.get(fn.id, [])

    def adt(self, adt_id):
        a = self.adts.get(adt_id)
        if a is None:
            raise AnchorError(f"anchor ADT {adt_id!r} not found")
        return a

    def adt_fields(self, adt_id, variant=0):
        return [f["name"] for f in self.adt(adt_id)["variants"][variant]["fields"]]

    def inl(self, fn, depth=3, keep=()):
        """view of fn with the private helpers it calls spliced in (memoised); see wfa.inline. `keep`: ids of helpers that stay calls
        (the anchors a rule looks for, e.g. the coin's `next`)"""
        if not hasattr(self, "_inl"):
            self._inl = {}
        if fn.origin is not None:
            return fn
        key = (fn.id, depth, tuple(sorted(keep)))
        if key not in self._inl:
            from .inline import inline, is_private_helper
            kp = set(keep)
            self._inl[key] = inline(self, fn, depth, eligible=lambda p, c, h: h.id not in kp and is_private_helper(p, c, h))
        return self._inl[key]

    def const(self, nname):
        c = self.consts_by_name.get(nname, [])
        if len(c) != 1:
            raise AnchorError(f"anchor const {nname!r}: {len(c)} candidates")
        return c[0]

    # ---- call resolution -----------------------------------------------------------------------
    def resolve_call(self, t):
        """Return (list of Fn, precise) for a call terminator. precise=False when resolved by class
        hierarchy (trait method on a type parameter)."""
        f = t.get("fn")
        if not f:
            return [], False
        if "resolved" in f:
            fn = self.fns.get(f["resolved"])
            if fn is None and f.get("trait") in ("core::convert::TryInto", "core::convert::Into") and len(f.get("targs", [])) == 2:
                # blanket impls in core forward to the workspace TryFrom/From impl: T.try_into() -> U::try_from(T)
                src, dst = f["targs"]
                want = "TryFrom" if f["trait"].endswith("TryInto") else "From"
                res = []
                for im in self.impls:
                    if (im.get("trait") or "") == "core::convert::" + want and strip_lifetimes(im["self_ty"]) == strip_lifetimes(dst) and \
                            strip_lifetimes(im["trait_ref"]).endswith(f"{want}<{strip_lifetimes(src)}>>"):
                        for it in im["items"]:
                            if it["kind"] == "fn" and it["id"] in self.fns:
                                res.append(self.fns[it["id"]])
                return res, True
            return ([fn] if fn else []), True
        d = f["def"]
        if "trait" not in f:
            fn = self.fns.get(d)
            return ([fn] if fn else []), True
        # unresolved trait method: default body + all workspace impls
        res = []
        if d in self.fns:
            res.append(self.fns[d])
        for im, it in self.impls_of_item.get(d, []):
            fn = self.fns.get(it["id"])
            if fn:
                res.append(fn)
        return res, bool(f.get("resolved_default"))
