"""Obligation bookkeeping, known findings, evidence files and the VIOLATION protocol."""
import json
import os
import sys
import time

VERIF = os.path.dirname(os.path.dirname(os.path.abspath(__file__)))
KNOWN = os.path.join(VERIF, "known_findings.json")
EVIDENCE_DIR = os.environ.get("WF_EVIDENCE_DIR") or os.path.join(VERIF, "evidence")


class Broken(Exception):
    """The machinery could not decide (missing anchor, floor not met, control not flagged)."""


_CFG_SUFFIX = ("@release", "@nostd", "@concurrent", "@default")


def _base_key(k):
    """obligation key without the build-configuration suffix the thorough tier appends (keys themselves may contain '@')"""
    for sfx in _CFG_SUFFIX:
        if k.endswith(sfx):
            return k[:-len(sfx)]
    return k


class Checker:
    def __init__(self, prop, tier="quick", seed=0):
        self.prop = prop
        self.tier = tier
        self.seed = seed
        self.t0 = time.time()
        self.obligations = []  # dicts: key, ok, rule, what, loc, detail
        self.analysed = {"functions": set(), "configs": set(), "call_sites": 0, "notes": []}
        self.rules = {}
        self.controls = []
        self.explanation = ""
        self.trusted = [
            "rustc nightly MIR construction and trait resolution (facts are read from the compiler, not re-derived from text)",
            "the wf-facts driver (faithful JSON dump of MIR, constants, ADTs and impl tables)",
            "the wfa analyser (CFG reachability, may-dependence; Python stdlib only)",
        ]
        self.assumptions = []
        self.stats = {}
        self.cfg = None   # build configuration of /repo being analysed when it is not `default` (thorough tier)

    # ---- recording -----------------------------------------------------------------------------
    def rule(self, rid, text):
        self.rules[rid] = text

    def saw(self, *fns):
        for f in fns:
            if f is not None:
                self.analysed["functions"].add(getattr(f, "nname", str(f)))

    def note(self, s):
        self.analysed["notes"].append(s)

    def ob(self, rule, instance, ok, what, loc=None, detail=None):
        """Record one obligation. key = <prop>/<rule>/<instance> (no line numbers)."""
        key = f"{self.prop}/{rule}/{instance}" + (f"@{self.cfg}" if getattr(self, "cfg", None) else "")
        self.obligations.append({"key": key, "ok": bool(ok), "rule": rule, "what": what,
                                 "loc": loc, "detail": detail})
        return bool(ok)

    def control(self, name, flagged):
        """Positive control: a miniature violation that the engine must flag on every run."""
        self.controls.append({"name": name, "flagged": bool(flagged)})
        if not flagged:
            raise Broken(f"positive control {name!r} was not flagged: the rule engine is not working")

    def floor(self, name, n, floor):
        """`floor` is the number of instances counted on the pinned tree. The check is BROKEN when fewer than three quarters of them
        are found: a rule that matches (almost) nothing must not pass vacuously, while a refactoring that merges two sites into one
        (each still checked by its own obligation) must not turn a correct tree into a failing check."""
        self.stats[name] = n
        need = max(1, (3 * floor + 3) // 4)
        if n < need:
            raise Broken(f"instance count for {name}: {n} < {need} (three quarters of the {floor} counted on the pinned tree; "
                         f"a rule matching too few sites must not pass vacuously)")

    # ---- finishing -----------------------------------------------------------------------------
    def finish(self):
        known = []
        if os.path.exists(KNOWN):
            with open(KNOWN) as f:
                known = json.load(f)
        open_keys = {k["key"]: k for k in known if k.get("status") == "open" and k.get("property") == self.prop}
        viol = [o for o in self.obligations if not o["ok"]]
        # a listed finding is one construct of the source; the thorough tier meets it again in every further build configuration
        # (`...@release`, `...@nostd`): it is matched by its key without the configuration suffix
        base = _base_key
        unlisted = [o for o in viol if base(o["key"]) not in open_keys]
        listed = [o for o in viol if base(o["key"]) in open_keys]
        # dedupe by key
        seen = set()
        out_lines = []
        for o in listed:
            if base(o["key"]) in seen:
                continue
            seen.add(base(o["key"]))
            out_lines.append(f"KNOWN-FINDING: property={self.prop} {base(o['key'])} {open_keys[base(o['key'])].get('what', o['what'])}")
        vdir = os.path.join(EVIDENCE_DIR, "violations")
        n = 0
        seen = set()
        for o in unlisted:
            if o["key"] in seen:
                continue
            seen.add(o["key"])
            os.makedirs(vdir, exist_ok=True)
            path = os.path.join(vdir, f"{self.prop}-{n}.json")
            with open(path, "w") as f:
                json.dump({"property": self.prop, "key": o["key"], "rule": o["rule"],
                           "rule_text": self.rules.get(o["rule"], ""), "what": o["what"],
                           "loc": o["loc"], "detail": o["detail"], "tier": self.tier}, f, indent=1)
            print(f"--- {o['key']}")
            print(f"    rule {o['rule']}: {self.rules.get(o['rule'], '')}")
            print(f"    {o['what']}")
            if o["loc"]:
                print(f"    at {o['loc']}")
            if o["detail"]:
                print(f"    {o['detail']}")
            out_lines.append(f"VIOLATION property={self.prop} replay={path}")
            n += 1
        for l in out_lines:
            print(l)
        self._write_evidence(len(seen), listed)
        total = len(self.obligations)
        good = total - len(viol)
        print(f"[{self.prop}] tier={self.tier} obligations={total} discharged={good} "
              f"known={len(set(_base_key(o['key']) for o in listed))} violations={n} "
              f"functions={len(self.analysed['functions'])} wall={time.time() - self.t0:.1f}s")
        return 1 if n else 0

    def _write_evidence(self, nviol, listed):
        os.makedirs(EVIDENCE_DIR, exist_ok=True)
        total = len(self.obligations)
        good = sum(1 for o in self.obligations if o["ok"])
        # samples: a deterministic, seed-rotated selection of obligations
        obs = self.obligations
        samples = []
        if obs:
            step = max(1, len(obs) // 12)
            start = self.seed % step if step > 1 else 0
            for o in obs[start::step][:14]:
                samples.append({"key": o["key"], "ok": o["ok"], "what": o["what"], "loc": o["loc"]})
        ev = {
            "property_id": self.prop,
            "tier": self.tier,
            "seed": self.seed,
            "level": "other",
            "coverage": {
                "explanation": self.explanation,
                "obligations": total,
                "discharged": good,
                "evaluations": total,
                "distinct_nontrivial": len(set(o["key"] for o in obs)),
                "rule": "; ".join(f"{k}: {v}" for k, v in self.rules.items()),
                "samples": samples,
                "checker_cmd": f"./bin/wfcheck {self.prop} --tier {self.tier}",
                "trusted_base": self.trusted,
                "exhaustive": True,
                "functions_analysed": sorted(self.analysed["functions"]),
                "configs": sorted(self.analysed["configs"]),
                "instance_counts": self.stats,
                "positive_controls": self.controls,
                "known_findings_matched": sorted(set(_base_key(o["key"]) for o in listed)),
                "notes": self.analysed["notes"],
            },
            "assumptions": self.assumptions,
            "wall_s": round(time.time() - self.t0, 2),
            "violations": nviol,
        }
        with open(os.path.join(EVIDENCE_DIR, f"{self.prop}.json"), "w") as f:
            json.dump(ev, f, indent=1)
