// Regression test: the verifier must reject (with an `Err`, never with a panic) a proof whose
// out-of-domain frame of the Lagrange kernel column does not contain exactly
// `log2(trace_length) + 1` evaluations.
//
// Copy to `winterfell/tests/lagrange_ood_frame_len.rs` and run
//
//     cargo test --offline -p winterfell --test lagrange_ood_frame_len
//
// The AIR / prover below are the ones of `winterfell/src/tests.rs` (a one-column main trace that
// counts up, plus an auxiliary segment whose last column is a Lagrange kernel column).

use std::panic::{catch_unwind, AssertUnwindSafe};

use air::{
    proof::{OodFrame, TraceOodFrame},
    LagrangeKernelEvaluationFrame, LagrangeKernelRandElements, LagrangeKernelTransitionConstraints,
};
use winterfell::{
    crypto::{hashers::Blake3_256, DefaultRandomCoin, ElementHasher, RandomCoin},
    math::{fields::f64::BaseElement, ExtensionOf, FieldElement, ToElements},
    matrix::ColMatrix,
    verify, AcceptableOptions, Air, AirContext, Assertion, AuxRandElements,
    ConstraintCompositionCoefficients, DefaultConstraintEvaluator, DefaultTraceLde,
    EvaluationFrame, FieldExtension, GkrVerifier, Proof, ProofOptions, Prover, ProverGkrProof,
    StarkDomain, Trace, TraceInfo, TracePolyTable, TransitionConstraintDegree, VerifierError,
};

type Blake3 = Blake3_256<BaseElement>;
type Coin = DefaultRandomCoin<Blake3>;

const AUX_TRACE_WIDTH: usize = 2;
const TRACE_LEN: usize = 1 << 10;
const LOG_TRACE_LEN: usize = 10;

// HELPERS
// ================================================================================================

fn honest_proof() -> Proof {
    let trace = LagrangeComplexTrace::new(TRACE_LEN, AUX_TRACE_WIDTH);
    LagrangeComplexProver::new(AUX_TRACE_WIDTH).prove(trace).unwrap()
}

fn air_of(proof: &Proof) -> LagrangeKernelComplexAir {
    LagrangeKernelComplexAir::new(proof.trace_info().clone(), (), proof.options().clone())
}

/// The parts of the out-of-domain frame of a proof: (current row, next row, Lagrange kernel frame,
/// constraint evaluations).
type OodParts = (Vec<BaseElement>, Vec<BaseElement>, Vec<BaseElement>, Vec<BaseElement>);

/// Takes the OOD frame of `proof` apart, using the public API only.
fn ood_parts(proof: &Proof) -> OodParts {
    let air = air_of(proof);
    let (trace_frame, evaluations) = proof
        .ood_frame
        .clone()
        .parse::<BaseElement>(
            air.trace_info().main_trace_width(),
            air.trace_info().aux_segment_width(),
            air.context().num_constraint_composition_columns(),
        )
        .unwrap();
    let lagrange = trace_frame.lagrange_kernel_frame().expect("no Lagrange frame").inner().to_vec();
    (
        trace_frame.current_row().to_vec(),
        trace_frame.next_row().to_vec(),
        lagrange,
        evaluations,
    )
}

/// Puts `parts` into `proof` as its OOD frame, and sends the result through the wire format
/// (`to_bytes` / `from_bytes`), so that what is verified is what a hostile prover could send.
fn with_ood_parts(mut proof: Proof, parts: OodParts) -> Proof {
    let (current, next, lagrange, evaluations) = parts;
    let main_width = proof.trace_info().main_trace_width();
    let trace_frame = TraceOodFrame::new(
        current,
        next,
        main_width,
        Some(LagrangeKernelEvaluationFrame::new(lagrange)),
    );
    let mut ood_frame = OodFrame::default();
    ood_frame.set_trace_states::<BaseElement, Blake3>(&trace_frame);
    ood_frame.set_constraint_evaluations(&evaluations);
    proof.ood_frame = ood_frame;

    Proof::from_bytes(&proof.to_bytes()).expect("the edited proof must be well-formed on the wire")
}

/// Returns `proof` with the Lagrange kernel OOD frame cut down or padded to `new_len` evaluations;
/// nothing else is changed.
fn with_lagrange_frame_len(proof: Proof, new_len: usize) -> Proof {
    let (current, next, mut lagrange, evaluations) = ood_parts(&proof);
    assert_eq!(lagrange.len(), LOG_TRACE_LEN + 1, "honest frame has log2(n) + 1 evaluations");
    let last = *lagrange.last().unwrap();
    lagrange.resize(new_len, last);
    with_ood_parts(proof, (current, next, lagrange, evaluations))
}

/// Runs the verifier; `Err(message)` means that the verifier panicked.
fn verify_caught(proof: Proof) -> Result<Result<(), VerifierError>, String> {
    catch_unwind(AssertUnwindSafe(|| {
        verify::<LagrangeKernelComplexAir, Blake3, Coin>(
            proof,
            (),
            &AcceptableOptions::MinConjecturedSecurity(0),
        )
    }))
    .map_err(|payload| {
        payload
            .downcast_ref::<String>()
            .cloned()
            .or_else(|| payload.downcast_ref::<&str>().map(|s| s.to_string()))
            .unwrap_or_else(|| "<non-string panic payload>".to_string())
    })
}

/// Asserts the correct behaviour for a hostile proof: an `Err`, and no panic.
fn assert_rejected_without_panic(proof: Proof, what: &str) {
    match verify_caught(proof) {
        Ok(Err(err)) => println!("{what}: rejected with `{err}`"),
        Ok(Ok(())) => panic!("{what}: the hostile proof was ACCEPTED"),
        Err(msg) => panic!("{what}: the verifier PANICKED instead of returning an Err: {msg}"),
    }
}

// TESTS
// ================================================================================================

/// Control: the unedited proof verifies, also after a trip through the wire format and after a
/// trip through `ood_parts` / `with_ood_parts` that changes nothing.
#[test]
fn control_honest_proof_verifies() {
    let proof = honest_proof();
    assert_eq!(verify_caught(proof.clone()), Ok(Ok(())));

    let parts = ood_parts(&proof);
    assert_eq!(parts.2.len(), LOG_TRACE_LEN + 1);
    let rebuilt = with_ood_parts(proof.clone(), parts);
    assert_eq!(rebuilt.to_bytes(), proof.to_bytes());
    assert_eq!(verify_caught(rebuilt), Ok(Ok(())));

    let same_len = with_lagrange_frame_len(proof.clone(), LOG_TRACE_LEN + 1);
    assert_eq!(same_len.to_bytes(), proof.to_bytes());
}

#[test]
fn lagrange_frame_one_evaluation_too_long() {
    let proof = with_lagrange_frame_len(honest_proof(), LOG_TRACE_LEN + 2);
    assert_rejected_without_panic(proof, "frame of log2(n) + 2 evaluations");
}

#[test]
fn lagrange_frame_much_too_long() {
    let proof = with_lagrange_frame_len(honest_proof(), 200);
    assert_rejected_without_panic(proof, "frame of 200 evaluations");
}

#[test]
fn lagrange_frame_one_evaluation_too_short() {
    let proof = with_lagrange_frame_len(honest_proof(), LOG_TRACE_LEN);
    assert_rejected_without_panic(proof, "frame of log2(n) evaluations");
}

#[test]
fn lagrange_frame_of_two_evaluations() {
    let proof = with_lagrange_frame_len(honest_proof(), 2);
    assert_rejected_without_panic(proof, "frame of 2 evaluations");
}

#[test]
fn lagrange_frame_of_one_evaluation() {
    let proof = with_lagrange_frame_len(honest_proof(), 1);
    assert_rejected_without_panic(proof, "frame of 1 evaluation");
}

/// The frame is left out altogether, and the Lagrange kernel column is sent as one more ordinary
/// auxiliary column instead (its evaluations at z and z * g).
#[test]
fn lagrange_frame_absent() {
    let proof = honest_proof();
    let (mut current, mut next, lagrange, evaluations) = ood_parts(&proof);
    current.push(lagrange[0]);
    next.push(lagrange[1]);

    let trace_frame = TraceOodFrame::new(current, next, 1, None);
    let mut ood_frame = OodFrame::default();
    ood_frame.set_trace_states::<BaseElement, Blake3>(&trace_frame);
    ood_frame.set_constraint_evaluations(&evaluations);
    let mut edited = proof;
    edited.ood_frame = ood_frame;
    let edited = Proof::from_bytes(&edited.to_bytes()).unwrap();

    assert_rejected_without_panic(edited, "no Lagrange kernel frame");
}

/// The converse: the verifier's AIR has an auxiliary segment but NO Lagrange kernel column, and the
/// proof carries a Lagrange kernel frame (here: the honest proof of the AIR that has one, which is
/// byte for byte a proof a hostile prover could send).
#[test]
fn lagrange_frame_for_an_air_without_lagrange_kernel_column() {
    let proof = honest_proof();
    let outcome = catch_unwind(AssertUnwindSafe(|| {
        verify::<NoLagrangeKernelAir, Blake3, Coin>(
            proof,
            (),
            &AcceptableOptions::MinConjecturedSecurity(0),
        )
    }));
    match outcome {
        Ok(Err(err)) => println!("unexpected Lagrange kernel frame: rejected with `{err}`"),
        Ok(Ok(())) => panic!("unexpected Lagrange kernel frame: the proof was ACCEPTED"),
        Err(_) => panic!("unexpected Lagrange kernel frame: the verifier PANICKED"),
    }
}

/// A prover that adapts the rest of the proof to its one-evaluation Lagrange kernel frame.
///
/// Cutting the frame down removes the Lagrange kernel transition constraints from the value the
/// verifier computes in its OOD consistency check, so the plain truncation above stops there with
/// `InconsistentOodConstraintEvaluations`. The out-of-domain point `z` and all the coefficients
/// are drawn BEFORE the OOD frame is absorbed into the public coin, so the prover can compute that
/// removed term and correct the (single) OOD constraint evaluation it sends; the consistency check
/// then passes. Grinding is off, so it can also search for a proof-of-work nonce that makes the
/// verifier draw the query position the proof holds a Merkle path for. The verifier then reaches
/// the DEEP composition of the trace columns with the one-evaluation frame.
#[test]
fn lagrange_frame_of_one_evaluation_adaptive_prover() {
    let proof = honest_proof();
    let air = air_of(&proof);
    assert_eq!(air.context().num_constraint_composition_columns(), 1);
    assert_eq!(proof.options().grinding_factor(), 0);
    assert_eq!(proof.num_unique_queries, 1);

    // --- replay the verifier's public coin up to the out-of-domain point ------------------------
    let mut seed = proof.context.to_elements();
    seed.append(&mut ToElements::<BaseElement>::to_elements(&()));
    let mut coin = Coin::new(&seed);
    let num_fri_layers = air.options().to_fri_options().num_fri_layers(air.lde_domain_size());
    let (trace_roots, constraint_root, _) =
        proof.commitments.clone().parse::<Blake3>(2, num_fri_layers).unwrap();
    coin.reseed(trace_roots[0]);
    let lagrange_rand_elements: LagrangeKernelRandElements<BaseElement> = DummyGkrVerifier
        .verify::<BaseElement, Blake3>(LOG_TRACE_LEN, &mut coin)
        .unwrap();
    let _aux_rand_elements: Vec<BaseElement> = air.get_aux_rand_elements(&mut coin).unwrap();
    coin.reseed(trace_roots[1]);
    let coefficients: ConstraintCompositionCoefficients<BaseElement> =
        air.get_constraint_composition_coefficients(&mut coin).unwrap();
    coin.reseed(constraint_root);
    let z: BaseElement = coin.draw().unwrap();

    // --- the term that disappears from the verifier's side when the frame has one evaluation ----
    let (current, next, lagrange, evaluations) = ood_parts(&proof);
    let transition =
        LagrangeKernelTransitionConstraints::new(coefficients.lagrange.unwrap().transition);
    let removed = transition.evaluate_and_combine::<BaseElement>(
        &LagrangeKernelEvaluationFrame::new(lagrange.clone()),
        lagrange_rand_elements.as_ref(),
        z,
    );
    let short_frame = vec![lagrange[0]];
    let corrected = vec![evaluations[0] - removed];
    let adapted = with_ood_parts(proof.clone(), (current, next, short_frame, corrected));

    // --- search for the nonce that reproduces the query position --------------------------------
    let mut outcomes = std::collections::BTreeMap::<String, usize>::new();
    for nonce in 0..40_000u64 {
        let mut candidate = adapted.clone();
        candidate.pow_nonce = nonce;
        match verify_caught(candidate) {
            Ok(Err(VerifierError::TraceQueryDoesNotMatchCommitment)) => {
                *outcomes.entry("TraceQueryDoesNotMatchCommitment".into()).or_default() += 1;
            },
            Ok(Err(err)) => {
                // past the Merkle checks and past the DEEP composition: rejected properly
                println!("adaptive prover, nonce {nonce}: rejected with `{err}` ({outcomes:?})");
                return;
            },
            Ok(Ok(())) => panic!("adaptive prover, nonce {nonce}: the hostile proof was ACCEPTED"),
            Err(msg) => panic!(
                "adaptive prover, nonce {nonce}: the verifier PANICKED instead of returning an \
                 Err: {msg}"
            ),
        }
    }
    // with the defect repaired every candidate is turned down before any coin is drawn
    println!("adaptive prover: all candidates rejected: {outcomes:?}");
}

// TRACE
// ================================================================================================

#[derive(Clone, Debug)]
struct LagrangeComplexTrace {
    // dummy main trace
    main_trace: ColMatrix<BaseElement>,
    info: TraceInfo,
}

impl LagrangeComplexTrace {
    fn new(trace_len: usize, aux_segment_width: usize) -> Self {
        let main_trace_col: Vec<BaseElement> =
            (0..trace_len).map(|idx| BaseElement::from(idx as u32)).collect();

        Self {
            main_trace: ColMatrix::new(vec![main_trace_col]),
            info: TraceInfo::new_multi_segment(1, aux_segment_width, 0, trace_len, vec![]),
        }
    }

    fn len(&self) -> usize {
        self.main_trace.num_rows()
    }
}

impl Trace for LagrangeComplexTrace {
    type BaseField = BaseElement;

    fn info(&self) -> &TraceInfo {
        &self.info
    }

    fn main_segment(&self) -> &ColMatrix<Self::BaseField> {
        &self.main_trace
    }

    fn read_main_frame(&self, row_idx: usize, frame: &mut EvaluationFrame<Self::BaseField>) {
        let next_row_idx = row_idx + 1;
        assert_ne!(next_row_idx, self.len());

        self.main_trace.read_row_into(row_idx, frame.current_mut());
        self.main_trace.read_row_into(next_row_idx, frame.next_mut());
    }
}

// AIR
// ================================================================================================

#[derive(Debug, Clone, Default)]
struct DummyGkrVerifier;

impl GkrVerifier for DummyGkrVerifier {
    // `GkrProof` is log(trace_len) for this dummy example, so that the verifier knows how many aux
    // random variables to generate
    type GkrProof = usize;
    type Error = VerifierError;

    fn verify<E, Hasher>(
        &self,
        gkr_proof: usize,
        public_coin: &mut impl RandomCoin<BaseField = E::BaseField, Hasher = Hasher>,
    ) -> Result<LagrangeKernelRandElements<E>, Self::Error>
    where
        E: FieldElement,
        Hasher: ElementHasher<BaseField = E::BaseField>,
    {
        let log_trace_len = gkr_proof;
        let mut rand_elements = Vec::with_capacity(log_trace_len);
        for _ in 0..log_trace_len {
            rand_elements.push(public_coin.draw().unwrap());
        }

        Ok(LagrangeKernelRandElements::new(rand_elements))
    }
}

struct LagrangeKernelComplexAir {
    context: AirContext<BaseElement>,
}

impl Air for LagrangeKernelComplexAir {
    type BaseField = BaseElement;
    type GkrProof = usize;
    type GkrVerifier = DummyGkrVerifier;

    type PublicInputs = ();

    fn new(trace_info: TraceInfo, _pub_inputs: Self::PublicInputs, options: ProofOptions) -> Self {
        Self {
            context: AirContext::new_multi_segment(
                trace_info,
                vec![TransitionConstraintDegree::new(1)],
                vec![TransitionConstraintDegree::new(1)],
                1,
                1,
                Some(1),
                options,
            ),
        }
    }

    fn context(&self) -> &AirContext<Self::BaseField> {
        &self.context
    }

    fn evaluate_transition<E: FieldElement<BaseField = Self::BaseField>>(
        &self,
        frame: &EvaluationFrame<E>,
        _periodic_values: &[E],
        result: &mut [E],
    ) {
        let current = frame.current()[0];
        let next = frame.next()[0];

        // increments by 1
        result[0] = next - current - E::ONE;
    }

    fn get_assertions(&self) -> Vec<Assertion<Self::BaseField>> {
        vec![Assertion::single(0, 0, BaseElement::ZERO)]
    }

    fn evaluate_aux_transition<F, E>(
        &self,
        _main_frame: &EvaluationFrame<F>,
        _aux_frame: &EvaluationFrame<E>,
        _periodic_values: &[F],
        _aux_rand_elements: &[E],
        _result: &mut [E],
    ) where
        F: FieldElement<BaseField = Self::BaseField>,
        E: FieldElement<BaseField = Self::BaseField> + ExtensionOf<F>,
    {
        // do nothing
    }

    fn get_aux_assertions<E: FieldElement<BaseField = Self::BaseField>>(
        &self,
        _aux_rand_elements: &[E],
    ) -> Vec<Assertion<E>> {
        vec![Assertion::single(0, 0, E::ZERO)]
    }

    fn get_auxiliary_proof_verifier<E: FieldElement<BaseField = Self::BaseField>>(
        &self,
    ) -> Self::GkrVerifier {
        DummyGkrVerifier
    }
}

/// The same AIR, except that no column of the auxiliary segment is a Lagrange kernel column.
struct NoLagrangeKernelAir {
    context: AirContext<BaseElement>,
}

impl Air for NoLagrangeKernelAir {
    type BaseField = BaseElement;
    type GkrProof = ();
    type GkrVerifier = ();

    type PublicInputs = ();

    fn new(trace_info: TraceInfo, _pub_inputs: Self::PublicInputs, options: ProofOptions) -> Self {
        Self {
            context: AirContext::new_multi_segment(
                trace_info,
                vec![TransitionConstraintDegree::new(1)],
                vec![TransitionConstraintDegree::new(1)],
                1,
                1,
                None,
                options,
            ),
        }
    }

    fn context(&self) -> &AirContext<Self::BaseField> {
        &self.context
    }

    fn evaluate_transition<E: FieldElement<BaseField = Self::BaseField>>(
        &self,
        frame: &EvaluationFrame<E>,
        _periodic_values: &[E],
        result: &mut [E],
    ) {
        result[0] = frame.next()[0] - frame.current()[0] - E::ONE;
    }

    fn get_assertions(&self) -> Vec<Assertion<Self::BaseField>> {
        vec![Assertion::single(0, 0, BaseElement::ZERO)]
    }

    fn evaluate_aux_transition<F, E>(
        &self,
        _main_frame: &EvaluationFrame<F>,
        _aux_frame: &EvaluationFrame<E>,
        _periodic_values: &[F],
        _aux_rand_elements: &[E],
        _result: &mut [E],
    ) where
        F: FieldElement<BaseField = Self::BaseField>,
        E: FieldElement<BaseField = Self::BaseField> + ExtensionOf<F>,
    {
        // do nothing
    }

    fn get_aux_assertions<E: FieldElement<BaseField = Self::BaseField>>(
        &self,
        _aux_rand_elements: &[E],
    ) -> Vec<Assertion<E>> {
        vec![Assertion::single(0, 0, E::ZERO)]
    }
}

// PROVER
// ================================================================================================

struct LagrangeComplexProver {
    aux_trace_width: usize,
    options: ProofOptions,
}

impl LagrangeComplexProver {
    fn new(aux_trace_width: usize) -> Self {
        Self {
            aux_trace_width,
            options: ProofOptions::new(1, 2, 0, FieldExtension::None, 2, 1),
        }
    }
}

impl Prover for LagrangeComplexProver {
    type BaseField = BaseElement;
    type Air = LagrangeKernelComplexAir;
    type Trace = LagrangeComplexTrace;
    type HashFn = Blake3;
    type RandomCoin = Coin;
    type TraceLde<E: FieldElement<BaseField = BaseElement>> = DefaultTraceLde<E, Self::HashFn>;
    type ConstraintEvaluator<'a, E: FieldElement<BaseField = BaseElement>> =
        DefaultConstraintEvaluator<'a, LagrangeKernelComplexAir, E>;

    fn get_pub_inputs(&self, _trace: &Self::Trace) -> <<Self as Prover>::Air as Air>::PublicInputs {
    }

    fn options(&self) -> &ProofOptions {
        &self.options
    }

    fn new_trace_lde<E>(
        &self,
        trace_info: &TraceInfo,
        main_trace: &ColMatrix<Self::BaseField>,
        domain: &StarkDomain<Self::BaseField>,
    ) -> (Self::TraceLde<E>, TracePolyTable<E>)
    where
        E: FieldElement<BaseField = Self::BaseField>,
    {
        DefaultTraceLde::new(trace_info, main_trace, domain)
    }

    fn new_evaluator<'a, E>(
        &self,
        air: &'a Self::Air,
        aux_rand_elements: Option<AuxRandElements<E>>,
        composition_coefficients: ConstraintCompositionCoefficients<E>,
    ) -> Self::ConstraintEvaluator<'a, E>
    where
        E: FieldElement<BaseField = Self::BaseField>,
    {
        DefaultConstraintEvaluator::new(air, aux_rand_elements, composition_coefficients)
    }

    fn generate_gkr_proof<E>(
        &self,
        main_trace: &Self::Trace,
        public_coin: &mut Self::RandomCoin,
    ) -> (ProverGkrProof<Self>, LagrangeKernelRandElements<E>)
    where
        E: FieldElement<BaseField = Self::BaseField>,
    {
        let main_trace = main_trace.main_segment();
        let log_trace_len = main_trace.num_rows().ilog2() as usize;
        let mut rand_elements = Vec::with_capacity(log_trace_len);
        for _ in 0..log_trace_len {
            rand_elements.push(public_coin.draw().unwrap());
        }

        (log_trace_len, LagrangeKernelRandElements::new(rand_elements))
    }

    fn build_aux_trace<E>(
        &self,
        main_trace: &Self::Trace,
        aux_rand_elements: &AuxRandElements<E>,
    ) -> ColMatrix<E>
    where
        E: FieldElement<BaseField = Self::BaseField>,
    {
        let main_trace = main_trace.main_segment();
        let lagrange_kernel_rand_elements = aux_rand_elements
            .lagrange()
            .expect("expected lagrange random elements to be present.");

        let mut columns = Vec::new();

        // first all other auxiliary columns
        let rand_summed = lagrange_kernel_rand_elements.iter().fold(E::ZERO, |acc, &r| acc + r);
        for _ in 1..self.aux_trace_width {
            let column = main_trace
                .get_column(0)
                .iter()
                .map(|row_val| rand_summed.mul_base(*row_val))
                .collect();

            columns.push(column);
        }

        // then the Lagrange kernel column
        let r = &lagrange_kernel_rand_elements;
        let mut lagrange_col = Vec::with_capacity(main_trace.num_rows());
        for row_idx in 0..main_trace.num_rows() {
            let mut row_value = E::ONE;
            for (bit_idx, &r_i) in r.iter().enumerate() {
                if row_idx & (1 << bit_idx) == 0 {
                    row_value *= E::ONE - r_i;
                } else {
                    row_value *= r_i;
                }
            }
            lagrange_col.push(row_value);
        }
        columns.push(lagrange_col);

        ColMatrix::new(columns)
    }
}
