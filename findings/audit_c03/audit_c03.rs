// AUDIT: proof non-malleability tests for the winterfell verifier (copy to winterfell/tests/).
//
// Every test asserts the CORRECT behaviour (an edited proof must be rejected with an `Err`, without
// panicking), so a test FAILS exactly when the violation exists.

use std::{
    panic::{catch_unwind, AssertUnwindSafe},
    vec,
    vec::Vec,
};

use air::LagrangeKernelRandElements;
use winterfell::{
    crypto::{hashers::Blake3_256, DefaultRandomCoin, RandomCoin},
    math::{fields::f64::BaseElement, ExtensionOf, FieldElement},
    matrix::ColMatrix,
    *,
};

const AUX_TRACE_WIDTH: usize = 2;
/// Trace metadata of the honest proof: 3 bytes, i.e. not a multiple of `ELEMENT_BYTES - 1 = 7`.
const META: [u8; 3] = [1, 2, 3];

type Blake3 = Blake3_256<BaseElement>;

fn honest_proof() -> Proof {
    let trace = LagrangeComplexTrace::new(2_usize.pow(6), AUX_TRACE_WIDTH);
    let prover = LagrangeComplexProver::new(AUX_TRACE_WIDTH);
    prover.prove(trace).unwrap()
}

/// Runs the public verifier entry point; Ok(result) if it returned, Err(()) if it panicked.
fn run_verify(proof: Proof) -> Result<Result<(), VerifierError>, ()> {
    catch_unwind(AssertUnwindSafe(|| {
        verify::<LagrangeKernelComplexAir, Blake3, DefaultRandomCoin<Blake3>>(
            proof,
            (),
            &AcceptableOptions::MinConjecturedSecurity(0),
        )
    }))
    .map_err(|_| ())
}

// CONTROLS
// ================================================================================================

#[test]
fn control_honest_proof_verifies() {
    let proof = honest_proof();
    assert_eq!(proof.trace_info().meta(), &META);
    let bytes = proof.to_bytes();
    let parsed = Proof::from_bytes(&bytes).unwrap();
    assert_eq!(parsed, proof);
    assert_eq!(run_verify(parsed), Ok(Ok(())).map_err(|_: ()| ()).map(|r: Result<(), VerifierError>| r));
}

#[test]
fn control_flipped_meta_byte_is_rejected() {
    // changing a metadata byte to a non-zero value changes the transcript seed => rejected
    let mut bytes = honest_proof().to_bytes();
    assert_eq!(&bytes[6..9], &META);
    bytes[8] ^= 0x40;
    let proof = Proof::from_bytes(&bytes).unwrap();
    let res = run_verify(proof);
    assert!(matches!(res, Ok(Err(_))), "got {res:?}");
}

#[test]
fn control_changed_gkr_proof_value_is_rejected() {
    let mut proof = honest_proof();
    let gkr = proof.gkr_proof.as_mut().unwrap();
    let last = gkr.len() - 1;
    gkr[last] ^= 0x10;
    let res = run_verify(proof);
    assert!(matches!(res, Ok(Err(_))), "got {res:?}");
}

// FINDING 1: trailing zero bytes of the trace metadata are not bound to the transcript
// ================================================================================================

#[test]
fn f1_meta_with_appended_zero_byte_must_be_rejected() {
    let honest = honest_proof();
    let mut bytes = honest.to_bytes();
    // TraceInfo layout: main width, aux width, aux rands, log2(len), meta len (u16 LE), meta bytes
    assert_eq!(u16::from_le_bytes([bytes[4], bytes[5]]) as usize, META.len());
    assert_eq!(&bytes[6..9], &META);
    bytes[4] += 1; // meta length 3 -> 4
    bytes.insert(9, 0); // meta [1, 2, 3] -> [1, 2, 3, 0]
    let proof = Proof::from_bytes(&bytes).expect("edited proof parses");
    assert_eq!(proof.trace_info().meta(), &[1, 2, 3, 0]);
    assert_ne!(proof, honest, "decoded content differs");

    let res = run_verify(proof);
    assert!(
        matches!(res, Ok(Err(_))),
        "a proof whose trace metadata differs from the accepted one was not rejected: {res:?}"
    );
}

#[test]
fn f1b_meta_with_four_appended_zero_bytes_must_be_rejected() {
    let honest = honest_proof();
    let mut bytes = honest.to_bytes();
    bytes[4] += 4;
    for _ in 0..4 {
        bytes.insert(9, 0);
    }
    let proof = Proof::from_bytes(&bytes).expect("edited proof parses");
    assert_eq!(proof.trace_info().meta(), &[1, 2, 3, 0, 0, 0, 0]);
    let res = run_verify(proof);
    assert!(matches!(res, Ok(Err(_))), "edited metadata was not rejected: {res:?}");
}

// FINDING 2: trailing bytes inside the length-prefixed GKR proof blob are ignored
// ================================================================================================

#[test]
fn f2_gkr_proof_with_trailing_bytes_must_be_rejected() {
    let honest = honest_proof();
    let mut proof = honest.clone();
    proof.gkr_proof.as_mut().unwrap().extend_from_slice(&[0xde, 0xad, 0xbe, 0xef]);
    // the edit survives a serialization round trip, i.e. it is decoded content
    let proof = Proof::from_bytes(&proof.to_bytes()).unwrap();
    assert_ne!(proof, honest);
    assert_eq!(proof.gkr_proof.as_ref().unwrap().len(), honest.gkr_proof.as_ref().unwrap().len() + 4);

    let res = run_verify(proof);
    assert!(
        matches!(res, Ok(Err(_))),
        "a proof with surplus bytes in its GKR proof was not rejected: {res:?}"
    );
}

// FINDING 3: wrong number of trace segment queries (public field) panics instead of an error
// ================================================================================================

#[test]
fn f3_surplus_trace_segment_queries_must_be_rejected_without_panic() {
    let mut proof = honest_proof();
    let extra = proof.trace_queries[1].clone();
    proof.trace_queries.push(extra);
    let res = run_verify(proof);
    assert!(matches!(res, Ok(Err(_))), "expected Err, got {res:?} (Err(()) = panic)");
}

#[test]
fn f3b_missing_trace_segment_queries_must_be_rejected_without_panic() {
    let mut proof = honest_proof();
    proof.trace_queries.pop();
    let res = run_verify(proof);
    assert!(matches!(res, Ok(Err(_))), "expected Err, got {res:?} (Err(()) = panic)");
}

// REFUTED SUSPICIONS (these must pass)
// ================================================================================================

#[test]
fn ok_surplus_commitment_is_rejected() {
    let honest = honest_proof();
    let bytes = honest.to_bytes();
    // commitments follow context (6 + meta + 1 + 8 modulus + 6 options) and num_unique_queries
    let off = 6 + META.len() + 1 + 8 + 6 + 1;
    let len = u16::from_le_bytes([bytes[off], bytes[off + 1]]) as usize;
    assert_eq!(len % 32, 0);
    let mut edited = bytes.clone();
    let new_len = (len + 32) as u16;
    edited[off..off + 2].copy_from_slice(&new_len.to_le_bytes());
    for _ in 0..32 {
        edited.insert(off + 2 + len, 7);
    }
    let proof = Proof::from_bytes(&edited).unwrap();
    let res = run_verify(proof);
    assert!(matches!(res, Ok(Err(_))), "got {res:?}");
}

#[test]
fn ok_pow_nonce_is_bound_even_without_grinding() {
    let mut proof = honest_proof();
    proof.pow_nonce ^= 1;
    let res = run_verify(proof);
    assert!(matches!(res, Ok(Err(_))), "got {res:?}");
}

#[test]
fn ok_num_unique_queries_is_checked() {
    let mut proof = honest_proof();
    proof.num_unique_queries = proof.num_unique_queries.wrapping_add(1);
    let res = run_verify(proof);
    assert!(matches!(res, Ok(Err(_))), "got {res:?}");
}

#[test]
fn ok_dropped_gkr_proof_is_rejected() {
    let mut proof = honest_proof();
    proof.gkr_proof = None;
    let res = run_verify(proof);
    assert!(matches!(res, Ok(Err(_))), "got {res:?}");
}

#[test]
fn ok_every_single_bit_flip_of_the_tail_is_rejected_or_unparsable() {
    // flips one bit in each of the last 200 bytes (FRI proof, remainder, partitions, nonce, GKR)
    let honest = honest_proof();
    let bytes = honest.to_bytes();
    let n = bytes.len();
    for i in n.saturating_sub(200)..n {
        for bit in [0u8, 7] {
            let mut edited = bytes.clone();
            edited[i] ^= 1 << bit;
            let Ok(proof) = Proof::from_bytes(&edited) else { continue };
            if proof == honest {
                continue;
            }
            // FRI partition count is layout-only metadata (outside the claim)
            if i == n - 1 - 8 - 1 - honest.gkr_proof.as_ref().map_or(0, |g| g.len() + 1) {
                continue;
            }
            let res = run_verify(proof);
            assert!(matches!(res, Ok(Err(_))), "byte {i} bit {bit}: got {res:?}");
        }
    }
}

// LagrangeComplexTrace
// =================================================================================================

#[derive(Clone, Debug)]
struct LagrangeComplexTrace {
    // dummy main trace
    main_trace: ColMatrix<BaseElement>,
    info: TraceInfo,
}

impl LagrangeComplexTrace {
    fn new(trace_len: usize, aux_segment_width: usize) -> Self {
        assert!(trace_len < u32::MAX.try_into().unwrap());

        let main_trace_col: Vec<BaseElement> =
            (0..trace_len).map(|idx| BaseElement::from(idx as u32)).collect();

        Self {
            main_trace: ColMatrix::new(vec![main_trace_col]),
            info: TraceInfo::new_multi_segment(1, aux_segment_width, 0, trace_len, META.to_vec()),
        }
    }

    fn len(&self) -> usize {
        self.main_trace.num_rows()
    }
}

impl Trace for LagrangeComplexTrace {
    type BaseField = BaseElement;

    fn info(&self) -> &TraceInfo {
        &self.info
    }

    fn main_segment(&self) -> &ColMatrix<Self::BaseField> {
        &self.main_trace
    }

    fn read_main_frame(&self, row_idx: usize, frame: &mut EvaluationFrame<Self::BaseField>) {
        let next_row_idx = row_idx + 1;
        assert_ne!(next_row_idx, self.len());

        self.main_trace.read_row_into(row_idx, frame.current_mut());
        self.main_trace.read_row_into(next_row_idx, frame.next_mut());
    }
}

// AIR
// =================================================================================================

#[derive(Debug, Clone, Default)]
struct DummyGkrVerifier;

impl GkrVerifier for DummyGkrVerifier {
    // `GkrProof` is log(trace_len) for this dummy example, so that the verifier knows how many aux
    // random variables to generate
    type GkrProof = usize;
    type Error = VerifierError;

    fn verify<E, Hasher>(
        &self,
        gkr_proof: usize,
        public_coin: &mut impl RandomCoin<BaseField = E::BaseField, Hasher = Hasher>,
    ) -> Result<LagrangeKernelRandElements<E>, Self::Error>
    where
        E: FieldElement,
        Hasher: crypto::ElementHasher<BaseField = E::BaseField>,
    {
        let log_trace_len = gkr_proof;
        let lagrange_kernel_rand_elements: LagrangeKernelRandElements<E> = {
            let mut rand_elements = Vec::with_capacity(log_trace_len);
            for _ in 0..log_trace_len {
                rand_elements.push(public_coin.draw().unwrap());
            }

            LagrangeKernelRandElements::new(rand_elements)
        };

        Ok(lagrange_kernel_rand_elements)
    }
}

struct LagrangeKernelComplexAir {
    context: AirContext<BaseElement>,
}

impl Air for LagrangeKernelComplexAir {
    type BaseField = BaseElement;
    // `GkrProof` is log(trace_len) for this dummy example, so that the verifier knows how many aux
    // random variables to generate
    type GkrProof = usize;
    type GkrVerifier = DummyGkrVerifier;

    type PublicInputs = ();

    fn new(trace_info: TraceInfo, _pub_inputs: Self::PublicInputs, options: ProofOptions) -> Self {
        Self {
            context: AirContext::new_multi_segment(
                trace_info,
                vec![TransitionConstraintDegree::new(1)],
                vec![TransitionConstraintDegree::new(1)],
                1,
                1,
                Some(1),
                options,
            ),
        }
    }

    fn context(&self) -> &AirContext<Self::BaseField> {
        &self.context
    }

    fn evaluate_transition<E: math::FieldElement<BaseField = Self::BaseField>>(
        &self,
        frame: &EvaluationFrame<E>,
        _periodic_values: &[E],
        result: &mut [E],
    ) {
        let current = frame.current()[0];
        let next = frame.next()[0];

        // increments by 1
        result[0] = next - current - E::ONE;
    }

    fn get_assertions(&self) -> Vec<Assertion<Self::BaseField>> {
        vec![Assertion::single(0, 0, BaseElement::ZERO)]
    }

    fn evaluate_aux_transition<F, E>(
        &self,
        _main_frame: &EvaluationFrame<F>,
        _aux_frame: &EvaluationFrame<E>,
        _periodic_values: &[F],
        _aux_rand_elements: &[E],
        _result: &mut [E],
    ) where
        F: FieldElement<BaseField = Self::BaseField>,
        E: FieldElement<BaseField = Self::BaseField> + ExtensionOf<F>,
    {
        // do nothing
    }

    fn get_aux_assertions<E: FieldElement<BaseField = Self::BaseField>>(
        &self,
        _aux_rand_elements: &[E],
    ) -> Vec<Assertion<E>> {
        vec![Assertion::single(0, 0, E::ZERO)]
    }

    fn get_auxiliary_proof_verifier<E: FieldElement<BaseField = Self::BaseField>>(
        &self,
    ) -> Self::GkrVerifier {
        DummyGkrVerifier
    }
}

// LagrangeComplexProver
// ================================================================================================

struct LagrangeComplexProver {
    aux_trace_width: usize,
    options: ProofOptions,
}

impl LagrangeComplexProver {
    fn new(aux_trace_width: usize) -> Self {
        Self {
            aux_trace_width,
            options: ProofOptions::new(8, 4, 0, FieldExtension::None, 2, 1),
        }
    }
}

impl Prover for LagrangeComplexProver {
    type BaseField = BaseElement;
    type Air = LagrangeKernelComplexAir;
    type Trace = LagrangeComplexTrace;
    type HashFn = Blake3_256<BaseElement>;
    type RandomCoin = DefaultRandomCoin<Self::HashFn>;
    type TraceLde<E: FieldElement<BaseField = BaseElement>> = DefaultTraceLde<E, Self::HashFn>;
    type ConstraintEvaluator<'a, E: FieldElement<BaseField = BaseElement>> =
        DefaultConstraintEvaluator<'a, LagrangeKernelComplexAir, E>;

    fn get_pub_inputs(&self, _trace: &Self::Trace) -> <<Self as Prover>::Air as Air>::PublicInputs {
    }

    fn options(&self) -> &ProofOptions {
        &self.options
    }

    fn new_trace_lde<E>(
        &self,
        trace_info: &TraceInfo,
        main_trace: &ColMatrix<Self::BaseField>,
        domain: &StarkDomain<Self::BaseField>,
    ) -> (Self::TraceLde<E>, TracePolyTable<E>)
    where
        E: math::FieldElement<BaseField = Self::BaseField>,
    {
        DefaultTraceLde::new(trace_info, main_trace, domain)
    }

    fn new_evaluator<'a, E>(
        &self,
        air: &'a Self::Air,
        aux_rand_elements: Option<AuxRandElements<E>>,
        composition_coefficients: ConstraintCompositionCoefficients<E>,
    ) -> Self::ConstraintEvaluator<'a, E>
    where
        E: math::FieldElement<BaseField = Self::BaseField>,
    {
        DefaultConstraintEvaluator::new(air, aux_rand_elements, composition_coefficients)
    }

    fn generate_gkr_proof<E>(
        &self,
        main_trace: &Self::Trace,
        public_coin: &mut Self::RandomCoin,
    ) -> (ProverGkrProof<Self>, LagrangeKernelRandElements<E>)
    where
        E: FieldElement<BaseField = Self::BaseField>,
    {
        let main_trace = main_trace.main_segment();
        let log_trace_len = main_trace.num_rows().ilog2() as usize;
        let lagrange_kernel_rand_elements: Vec<E> = {
            let mut rand_elements = Vec::with_capacity(log_trace_len);
            for _ in 0..log_trace_len {
                rand_elements.push(public_coin.draw().unwrap());
            }

            rand_elements
        };

        (log_trace_len, LagrangeKernelRandElements::new(lagrange_kernel_rand_elements))
    }

    fn build_aux_trace<E>(
        &self,
        main_trace: &Self::Trace,
        aux_rand_elements: &AuxRandElements<E>,
    ) -> ColMatrix<E>
    where
        E: FieldElement<BaseField = Self::BaseField>,
    {
        let main_trace = main_trace.main_segment();
        let lagrange_kernel_rand_elements = aux_rand_elements
            .lagrange()
            .expect("expected lagrange random elements to be present.");

        let mut columns = Vec::new();

        // First all other auxiliary columns
        let rand_summed = lagrange_kernel_rand_elements.iter().fold(E::ZERO, |acc, &r| acc + r);
        for _ in 1..self.aux_trace_width {
            // building a dummy auxiliary column
            let column = main_trace
                .get_column(0)
                .iter()
                .map(|row_val| rand_summed.mul_base(*row_val))
                .collect();

            columns.push(column);
        }

        // then build the Lagrange kernel column
        {
            let r = &lagrange_kernel_rand_elements;

            let mut lagrange_col = Vec::with_capacity(main_trace.num_rows());

            for row_idx in 0..main_trace.num_rows() {
                let mut row_value = E::ONE;
                for (bit_idx, &r_i) in r.iter().enumerate() {
                    if row_idx & (1 << bit_idx) == 0 {
                        row_value *= E::ONE - r_i;
                    } else {
                        row_value *= r_i;
                    }
                }
                lagrange_col.push(row_value);
            }

            columns.push(lagrange_col);
        }

        ColMatrix::new(columns)
    }
}
