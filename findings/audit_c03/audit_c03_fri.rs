// AUDIT: stand-alone FRI verifier (`fri::DefaultVerifierChannel` + `fri::FriVerifier`); copy to
// fri/tests/. Tests assert the CORRECT behaviour and FAIL exactly when the violation exists.

use std::panic::{catch_unwind, AssertUnwindSafe};

use crypto::{hashers::Blake3_256, DefaultRandomCoin, Hasher, RandomCoin};
use winter_fri::{
    DefaultProverChannel, DefaultVerifierChannel, FriOptions, FriProof, FriProver, FriVerifier,
    VerifierError,
};
use math::{fft, fields::f128::BaseElement, FieldElement};
use utils::{Deserializable, Serializable, SliceReader};

type Blake3 = Blake3_256<BaseElement>;
type Digest = <Blake3 as Hasher>::Digest;

const TRACE_LEN: usize = 256;
const BLOWUP: usize = 8;
const FOLDING: usize = 4;
const DOMAIN: usize = TRACE_LEN * BLOWUP;

struct Setup {
    proof_bytes: Vec<u8>,
    commitments: Vec<Digest>,
    evaluations: Vec<BaseElement>,
    positions: Vec<usize>,
    options: FriOptions,
}

fn setup() -> Setup {
    let options = FriOptions::new(BLOWUP, FOLDING, 7);
    let mut channel =
        DefaultProverChannel::<BaseElement, Blake3, DefaultRandomCoin<Blake3>>::new(DOMAIN, 16);
    let mut p = (0..TRACE_LEN as u128).map(BaseElement::new).collect::<Vec<_>>();
    p.resize(DOMAIN, BaseElement::ZERO);
    let twiddles = fft::get_twiddles::<BaseElement>(DOMAIN);
    fft::evaluate_poly(&mut p, &twiddles);
    let evaluations = p;

    let mut prover = FriProver::new(options.clone());
    prover.build_layers(&mut channel, evaluations.clone());
    let positions = channel.draw_query_positions(0);
    let proof = prover.build_proof(&positions);
    assert_eq!(proof.num_layers(), 3);
    let mut proof_bytes = Vec::new();
    proof.write_into(&mut proof_bytes);
    Setup {
        proof_bytes,
        commitments: channel.layer_commitments().to_vec(),
        evaluations,
        positions,
        options,
    }
}

/// Ok(Ok) accepted, Ok(Err) rejected / unparsable, Err(()) panicked
fn run(s: &Setup, proof_bytes: &[u8]) -> Result<Result<(), String>, ()> {
    catch_unwind(AssertUnwindSafe(|| -> Result<(), String> {
        let mut reader = SliceReader::new(proof_bytes);
        let proof = FriProof::read_from(&mut reader).map_err(|e| e.to_string())?;
        let mut channel = DefaultVerifierChannel::<BaseElement, Blake3>::new(
            proof,
            s.commitments.clone(),
            DOMAIN,
            s.options.folding_factor(),
        )
        .map_err(|e| e.to_string())?;
        let mut coin = DefaultRandomCoin::<Blake3>::new(&[]);
        let verifier = FriVerifier::new(&mut channel, &mut coin, s.options.clone(), TRACE_LEN - 1)
            .map_err(|e: VerifierError| e.to_string())?;
        let queried = s.positions.iter().map(|&p| s.evaluations[p]).collect::<Vec<_>>();
        verifier.verify(&mut channel, &queried, &s.positions).map_err(|e| e.to_string())
    }))
    .map_err(|_| ())
}

/// Returns the byte offset just past the last layer of a serialized FRI proof.
fn end_of_layers(bytes: &[u8]) -> (usize, usize) {
    let n = bytes[0] as usize;
    let mut off = 1;
    let mut last_start = 1;
    for _ in 0..n {
        last_start = off;
        for _ in 0..2 {
            let len = u32::from_le_bytes(bytes[off..off + 4].try_into().unwrap()) as usize;
            off += 4 + len;
        }
    }
    (last_start, off)
}

#[test]
fn control_honest_fri_proof_verifies() {
    let s = setup();
    assert_eq!(run(&s, &s.proof_bytes), Ok(Ok(())));
}

#[test]
fn control_edited_remainder_is_rejected() {
    let s = setup();
    let (_, end) = end_of_layers(&s.proof_bytes);
    let mut bytes = s.proof_bytes.clone();
    bytes[end + 2] ^= 1; // first byte of the first remainder coefficient
    assert!(matches!(run(&s, &bytes), Ok(Err(_))));
}

// FINDING 4: a surplus FRI layer (never read, never authenticated) is accepted
#[test]
fn f4_surplus_fri_layer_must_be_rejected() {
    let s = setup();
    let (_, end) = end_of_layers(&s.proof_bytes);
    let mut bytes = s.proof_bytes.clone();
    bytes[0] += 1; // 3 -> 4 layers
    let mut layer = Vec::new();
    layer.extend_from_slice(&((FOLDING * 16) as u32).to_le_bytes()); // one query of 4 elements
    layer.extend_from_slice(&[0x00; FOLDING * 16]); // arbitrary canonical elements
    layer.extend_from_slice(&1u32.to_le_bytes()); // paths: zero node vectors
    layer.push(0);
    bytes.splice(end..end, layer);

    let res = run(&s, &bytes);
    assert!(matches!(res, Ok(Err(_))), "FRI proof with a surplus layer was not rejected: {res:?}");
}

// FINDING 5: a FRI proof with a missing layer panics instead of being rejected
#[test]
fn f5_missing_fri_layer_must_be_rejected_without_panic() {
    let s = setup();
    let (last_start, end) = end_of_layers(&s.proof_bytes);
    let mut bytes = s.proof_bytes.clone();
    bytes[0] -= 1;
    bytes.drain(last_start..end);
    let res = run(&s, &bytes);
    assert!(matches!(res, Ok(Err(_))), "expected rejection, got {res:?} (Err(()) = panic)");
}
