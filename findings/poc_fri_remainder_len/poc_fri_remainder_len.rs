// PoC (C12): FriProof does not survive serialization when its remainder is 65536 bytes or longer.
// FriOptions::new accepts any remainder_max_degree; FriProof::write_into writes the byte length of the remainder as u16.
use crypto::{hashers::Blake3_256, DefaultRandomCoin};
use math::{fft, fields::f128::BaseElement, FieldElement};
use utils::{Deserializable, Serializable};
use winter_fri::{DefaultProverChannel, FriOptions, FriProof, FriProver};

type H = Blake3_256<BaseElement>;

#[test]
fn fri_proof_with_long_remainder_round_trips() {
    let options = FriOptions::new(2, 2, 4095);
    let domain_size = 8192usize;
    // evaluations of a polynomial of degree < 4096 over the LDE domain
    let mut evals: Vec<BaseElement> = (0..4096u64).map(|i| BaseElement::new(i as u128 + 1)).collect();
    evals.resize(domain_size, BaseElement::ZERO);
    let twiddles = fft::get_twiddles::<BaseElement>(domain_size);
    fft::evaluate_poly(&mut evals, &twiddles);
    let mut channel = DefaultProverChannel::<BaseElement, H, DefaultRandomCoin<H>>::new(domain_size, 4);
    let mut prover = FriProver::<BaseElement, BaseElement, _, H>::new(options);
    prover.build_layers(&mut channel, evals);
    let positions = channel.draw_query_positions(0);
    let proof = prover.build_proof(&positions);
    let bytes = proof.to_bytes();
    let back = FriProof::read_from_bytes(&bytes);
    assert!(back.is_ok(), "a serialized FriProof must parse: {:?}", back.err());
    assert_eq!(proof, back.unwrap(), "a FriProof must survive serialization");
}
