// Audit tests: "parsing / verifying arbitrary proof bytes never panics" (query / DEEP / FRI phase).
//
// ONE file, two halves:
//   * default build  -> copy to winterfell/tests/audit_test.rs (STARK level, `winterfell::verify`)
//   * `--cfg audit_fri` -> copy to fri/tests/audit_test.rs (stand-alone FRI verifier level)
//
// Every test asserts the CORRECT behaviour (no panic, an `Err` is returned for a malformed proof),
// so a test FAILS exactly when a violation of the property exists.

#![allow(unexpected_cfgs)]

use std::panic::{catch_unwind, AssertUnwindSafe};

/// Runs `f`, returning Err(panic message) if it panicked.
fn no_panic<T>(f: impl FnOnce() -> T) -> Result<T, String> {
    catch_unwind(AssertUnwindSafe(f)).map_err(|p| {
        if let Some(s) = p.downcast_ref::<String>() {
            s.clone()
        } else if let Some(s) = p.downcast_ref::<&str>() {
            s.to_string()
        } else {
            "<non-string panic>".to_string()
        }
    })
}

// ================================================================================================
// STARK LEVEL (winterfell/tests)
// ================================================================================================
#[cfg(not(audit_fri))]
mod stark {
    use winterfell::{
        crypto::{hashers::Blake3_256, DefaultRandomCoin},
        math::{fields::f128::BaseElement, FieldElement, ToElements},
        matrix::ColMatrix,
        verify, AcceptableOptions, Air, AirContext, Assertion, AuxRandElements,
        ConstraintCompositionCoefficients, DefaultConstraintEvaluator, DefaultTraceLde,
        EvaluationFrame, FieldExtension, Proof, ProofOptions, Prover, Serializable, StarkDomain,
        Trace, TraceInfo, TracePolyTable, TraceTable, TransitionConstraintDegree, VerifierError,
    };

    use super::no_panic;

    type Blake3 = Blake3_256<BaseElement>;
    type Coin = DefaultRandomCoin<Blake3>;

    const TRACE_LEN: usize = 16;

    // ---- AIR -----------------------------------------------------------------------------------
    // col0: x' = x + 1 ; col1: y' = y + x. Assertions on col1 depend on MODE:
    //   MODE 0: Assertion::sequence(1, 0, 8, [y0, y8])   (values come from the public inputs)
    //   MODE 1: Assertion::periodic(1, 0, 16, y0)
    //   MODE 2: Assertion::single(1, 15, y15)             (fixed step)
    //   MODE 3: Assertion::single(1, trace_length - 1, y_last) (always valid; used as control AIR)
    // Nothing is asserted in `Air::new`; these are perfectly ordinary AIR definitions.
    #[derive(Clone)]
    pub struct Inputs {
        start: BaseElement,
        marks: Vec<BaseElement>,
    }
    impl ToElements<BaseElement> for Inputs {
        fn to_elements(&self) -> Vec<BaseElement> {
            let mut r = vec![self.start];
            r.extend_from_slice(&self.marks);
            r
        }
    }

    pub struct ModeAir<const MODE: usize> {
        context: AirContext<BaseElement>,
        inputs: Inputs,
    }

    impl<const MODE: usize> Air for ModeAir<MODE> {
        type BaseField = BaseElement;
        type PublicInputs = Inputs;
        type GkrProof = ();
        type GkrVerifier = ();

        fn new(trace_info: TraceInfo, inputs: Inputs, options: ProofOptions) -> Self {
            let degrees =
                vec![TransitionConstraintDegree::new(1), TransitionConstraintDegree::new(1)];
            ModeAir {
                context: AirContext::new(trace_info, degrees, 2, options),
                inputs,
            }
        }

        fn evaluate_transition<E: FieldElement + From<Self::BaseField>>(
            &self,
            frame: &EvaluationFrame<E>,
            _periodic_values: &[E],
            result: &mut [E],
        ) {
            result[0] = frame.next()[0] - frame.current()[0] - E::ONE;
            result[1] = frame.next()[1] - frame.current()[1] - frame.current()[0];
        }

        fn get_assertions(&self) -> Vec<Assertion<Self::BaseField>> {
            let second = match MODE {
                0 => Assertion::sequence(1, 0, 8, self.inputs.marks.clone()),
                1 => Assertion::periodic(1, 0, 16, self.inputs.marks[0]),
                2 => Assertion::single(1, 15, self.inputs.marks[0]),
                _ => Assertion::single(1, self.trace_length() - 1, self.inputs.marks[0]),
            };
            vec![Assertion::single(0, 0, self.inputs.start), second]
        }

        fn context(&self) -> &AirContext<Self::BaseField> {
            &self.context
        }
    }

    // ---- PROVER --------------------------------------------------------------------------------
    struct ModeProver<const MODE: usize> {
        options: ProofOptions,
    }

    impl<const MODE: usize> Prover for ModeProver<MODE> {
        type BaseField = BaseElement;
        type Air = ModeAir<MODE>;
        type Trace = TraceTable<BaseElement>;
        type HashFn = Blake3;
        type RandomCoin = Coin;
        type TraceLde<E: FieldElement<BaseField = BaseElement>> = DefaultTraceLde<E, Blake3>;
        type ConstraintEvaluator<'a, E: FieldElement<BaseField = BaseElement>> =
            DefaultConstraintEvaluator<'a, Self::Air, E>;

        fn get_pub_inputs(&self, trace: &Self::Trace) -> Inputs {
            let marks = match MODE {
                0 => vec![trace.get(1, 0), trace.get(1, 8)],
                1 => vec![trace.get(1, 0)],
                2 => vec![trace.get(1, 15)],
                _ => vec![trace.get(1, trace.length() - 1)],
            };
            Inputs { start: trace.get(0, 0), marks }
        }

        fn options(&self) -> &ProofOptions {
            &self.options
        }

        fn new_trace_lde<E: FieldElement<BaseField = BaseElement>>(
            &self,
            trace_info: &TraceInfo,
            main_trace: &ColMatrix<BaseElement>,
            domain: &StarkDomain<BaseElement>,
        ) -> (Self::TraceLde<E>, TracePolyTable<E>) {
            DefaultTraceLde::new(trace_info, main_trace, domain)
        }

        fn new_evaluator<'a, E: FieldElement<BaseField = BaseElement>>(
            &self,
            air: &'a Self::Air,
            aux_rand_elements: Option<AuxRandElements<E>>,
            composition_coefficients: ConstraintCompositionCoefficients<E>,
        ) -> Self::ConstraintEvaluator<'a, E> {
            DefaultConstraintEvaluator::new(air, aux_rand_elements, composition_coefficients)
        }
    }

    fn build_trace() -> TraceTable<BaseElement> {
        let mut trace = TraceTable::new(2, TRACE_LEN);
        trace.fill(
            |state| {
                state[0] = BaseElement::new(3);
                state[1] = BaseElement::new(5);
            },
            |_, state| {
                let x = state[0];
                state[0] = x + BaseElement::ONE;
                state[1] += x;
            },
        );
        trace
    }

    /// options under which traces of length 8, 16 and 32 all need ZERO FRI layers, so that a proof
    /// claiming another trace length is still structurally well-formed
    fn options_no_layers() -> ProofOptions {
        ProofOptions::new(8, 8, 0, FieldExtension::None, 4, 31)
    }

    /// options with one FRI layer (lde 128 -> 32) for trace length 16
    fn options_one_layer() -> ProofOptions {
        ProofOptions::new(8, 8, 0, FieldExtension::None, 4, 3)
    }

    fn prove<const MODE: usize>(options: ProofOptions) -> (Proof, Inputs) {
        let trace = build_trace();
        let prover = ModeProver::<MODE> { options };
        let inputs = prover.get_pub_inputs(&trace);
        let proof = prover.prove(trace).expect("honest proving failed");
        (proof, inputs)
    }

    fn run_verify<const MODE: usize>(
        proof: Proof,
        inputs: Inputs,
    ) -> Result<Result<(), VerifierError>, String> {
        let acceptable = AcceptableOptions::MinConjecturedSecurity(0);
        no_panic(|| verify::<ModeAir<MODE>, Blake3, Coin>(proof, inputs, &acceptable))
    }

    /// re-encodes the proof with a different claimed trace length; byte 3 of a serialized proof is
    /// log2(trace_length) (TraceInfo::write_into)
    fn with_claimed_log2_trace_length(proof: &Proof, log2_len: u8) -> Proof {
        let mut bytes = proof.to_bytes();
        assert_eq!(bytes[3], TRACE_LEN.ilog2() as u8, "unexpected proof layout");
        bytes[3] = log2_len;
        Proof::from_bytes(&bytes).expect("re-encoded proof must still parse")
    }

    fn claimed_length_case<const MODE: usize>(log2_len: u8) {
        let (proof, inputs) = prove::<MODE>(options_no_layers());
        // control: honest proof verifies (also after a serialization round trip)
        let honest = Proof::from_bytes(&proof.to_bytes()).unwrap();
        assert_eq!(run_verify::<MODE>(honest, inputs.clone()), Ok(Ok(())), "control failed");

        let bad = with_claimed_log2_trace_length(&proof, log2_len);
        match run_verify::<MODE>(bad, inputs) {
            Ok(Err(_)) => {}, // correct behaviour: an error value
            Ok(Ok(())) => panic!("a proof with a forged trace length was accepted"),
            Err(msg) => panic!("VIOLATION: verify() panicked instead of returning Err: {msg}"),
        }
    }

    // CONTROL: an AIR whose assertions are valid for every trace length rejects gracefully
    #[test]
    fn control_forged_trace_length_mode3_is_rejected_with_err() {
        claimed_length_case::<3>(5);
        claimed_length_case::<3>(3);
    }

    // FINDING 1: boundary-constraint construction panics on proof-claimed trace length
    #[test]
    fn f1_sequence_assertion_vs_claimed_trace_length_32() {
        claimed_length_case::<0>(5);
    }
    #[test]
    fn f1_sequence_assertion_vs_claimed_trace_length_8() {
        claimed_length_case::<0>(3);
    }
    #[test]
    fn f1_periodic_assertion_vs_claimed_trace_length_8() {
        claimed_length_case::<1>(3);
    }
    #[test]
    fn f1_single_assertion_vs_claimed_trace_length_8() {
        claimed_length_case::<2>(3);
    }

    // FINDING 2: number of trace-query structs (public field of Proof) is only `assert_eq!`-ed
    #[test]
    fn f2_surplus_trace_queries_struct() {
        let (mut proof, inputs) = prove::<3>(options_one_layer());
        assert_eq!(run_verify::<3>(proof.clone(), inputs.clone()), Ok(Ok(())), "control failed");
        let extra = proof.trace_queries[0].clone();
        proof.trace_queries.push(extra);
        match run_verify::<3>(proof, inputs) {
            Ok(Err(_)) => {},
            Ok(Ok(())) => panic!("malformed proof accepted"),
            Err(msg) => panic!("VIOLATION: verify() panicked instead of returning Err: {msg}"),
        }
    }
    #[test]
    fn f2_missing_trace_queries_struct() {
        let (mut proof, inputs) = prove::<3>(options_one_layer());
        proof.trace_queries.clear();
        match run_verify::<3>(proof, inputs) {
            Ok(Err(_)) => {},
            Ok(Ok(())) => panic!("malformed proof accepted"),
            Err(msg) => panic!("VIOLATION: verify() panicked instead of returning Err: {msg}"),
        }
    }

    // REFUTED SUSPICIONS (these are expected to pass) ---------------------------------------------

    /// FRI partition count is proof controlled (byte at len-10, stored as log2)
    #[test]
    fn ok_fri_num_partitions_any_value() {
        let (proof, inputs) = prove::<3>(options_one_layer());
        let bytes = proof.to_bytes();
        let idx = bytes.len() - 10;
        assert_eq!(bytes[idx], 0, "unexpected layout: partitions byte");
        for v in 1..=255u8 {
            let mut b = bytes.clone();
            b[idx] = v;
            let r = no_panic(|| {
                Proof::from_bytes(&b).map(|p| {
                    verify::<ModeAir<3>, Blake3, Coin>(
                        p,
                        inputs.clone(),
                        &AcceptableOptions::MinConjecturedSecurity(0),
                    )
                })
            });
            // NOTE: acceptance is not a violation of the no-panic property; value 5 (32 partitions
            // == size of the folded domain) maps positions identically and is accepted
            if let Err(msg) = r {
                panic!("VIOLATION (partitions byte {v}): {msg}");
            }
        }
    }

    /// num_unique_queries is proof controlled (byte right after the context)
    #[test]
    fn ok_num_unique_queries_any_value() {
        let (proof, inputs) = prove::<3>(options_one_layer());
        for v in 0..=255u8 {
            if v == proof.num_unique_queries {
                continue;
            }
            let mut p = proof.clone();
            p.num_unique_queries = v;
            match run_verify::<3>(p, inputs.clone()) {
                Ok(Err(_)) => {},
                Ok(Ok(())) => panic!("accepted"),
                Err(msg) => panic!("VIOLATION (num_unique_queries {v}): {msg}"),
            }
        }
    }

    /// single-byte corruption of everything after the context, plus all truncations
    #[test]
    fn ok_byte_flips_and_truncations_after_context() {
        let (proof, inputs) = prove::<3>(options_one_layer());
        let bytes = proof.to_bytes();
        let ctx_len = proof.context.to_bytes().len();
        let acceptable = AcceptableOptions::MinConjecturedSecurity(0);
        let mut violations = Vec::new();
        let mut check = |b: &[u8], what: String| {
            let r = no_panic(|| {
                Proof::from_bytes(b)
                    .map(|p| verify::<ModeAir<3>, Blake3, Coin>(p, inputs.clone(), &acceptable))
            });
            if let Err(msg) = r {
                violations.push(format!("{what}: {msg}"));
            }
        };
        for i in ctx_len..bytes.len() {
            for mask in [0x01u8, 0x80, 0xff] {
                let mut b = bytes.clone();
                b[i] ^= mask;
                check(&b, format!("byte {i} ^ {mask:#x}"));
            }
        }
        for n in 0..bytes.len() {
            check(&bytes[..n], format!("truncated to {n}"));
        }
        assert!(violations.is_empty(), "VIOLATIONS:\n{}", violations.join("\n"));
    }

    /// dummy / default parts supplied through the public fields
    #[test]
    fn ok_dummy_parts_via_public_fields() {
        let (proof, inputs) = prove::<3>(options_one_layer());
        let dummy = Proof::new_dummy();

        let mut p = proof.clone();
        p.fri_proof = dummy.fri_proof.clone();
        assert!(matches!(run_verify::<3>(p, inputs.clone()), Ok(Err(_))));

        let mut p = proof.clone();
        p.ood_frame = dummy.ood_frame.clone();
        assert!(matches!(run_verify::<3>(p, inputs.clone()), Ok(Err(_))));

        let mut p = proof.clone();
        p.commitments = dummy.commitments.clone();
        assert!(matches!(run_verify::<3>(p, inputs.clone()), Ok(Err(_))));

        let mut p = proof.clone();
        p.constraint_queries = dummy.constraint_queries.clone();
        assert!(matches!(run_verify::<3>(p, inputs.clone()), Ok(Err(_))));

        let mut p = proof.clone();
        p.gkr_proof = Some(vec![1, 2, 3]);
        assert!(matches!(run_verify::<3>(p, inputs.clone()), Ok(Err(_))));

        // swap trace and constraint queries
        let mut p = proof.clone();
        core::mem::swap(&mut p.trace_queries[0], &mut p.constraint_queries);
        assert!(matches!(run_verify::<3>(p, inputs), Ok(Err(_))));
    }
}

// ================================================================================================
// FRI LEVEL (fri/tests, compiled with --cfg audit_fri)
// ================================================================================================
#[cfg(audit_fri)]
mod fri_level {
    use crypto::{hashers::Blake3_256, DefaultRandomCoin, Hasher, RandomCoin};
    use math::{fft, fields::f128::BaseElement, FieldElement};
    use utils::{Deserializable, Serializable, SliceReader};
    use winter_fri::{
        DefaultProverChannel, DefaultVerifierChannel, FriOptions, FriProof, FriProver,
        FriVerifier, VerifierError,
    };

    use super::no_panic;

    type Blake3 = Blake3_256<BaseElement>;
    type Digest = <Blake3 as Hasher>::Digest;

    const TRACE_LEN: usize = 256;
    const BLOWUP: usize = 8;

    struct Honest {
        options: FriOptions,
        proof_bytes: Vec<u8>,
        commitments: Vec<Digest>,
        evaluations: Vec<BaseElement>,
        positions: Vec<usize>,
    }

    fn honest() -> Honest {
        let options = FriOptions::new(BLOWUP, 4, 7);
        let domain_size = TRACE_LEN * BLOWUP;
        let mut p = (0..TRACE_LEN as u128).map(BaseElement::new).collect::<Vec<_>>();
        p.resize(domain_size, BaseElement::ZERO);
        let twiddles = fft::get_twiddles::<BaseElement>(domain_size);
        fft::evaluate_poly(&mut p, &twiddles);
        let evaluations = p;

        let mut channel =
            DefaultProverChannel::<BaseElement, Blake3, DefaultRandomCoin<Blake3>>::new(
                domain_size,
                16,
            );
        let mut prover = FriProver::new(options.clone());
        prover.build_layers(&mut channel, evaluations.clone());
        let positions = channel.draw_query_positions(0);
        let proof = prover.build_proof(&positions);
        let mut proof_bytes = Vec::new();
        proof.write_into(&mut proof_bytes);
        Honest {
            options,
            proof_bytes,
            commitments: channel.layer_commitments().to_vec(),
            evaluations,
            positions,
        }
    }

    /// The way an application verifies a FRI proof received as bytes together with the layer
    /// commitments (this mirrors fri/src/prover/tests.rs::verify_proof).
    fn verify_bytes(
        h: &Honest,
        proof_bytes: &[u8],
        commitments: Vec<Digest>,
    ) -> Result<(), String> {
        let mut reader = SliceReader::new(proof_bytes);
        let proof = FriProof::read_from(&mut reader).map_err(|e| e.to_string())?;
        let mut channel = DefaultVerifierChannel::<BaseElement, Blake3>::new(
            proof,
            commitments,
            TRACE_LEN * BLOWUP,
            h.options.folding_factor(),
        )
        .map_err(|e| e.to_string())?;
        let mut coin = DefaultRandomCoin::<Blake3>::new(&[]);
        let verifier: FriVerifier<BaseElement, _, Blake3, _> =
            FriVerifier::new(&mut channel, &mut coin, h.options.clone(), TRACE_LEN - 1)
                .map_err(|e: VerifierError| e.to_string())?;
        let queried = h.positions.iter().map(|&p| h.evaluations[p]).collect::<Vec<_>>();
        verifier.verify(&mut channel, &queried, &h.positions).map_err(|e| e.to_string())
    }

    /// splits serialized FriProof into (layers, tail) where tail = remainder + partitions
    fn split_layers(bytes: &[u8]) -> (Vec<Vec<u8>>, Vec<u8>) {
        let n = bytes[0] as usize;
        let mut pos = 1;
        let mut layers = Vec::new();
        for _ in 0..n {
            let start = pos;
            for _ in 0..2 {
                let len = u32::from_le_bytes(bytes[pos..pos + 4].try_into().unwrap()) as usize;
                pos += 4 + len;
            }
            layers.push(bytes[start..pos].to_vec());
        }
        (layers, bytes[pos..].to_vec())
    }

    fn join_layers(layers: &[Vec<u8>], tail: &[u8]) -> Vec<u8> {
        let mut out = vec![layers.len() as u8];
        for l in layers {
            out.extend_from_slice(l);
        }
        out.extend_from_slice(tail);
        out
    }

    fn expect_err(r: Result<Result<(), String>, String>, what: &str) {
        match r {
            Ok(Err(_)) => {},
            Ok(Ok(())) => panic!("{what}: malformed FRI proof accepted"),
            Err(msg) => panic!("VIOLATION ({what}): verifier panicked: {msg}"),
        }
    }

    #[test]
    fn control_honest_fri_proof_verifies() {
        let h = honest();
        assert!(h.options.num_fri_layers(TRACE_LEN * BLOWUP) >= 2);
        let (layers, tail) = split_layers(&h.proof_bytes);
        assert_eq!(layers.len(), h.options.num_fri_layers(TRACE_LEN * BLOWUP));
        assert_eq!(join_layers(&layers, &tail), h.proof_bytes);
        assert_eq!(
            no_panic(|| verify_bytes(&h, &h.proof_bytes, h.commitments.clone())),
            Ok(Ok(()))
        );
    }

    // FINDING 3: proof carries fewer layers than the verifier derives -> Vec::remove(0) panics
    #[test]
    fn f3_proof_with_last_layer_dropped() {
        let h = honest();
        let (mut layers, tail) = split_layers(&h.proof_bytes);
        layers.pop();
        let bytes = join_layers(&layers, &tail);
        expect_err(
            no_panic(|| verify_bytes(&h, &bytes, h.commitments.clone())),
            "last layer dropped",
        );
    }
    #[test]
    fn f3_proof_with_zero_layers() {
        let h = honest();
        let (_, tail) = split_layers(&h.proof_bytes);
        let bytes = join_layers(&[], &tail);
        expect_err(no_panic(|| verify_bytes(&h, &bytes, h.commitments.clone())), "zero layers");
    }

    // FINDING 4: fewer layer commitments than layers -> slice index out of bounds
    #[test]
    fn f4_no_layer_commitments() {
        let h = honest();
        expect_err(no_panic(|| verify_bytes(&h, &h.proof_bytes, vec![])), "no commitments");
    }
    #[test]
    fn f4_truncated_layer_commitments() {
        let h = honest();
        let mut c = h.commitments.clone();
        c.truncate(1);
        expect_err(no_panic(|| verify_bytes(&h, &h.proof_bytes, c)), "one commitment");
    }

    // REFUTED ------------------------------------------------------------------------------------
    #[test]
    fn ok_surplus_layer_or_commitment() {
        // NOTE: the stand-alone verifier ACCEPTS a proof carrying a surplus (never read) layer;
        // that is malleability, not a violation of the no-panic property, so only panics count
        let h = honest();
        let (mut layers, tail) = split_layers(&h.proof_bytes);
        layers.push(layers[0].clone());
        let bytes = join_layers(&layers, &tail);
        let r = no_panic(|| verify_bytes(&h, &bytes, h.commitments.clone()));
        assert!(r.is_ok(), "VIOLATION (surplus layer): {r:?}");
        let mut c = h.commitments.clone();
        c.push(c[0]);
        // (a surplus trailing commitment is likewise accepted; again only a panic counts)
        let r = no_panic(|| verify_bytes(&h, &h.proof_bytes, c));
        assert!(r.is_ok(), "VIOLATION (surplus commitment): {r:?}");
    }

    #[test]
    fn ok_partitions_byte_any_value() {
        let h = honest();
        let idx = h.proof_bytes.len() - 1;
        for v in 1..=255u8 {
            let mut b = h.proof_bytes.clone();
            b[idx] = v;
            // acceptance or rejection are both fine here, a panic is not
            if let Err(msg) = no_panic(|| verify_bytes(&h, &b, h.commitments.clone())) {
                panic!("VIOLATION (partitions byte {v}): {msg}");
            }
        }
    }

    #[test]
    fn ok_byte_flips_and_truncations() {
        let h = honest();
        let mut violations = Vec::new();
        for i in 1..h.proof_bytes.len() {
            for mask in [0x01u8, 0xff] {
                let mut b = h.proof_bytes.clone();
                b[i] ^= mask;
                if let Err(msg) = no_panic(|| verify_bytes(&h, &b, h.commitments.clone())) {
                    violations.push(format!("byte {i} ^ {mask:#x}: {msg}"));
                }
            }
        }
        for n in 0..h.proof_bytes.len() {
            if let Err(msg) =
                no_panic(|| verify_bytes(&h, &h.proof_bytes[..n], h.commitments.clone()))
            {
                violations.push(format!("truncated to {n}: {msg}"));
            }
        }
        assert!(violations.is_empty(), "VIOLATIONS:\n{}", violations.join("\n"));
    }
}
