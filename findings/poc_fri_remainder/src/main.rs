// Adversarial FRI prover: honest layer commitments for a RANDOM (far-from-low-degree) function,
// remainder polynomial chosen AFTER the query positions are known.
use winter_crypto::{hashers::Blake3_256, DefaultRandomCoin, RandomCoin, Hasher};
use winter_fri::{folding::apply_drp, DefaultProverChannel, DefaultVerifierChannel, FriOptions, FriProof,
    FriProver, FriVerifier, ProverChannel};
use winter_math::{fields::f128::BaseElement, polynom, FieldElement, StarkField};
use winter_utils::{transpose_slice, Deserializable, Serializable};

type Blake3 = Blake3_256<BaseElement>;
type Coin = DefaultRandomCoin<Blake3>;

// channel wrapper that records alphas
struct Rec { inner: DefaultProverChannel<BaseElement, Blake3, Coin>, alphas: Vec<BaseElement> }
impl ProverChannel<BaseElement> for Rec {
    type Hasher = Blake3;
    fn commit_fri_layer(&mut self, r: <Blake3 as Hasher>::Digest) { self.inner.commit_fri_layer(r) }
    fn draw_fri_alpha(&mut self) -> BaseElement { let a = self.inner.draw_fri_alpha(); self.alphas.push(a); a }
}

fn main() {
    let trace_length = 32usize; let blowup = 8usize; let folding = 4usize; let rem_max_deg = 7usize;
    let domain_size = trace_length * blowup; // 256
    let num_queries = 4usize;
    let options = FriOptions::new(blowup, folding, rem_max_deg);
    println!("num_fri_layers = {}", options.num_fri_layers(domain_size));

    // "random" function: f(i) = (i^3 + 17 i + 5) * 0x9E3779B97F4A7C15 ... any junk, certainly not degree <= 31
    let evaluations: Vec<BaseElement> = (0..domain_size as u128)
        .map(|i| BaseElement::new((i * i * i + 17 * i + 5).wrapping_mul(0x9E3779B97F4A7C15u128) ^ (i << 77)))
        .collect();

    let mut ch = Rec { inner: DefaultProverChannel::new(domain_size, num_queries), alphas: vec![] };
    let mut prover = FriProver::<BaseElement, BaseElement, Rec, Blake3>::new(options.clone());
    prover.build_layers(&mut ch, evaluations.clone());
    let positions = ch.inner.draw_query_positions(0);
    println!("positions = {:?}", positions);
    let proof = prover.build_proof(&positions);
    let commitments = ch.inner.layer_commitments().to_vec();

    // honest-format proof for the junk function must be rejected
    let r = verify(proof.clone(), commitments.clone(), &evaluations, trace_length - 1, domain_size, &positions, &options);
    println!("honest remainder, junk function  -> {:?}", r);

    // --- adaptive remainder: interpolate the last-layer evaluations at the queried (folded) positions
    assert_eq!(ch.alphas.len(), 1);
    let offset = BaseElement::GENERATOR;
    let t = transpose_slice::<BaseElement, 4>(&evaluations);
    let last = apply_drp(&t, offset, ch.alphas[0]); // 64 evaluations over folded domain
    let last_size = domain_size / folding; // 64
    let g = BaseElement::get_root_of_unity(last_size.ilog2());
    let last_offset = offset; // both sides treat every layer domain as offset*<g_layer>
    let mut folded: Vec<usize> = vec![];
    for p in &positions { let q = p % last_size; if !folded.contains(&q) { folded.push(q); } }
    let xs: Vec<BaseElement> = folded.iter().map(|&q| last_offset * g.exp((q as u64).into())).collect();
    let ys: Vec<BaseElement> = folded.iter().map(|&q| last[q]).collect();
    let mut poly = polynom::interpolate(&xs, &ys, false);
    poly.resize(8, BaseElement::ZERO); // 8 = (31+1)/4 coefficients allowed
    // splice it into the serialized proof: [.. u16 len][remainder bytes][u8 partitions]
    let mut bytes = proof.to_bytes();
    let rem_len = 8 * 16;
    let start = bytes.len() - 1 - rem_len;
    assert_eq!(u16::from_le_bytes([bytes[start - 2], bytes[start - 1]]) as usize, rem_len);
    let mut rb = vec![]; for c in &poly { c.write_into(&mut rb); }
    bytes[start..start + rem_len].copy_from_slice(&rb);
    let forged = FriProof::read_from_bytes(&bytes).unwrap();
    let r = verify(forged, commitments, &evaluations, trace_length - 1, domain_size, &positions, &options);
    println!("adaptive remainder, junk function -> {:?}", r);
}

fn verify(proof: FriProof, commitments: Vec<<Blake3 as Hasher>::Digest>, evaluations: &[BaseElement], max_degree: usize,
          domain_size: usize, positions: &[usize], options: &FriOptions) -> Result<(), winter_fri::VerifierError> {
    let mut channel = DefaultVerifierChannel::<BaseElement, Blake3>::new(proof, commitments, domain_size, options.folding_factor()).unwrap();
    let mut coin = Coin::new(&[]);
    let verifier = FriVerifier::new(&mut channel, &mut coin, options.clone(), max_degree)?;
    let q: Vec<BaseElement> = positions.iter().map(|&p| evaluations[p]).collect();
    verifier.verify(&mut channel, &q, positions)
}
