use winter_air::TraceInfo;
use utils::{Deserializable, Serializable};

#[test]
fn width_sum_wraps_without_overflow_checks() {
    // main + aux wraps to 1 when overflow checks are off (release profile)
    let info = TraceInfo::new_multi_segment(usize::MAX, 2, 1, 8, vec![]);
    assert_eq!(info.main_trace_width(), usize::MAX);
    let bytes = info.to_bytes();
    match TraceInfo::read_from_bytes(&bytes) {
        Ok(back) => assert_eq!(back, info, "round trip changed the value"),
        Err(e) => panic!("round trip failed: {e}"),
    }
}
