// Regression test: the number of opened trace / constraint rows is claimed by the proof
// (`Proof::num_unique_queries` plus the length of the query value bytes), while the query
// positions are drawn by the verifier. A proof which claims a different number of rows than the
// verifier draws must be rejected with an `Err`; `verify` must never panic on hostile proof bytes.
//
// Copy to `winterfell/tests/query_row_count.rs` and run
//   cargo test --offline -p winterfell --test query_row_count

use std::panic::{catch_unwind, AssertUnwindSafe};

use winterfell::{
    crypto::{hashers::Blake3_256, DefaultRandomCoin},
    math::{fields::f128::BaseElement, FieldElement, ToElements},
    matrix::ColMatrix,
    AcceptableOptions, Air, AirContext, Assertion, AuxRandElements,
    ConstraintCompositionCoefficients, DefaultConstraintEvaluator, DefaultTraceLde, Deserializable,
    EvaluationFrame, FieldExtension, Proof, ProofOptions, Prover, Serializable, StarkDomain, Trace,
    TraceInfo, TracePolyTable, TraceTable, TransitionConstraintDegree, VerifierError,
};

type Hasher = Blake3_256<BaseElement>;
type Coin = DefaultRandomCoin<Hasher>;

// COMPUTATION: x_{i+1} = x_i^3 + 42 (the example from the crate documentation)
// ================================================================================================

fn build_do_work_trace(start: BaseElement, n: usize) -> TraceTable<BaseElement> {
    let mut trace = TraceTable::new(1, n);
    trace.fill(
        |state| state[0] = start,
        |_, state| state[0] = state[0].exp(3u32.into()) + BaseElement::new(42),
    );
    trace
}

#[derive(Clone)]
struct PublicInputs {
    start: BaseElement,
    result: BaseElement,
}

impl ToElements<BaseElement> for PublicInputs {
    fn to_elements(&self) -> Vec<BaseElement> {
        vec![self.start, self.result]
    }
}

struct WorkAir {
    context: AirContext<BaseElement>,
    start: BaseElement,
    result: BaseElement,
}

impl Air for WorkAir {
    type BaseField = BaseElement;
    type PublicInputs = PublicInputs;
    type GkrProof = ();
    type GkrVerifier = ();

    fn new(trace_info: TraceInfo, pub_inputs: PublicInputs, options: ProofOptions) -> Self {
        let degrees = vec![TransitionConstraintDegree::new(3)];
        WorkAir {
            context: AirContext::new(trace_info, degrees, 2, options),
            start: pub_inputs.start,
            result: pub_inputs.result,
        }
    }

    fn evaluate_transition<E: FieldElement + From<Self::BaseField>>(
        &self,
        frame: &EvaluationFrame<E>,
        _periodic_values: &[E],
        result: &mut [E],
    ) {
        let next_state = frame.current()[0].exp(3u32.into()) + E::from(42u32);
        result[0] = frame.next()[0] - next_state;
    }

    fn get_assertions(&self) -> Vec<Assertion<Self::BaseField>> {
        let last_step = self.trace_length() - 1;
        vec![Assertion::single(0, 0, self.start), Assertion::single(0, last_step, self.result)]
    }

    fn context(&self) -> &AirContext<Self::BaseField> {
        &self.context
    }
}

struct WorkProver {
    options: ProofOptions,
}

impl Prover for WorkProver {
    type BaseField = BaseElement;
    type Air = WorkAir;
    type Trace = TraceTable<Self::BaseField>;
    type HashFn = Hasher;
    type RandomCoin = Coin;
    type TraceLde<E: FieldElement<BaseField = Self::BaseField>> = DefaultTraceLde<E, Self::HashFn>;
    type ConstraintEvaluator<'a, E: FieldElement<BaseField = Self::BaseField>> =
        DefaultConstraintEvaluator<'a, Self::Air, E>;

    fn get_pub_inputs(&self, trace: &Self::Trace) -> PublicInputs {
        let last_step = trace.length() - 1;
        PublicInputs {
            start: trace.get(0, 0),
            result: trace.get(0, last_step),
        }
    }

    fn options(&self) -> &ProofOptions {
        &self.options
    }

    fn new_trace_lde<E: FieldElement<BaseField = Self::BaseField>>(
        &self,
        trace_info: &TraceInfo,
        main_trace: &ColMatrix<Self::BaseField>,
        domain: &StarkDomain<Self::BaseField>,
    ) -> (Self::TraceLde<E>, TracePolyTable<E>) {
        DefaultTraceLde::new(trace_info, main_trace, domain)
    }

    fn new_evaluator<'a, E: FieldElement<BaseField = Self::BaseField>>(
        &self,
        air: &'a Self::Air,
        aux_rand_elements: Option<AuxRandElements<E>>,
        composition_coefficients: ConstraintCompositionCoefficients<E>,
    ) -> Self::ConstraintEvaluator<'a, E> {
        DefaultConstraintEvaluator::new(air, aux_rand_elements, composition_coefficients)
    }
}

// HELPERS
// ================================================================================================

fn honest_proof() -> (Proof, PublicInputs) {
    let options = ProofOptions::new(20, 8, 0, FieldExtension::None, 4, 7);
    let prover = WorkProver { options };
    let trace = build_do_work_trace(BaseElement::new(3), 64);
    let pub_inputs = prover.get_pub_inputs(&trace);
    let proof = prover.prove(trace).expect("honest proving failed");
    (proof, pub_inputs)
}

/// Serialized `Queries` layout: u32 LE value byte count | value bytes | u32 LE path byte count |
/// path bytes. Returns the same queries with the number of value rows changed by `delta` (+1: the
/// last row is duplicated at the end; -1: the last row is dropped); the Merkle paths are left
/// intact.
fn resize_query_values<Q: Serializable + Deserializable>(
    queries: &Q,
    num_rows: usize,
    delta: isize,
) -> Q {
    let bytes = queries.to_bytes();
    let num_value_bytes = u32::from_le_bytes(bytes[..4].try_into().unwrap()) as usize;
    assert_eq!(num_value_bytes % num_rows, 0, "unexpected query value layout");
    let row_bytes = num_value_bytes / num_rows;
    let values = &bytes[4..4 + num_value_bytes];
    let rest = &bytes[4 + num_value_bytes..];

    let mut new_values = values.to_vec();
    match delta {
        1 => new_values.extend_from_slice(&values[num_value_bytes - row_bytes..]),
        -1 => new_values.truncate(num_value_bytes - row_bytes),
        _ => unreachable!(),
    }

    let mut out = Vec::with_capacity(bytes.len() + row_bytes);
    out.extend_from_slice(&(new_values.len() as u32).to_le_bytes());
    out.extend_from_slice(&new_values);
    out.extend_from_slice(rest);
    Q::read_from_bytes(&out).expect("edited queries must re-parse")
}

/// Returns a copy of `proof` which claims `delta` more unique queries than the honest one, with
/// the trace and constraint query value tables resized accordingly. The edited proof is passed
/// through `to_bytes` / `from_bytes`, i.e. it is something a hostile prover can put on the wire.
fn edit_row_count(proof: &Proof, delta: isize) -> Proof {
    let n = proof.num_unique_queries as usize;
    let mut edited = proof.clone();
    edited.num_unique_queries = (n as isize + delta) as u8;
    edited.trace_queries =
        proof.trace_queries.iter().map(|q| resize_query_values(q, n, delta)).collect();
    edited.constraint_queries = resize_query_values(&proof.constraint_queries, n, delta);

    let bytes = edited.to_bytes();
    let reparsed = Proof::from_bytes(&bytes).expect("edited proof must re-parse");
    assert_eq!(reparsed, edited);
    // one row was added to / removed from each of the two value tables, nothing else changed
    let growth = bytes.len() as isize - proof.to_bytes().len() as isize;
    assert!(growth * delta > 0 && growth % 16 == 0, "unexpected size change {growth}");
    reparsed
}

fn run_verify(proof: Proof, pub_inputs: PublicInputs) -> std::thread::Result<Result<(), VerifierError>> {
    let acceptable = AcceptableOptions::MinConjecturedSecurity(0);
    catch_unwind(AssertUnwindSafe(|| verify_proof(proof, pub_inputs, &acceptable)))
}

fn verify_proof(
    proof: Proof,
    pub_inputs: PublicInputs,
    acceptable: &AcceptableOptions,
) -> Result<(), VerifierError> {
    winterfell::verify::<WorkAir, Hasher, Coin>(proof, pub_inputs, acceptable)
}

// TESTS
// ================================================================================================

#[test]
fn control_honest_proof_verifies() {
    let (proof, pub_inputs) = honest_proof();
    // also through the wire format
    let proof = Proof::from_bytes(&proof.to_bytes()).unwrap();
    let outcome = run_verify(proof, pub_inputs);
    assert!(matches!(outcome, Ok(Ok(()))), "honest proof must verify, got {outcome:?}");
}

#[test]
fn one_surplus_query_row_is_rejected_without_panic() {
    let (proof, pub_inputs) = honest_proof();
    let edited = edit_row_count(&proof, 1);
    let outcome = run_verify(edited, pub_inputs);
    match outcome {
        Err(payload) => {
            let msg = payload
                .downcast_ref::<String>()
                .cloned()
                .or_else(|| payload.downcast_ref::<&str>().map(|s| s.to_string()))
                .unwrap_or_default();
            panic!("verify PANICKED on a proof with one surplus query row: {msg}");
        },
        Ok(Ok(())) => panic!("a proof with one surplus query row was ACCEPTED"),
        Ok(Err(err)) => println!("surplus row rejected with: {err}"),
    }
}

#[test]
fn one_missing_query_row_is_rejected_without_panic() {
    let (proof, pub_inputs) = honest_proof();
    let edited = edit_row_count(&proof, -1);
    let outcome = run_verify(edited, pub_inputs);
    match outcome {
        Err(payload) => {
            let msg = payload
                .downcast_ref::<String>()
                .cloned()
                .or_else(|| payload.downcast_ref::<&str>().map(|s| s.to_string()))
                .unwrap_or_default();
            panic!("verify PANICKED on a proof with one missing query row: {msg}");
        },
        Ok(Ok(())) => panic!("a proof with one missing query row was ACCEPTED"),
        Ok(Err(err)) => println!("missing row rejected with: {err}"),
    }
}
