// The verifier must reject, with an `Err`, a proof whose options ask for at least as many queries
// as there are points in the LDE domain; it must never panic on proof bytes.
//
// `num_queries` (1..=255) and the trace length / blowup factor (hence the LDE domain size, as
// small as 8 * 2 = 16) are both taken from the proof. `RandomCoin::draw_integers` asserts
// `num_values < domain_size`, so the verifier has to rule such a combination out before it draws
// the query positions.
//
// The interesting proofs cannot be obtained by editing an honest proof (the proof context is
// hashed into the seed of the public coin, so the edited proof fails the out-of-domain consistency
// check long before the query positions are drawn - see `edited_query_count_is_rejected`), and
// they cannot be obtained from the honest prover either (it runs into the same assertion). They
// are built here the way a hostile prover would build them: by the library's prover, generic over
// the random coin, instantiated with a coin which is the default one in every respect except that
// `draw_integers` does not insist on `num_values < domain_size`. Up to the query phase such a
// proof is exactly what the verifier expects.

use std::panic::{catch_unwind, AssertUnwindSafe};

use winterfell::{
    crypto::{hashers::Blake3_256, DefaultRandomCoin, ElementHasher, Hasher, RandomCoin},
    math::{fields::f64::BaseElement, FieldElement},
    matrix::ColMatrix,
    verify, AcceptableOptions, Air, AirContext, Assertion, AuxRandElements,
    ConstraintCompositionCoefficients, DefaultConstraintEvaluator, DefaultTraceLde,
    EvaluationFrame, FieldExtension, Proof, ProofOptions, Prover, Serializable, StarkDomain,
    TraceInfo, TracePolyTable, TraceTable, TransitionConstraintDegree, VerifierError,
};

type Blake3 = Blake3_256<BaseElement>;
type HonestCoin = DefaultRandomCoin<Blake3>;

// AIR: a single column which starts at 0 and is incremented by 1 at every step
// ================================================================================================

struct CounterAir {
    context: AirContext<BaseElement>,
}

impl Air for CounterAir {
    type BaseField = BaseElement;
    type PublicInputs = ();
    type GkrProof = ();
    type GkrVerifier = ();

    fn new(trace_info: TraceInfo, _pub_inputs: (), options: ProofOptions) -> Self {
        let degrees = vec![TransitionConstraintDegree::new(1)];
        Self {
            context: AirContext::new(trace_info, degrees, 1, options),
        }
    }

    fn context(&self) -> &AirContext<BaseElement> {
        &self.context
    }

    fn evaluate_transition<E: FieldElement<BaseField = BaseElement>>(
        &self,
        frame: &EvaluationFrame<E>,
        _periodic_values: &[E],
        result: &mut [E],
    ) {
        result[0] = frame.next()[0] - frame.current()[0] - E::ONE;
    }

    fn get_assertions(&self) -> Vec<Assertion<BaseElement>> {
        vec![Assertion::single(0, 0, BaseElement::ZERO)]
    }
}

// RANDOM COIN OF A HOSTILE PROVER
// ================================================================================================

/// The default random coin, except that `draw_integers` accepts `num_values >= domain_size`.
struct LenientCoin(HonestCoin);

impl RandomCoin for LenientCoin {
    type BaseField = BaseElement;
    type Hasher = Blake3;

    fn new(seed: &[BaseElement]) -> Self {
        Self(HonestCoin::new(seed))
    }

    fn reseed(&mut self, data: <Blake3 as Hasher>::Digest) {
        self.0.reseed(data)
    }

    fn check_leading_zeros(&self, value: u64) -> u32 {
        self.0.check_leading_zeros(value)
    }

    fn draw<E: FieldElement<BaseField = BaseElement>>(
        &mut self,
    ) -> Result<E, winterfell::crypto::RandomCoinError> {
        self.0.draw()
    }

    fn draw_integers(
        &mut self,
        num_values: usize,
        domain_size: usize,
        nonce: u64,
    ) -> Result<Vec<usize>, winterfell::crypto::RandomCoinError> {
        self.0.draw_integers(num_values.min(domain_size - 1), domain_size, nonce)
    }
}

// PROVER (generic over the random coin)
// ================================================================================================

struct CounterProver<R> {
    options: ProofOptions,
    _coin: core::marker::PhantomData<R>,
}

impl<R> CounterProver<R> {
    fn new(options: ProofOptions) -> Self {
        Self {
            options,
            _coin: core::marker::PhantomData,
        }
    }
}

impl<R> Prover for CounterProver<R>
where
    R: RandomCoin<BaseField = BaseElement, Hasher = Blake3> + Send + Sync,
{
    type BaseField = BaseElement;
    type Air = CounterAir;
    type Trace = TraceTable<BaseElement>;
    type HashFn = Blake3;
    type RandomCoin = R;
    type TraceLde<E: FieldElement<BaseField = BaseElement>> = DefaultTraceLde<E, Blake3>;
    type ConstraintEvaluator<'a, E: FieldElement<BaseField = BaseElement>> =
        DefaultConstraintEvaluator<'a, CounterAir, E>;

    fn get_pub_inputs(&self, _trace: &Self::Trace) {}

    fn options(&self) -> &ProofOptions {
        &self.options
    }

    fn new_trace_lde<E: FieldElement<BaseField = BaseElement>>(
        &self,
        trace_info: &TraceInfo,
        main_trace: &ColMatrix<BaseElement>,
        domain: &StarkDomain<BaseElement>,
    ) -> (Self::TraceLde<E>, TracePolyTable<E>) {
        DefaultTraceLde::new(trace_info, main_trace, domain)
    }

    fn new_evaluator<'a, E: FieldElement<BaseField = BaseElement>>(
        &self,
        air: &'a CounterAir,
        aux_rand_elements: Option<AuxRandElements<E>>,
        composition_coefficients: ConstraintCompositionCoefficients<E>,
    ) -> Self::ConstraintEvaluator<'a, E> {
        DefaultConstraintEvaluator::new(air, aux_rand_elements, composition_coefficients)
    }
}

// HELPERS
// ================================================================================================

fn build_trace(length: usize) -> TraceTable<BaseElement> {
    let mut trace = TraceTable::new(1, length);
    trace.fill(|state| state[0] = BaseElement::ZERO, |_, state| state[0] += BaseElement::ONE);
    trace
}

fn options(num_queries: usize, blowup_factor: usize) -> ProofOptions {
    // folding factor 2, remainder of degree at most 7
    ProofOptions::new(num_queries, blowup_factor, 0, FieldExtension::None, 2, 7)
}

/// Outcome of `verify`: `Ok(result)` if it returned, `Err(message)` if it panicked.
fn verify_no_unwind(proof: Proof) -> Result<Result<(), VerifierError>, String> {
    catch_unwind(AssertUnwindSafe(|| {
        verify::<CounterAir, Blake3, HonestCoin>(
            proof,
            (),
            &AcceptableOptions::MinConjecturedSecurity(0),
        )
    }))
    .map_err(|payload| {
        payload
            .downcast_ref::<&str>()
            .map(|s| s.to_string())
            .or_else(|| payload.downcast_ref::<String>().cloned())
            .unwrap_or_else(|| "<non-string panic payload>".to_string())
    })
}

fn reparse(proof: &Proof) -> Proof {
    Proof::from_bytes(&proof.to_bytes()).expect("a serialized proof must be parsed back")
}

/// Builds a proof with the specified parameters the way a hostile prover would, sends it over the
/// wire, and checks that the verifier rejects it without panicking.
fn check_hostile_proof(trace_length: usize, blowup_factor: usize, num_queries: usize) {
    let lde_domain_size = trace_length * blowup_factor;
    assert!(num_queries >= lde_domain_size, "not a case of interest");

    let prover = CounterProver::<LenientCoin>::new(options(num_queries, blowup_factor));
    let proof = prover.prove(build_trace(trace_length)).expect("hostile prover failed");
    let proof = reparse(&proof);
    assert_eq!(proof.options().num_queries(), num_queries);
    assert_eq!(proof.lde_domain_size(), lde_domain_size);

    match verify_no_unwind(proof) {
        Ok(Err(_)) => (),
        Ok(Ok(())) => panic!(
            "{num_queries} queries over a domain of {lde_domain_size} points: proof was accepted"
        ),
        Err(message) => panic!(
            "{num_queries} queries over a domain of {lde_domain_size} points: \
            verifier panicked instead of returning an error: {message}"
        ),
    }
}

// TESTS
// ================================================================================================

/// Control: honest proofs over the same tiny domains verify, also after a trip over the wire, and
/// also when they are built with the lenient coin (it differs from the default one only where the
/// default one panics).
#[test]
fn honest_proofs_verify() {
    for (trace_length, blowup_factor, num_queries) in [(8, 2, 15), (8, 2, 1), (64, 2, 127)] {
        let proof = CounterProver::<HonestCoin>::new(options(num_queries, blowup_factor))
            .prove(build_trace(trace_length))
            .unwrap();
        assert_eq!(verify_no_unwind(reparse(&proof)), Ok(Ok(())));
        assert_eq!(verify_no_unwind(proof), Ok(Ok(())));

        let proof = CounterProver::<LenientCoin>::new(options(num_queries, blowup_factor))
            .prove(build_trace(trace_length))
            .unwrap();
        assert_eq!(verify_no_unwind(reparse(&proof)), Ok(Ok(())));
    }
}

/// Byte surgery on an honest proof: the number of queries in the serialized context is changed to
/// 255 (over a domain of 16 points). The proof must be rejected with an error.
#[test]
fn edited_query_count_is_rejected() {
    let proof = CounterProver::<HonestCoin>::new(options(15, 2)).prove(build_trace(8)).unwrap();
    let mut bytes = proof.to_bytes();

    // the options are the last thing in the serialized context, which is the first thing in the
    // serialized proof; the number of queries is the first byte of the serialized options
    let context_len = proof.context.to_bytes().len();
    let options_len = proof.options().to_bytes().len();
    let offset = context_len - options_len;
    assert_eq!(&bytes[..context_len], proof.context.to_bytes().as_slice());
    assert_eq!(&bytes[offset..context_len], proof.options().to_bytes().as_slice());
    assert_eq!(bytes[offset], 15);
    bytes[offset] = 255;

    let edited = Proof::from_bytes(&bytes).expect("the edited proof is well-formed");
    assert_eq!(edited.options().num_queries(), 255);
    assert_eq!(edited.lde_domain_size(), 16);

    match verify_no_unwind(edited) {
        Ok(Err(_)) => (),
        Ok(Ok(())) => panic!("edited proof was accepted"),
        Err(message) => panic!("verifier panicked instead of returning an error: {message}"),
    }
}

/// 255 queries over the smallest possible LDE domain (8 * 2 = 16 points).
#[test]
fn max_queries_over_smallest_domain_is_rejected() {
    check_hostile_proof(8, 2, 255);
}

/// As many queries as there are points in the LDE domain (the boundary of the assertion).
#[test]
fn as_many_queries_as_domain_points_is_rejected() {
    check_hostile_proof(8, 2, 16);
    check_hostile_proof(8, 4, 32);
}

/// 255 queries over a domain of 128 and of 256 points (one below and one above is fine).
#[test]
fn max_queries_over_larger_domains() {
    check_hostile_proof(64, 2, 255);
    check_hostile_proof(16, 8, 255);
    check_hostile_proof(16, 8, 128);

    // 255 < 256: this one is a legitimate proof
    let proof = CounterProver::<HonestCoin>::new(options(255, 2))
        .prove(build_trace(128))
        .unwrap();
    assert_eq!(verify_no_unwind(reparse(&proof)), Ok(Ok(())));
}

// make sure the helper types above are what they claim to be
#[test]
fn lenient_coin_agrees_with_default_coin() {
    let seed = [BaseElement::new(1), BaseElement::new(2)];
    let mut a = HonestCoin::new(&seed);
    let mut b = LenientCoin::new(&seed);
    let digest = Blake3::hash_elements(&seed);
    a.reseed(digest);
    b.reseed(digest);
    assert_eq!(a.draw::<BaseElement>().unwrap(), b.draw::<BaseElement>().unwrap());
    assert_eq!(a.check_leading_zeros(7), b.check_leading_zeros(7));
    assert_eq!(a.draw_integers(15, 16, 3).unwrap(), b.draw_integers(15, 16, 3).unwrap());
}
