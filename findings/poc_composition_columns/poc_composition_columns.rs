//! F26 (C01): an honest proof for a degree-2 transition constraint with exactly 2 transition exemptions must verify.
//! (AIR and prover harness adapted from the seeding agent's demonstration for C02-G.)

use winterfell::{
    crypto::{hashers::Blake3_256, DefaultRandomCoin},
    math::{fields::f128::BaseElement, FieldElement, ToElements},
    matrix::ColMatrix,
    verify, AcceptableOptions, Air, AirContext, Assertion, AuxRandElements,
    ConstraintCompositionCoefficients, DefaultConstraintEvaluator, DefaultTraceLde,
    EvaluationFrame, FieldExtension, ProofOptions, Prover, StarkDomain, TraceInfo,
    TracePolyTable, TraceTable, TransitionConstraintDegree,
};

type Hasher = Blake3_256<BaseElement>;
type Coin = DefaultRandomCoin<Hasher>;

// AIR
// ================================================================================================

#[derive(Clone, Debug)]
struct SqInputs {
    start: BaseElement,
    /// value asserted at row `n - k - 1`
    checkpoint: BaseElement,
    exemptions: u32,
}

impl ToElements<BaseElement> for SqInputs {
    fn to_elements(&self) -> Vec<BaseElement> {
        vec![self.start, self.checkpoint, BaseElement::from(self.exemptions)]
    }
}

struct SqAir {
    context: AirContext<BaseElement>,
    inputs: SqInputs,
}

impl Air for SqAir {
    type BaseField = BaseElement;
    type PublicInputs = SqInputs;
    type GkrProof = ();
    type GkrVerifier = ();

    fn new(trace_info: TraceInfo, inputs: SqInputs, options: ProofOptions) -> Self {
        let degrees = vec![TransitionConstraintDegree::new(2)];
        let context = AirContext::new(trace_info, degrees, 2, options)
            .set_num_transition_exemptions(inputs.exemptions as usize);
        Self { context, inputs }
    }

    fn context(&self) -> &AirContext<BaseElement> {
        &self.context
    }

    fn evaluate_transition<E: FieldElement<BaseField = BaseElement>>(
        &self,
        frame: &EvaluationFrame<E>,
        _periodic_values: &[E],
        result: &mut [E],
    ) {
        let cur = frame.current()[0];
        let next = frame.next()[0];
        result[0] = next - (cur * cur + E::ONE);
    }

    fn get_assertions(&self) -> Vec<Assertion<BaseElement>> {
        let n = self.trace_length();
        let k = self.inputs.exemptions as usize;
        vec![
            Assertion::single(0, 0, self.inputs.start),
            Assertion::single(0, n - k - 1, self.inputs.checkpoint),
        ]
    }
}

// PROVER
// ================================================================================================

struct SqProver {
    options: ProofOptions,
    inputs: SqInputs,
}

impl Prover for SqProver {
    type BaseField = BaseElement;
    type Air = SqAir;
    type Trace = TraceTable<BaseElement>;
    type HashFn = Hasher;
    type RandomCoin = Coin;
    type TraceLde<E: FieldElement<BaseField = BaseElement>> = DefaultTraceLde<E, Hasher>;
    type ConstraintEvaluator<'a, E: FieldElement<BaseField = BaseElement>> =
        DefaultConstraintEvaluator<'a, SqAir, E>;

    fn get_pub_inputs(&self, _trace: &Self::Trace) -> SqInputs {
        self.inputs.clone()
    }

    fn options(&self) -> &ProofOptions {
        &self.options
    }

    fn new_trace_lde<E: FieldElement<BaseField = BaseElement>>(
        &self,
        trace_info: &TraceInfo,
        main_trace: &ColMatrix<BaseElement>,
        domain: &StarkDomain<BaseElement>,
    ) -> (Self::TraceLde<E>, TracePolyTable<E>) {
        DefaultTraceLde::new(trace_info, main_trace, domain)
    }

    fn new_evaluator<'a, E: FieldElement<BaseField = BaseElement>>(
        &self,
        air: &'a SqAir,
        aux_rand_elements: Option<AuxRandElements<E>>,
        composition_coefficients: ConstraintCompositionCoefficients<E>,
    ) -> Self::ConstraintEvaluator<'a, E> {
        DefaultConstraintEvaluator::new(air, aux_rand_elements, composition_coefficients)
    }
}

// HARNESS
// ================================================================================================

fn step(x: BaseElement) -> BaseElement {
    x * x + BaseElement::ONE
}

/// Honest execution from `start`, restarted from `restart_value` at row `restart_row` (if any).
fn build_column(n: usize, start: BaseElement, restart: Option<(usize, BaseElement)>) -> Vec<BaseElement> {
    let mut col = Vec::with_capacity(n);
    col.push(start);
    for i in 1..n {
        match restart {
            Some((r, v)) if r == i => col.push(v),
            _ => col.push(step(col[i - 1])),
        }
    }
    col
}

/// Reference validity predicate (independent of the library): all non-exempt transitions hold and
/// both assertions hold.
fn is_valid(col: &[BaseElement], inputs: &SqInputs) -> bool {
    let n = col.len();
    let k = inputs.exemptions as usize;
    let transitions_ok = (0..n - k).all(|i| col[i + 1] == step(col[i]));
    transitions_ok && col[0] == inputs.start && col[n - k - 1] == inputs.checkpoint
}

fn prove_and_verify(col: Vec<BaseElement>, inputs: &SqInputs, options: &ProofOptions) -> bool {
    let trace = TraceTable::init(vec![col]);
    let prover = SqProver { options: options.clone(), inputs: inputs.clone() };
    let proof = match prover.prove(trace) {
        Ok(proof) => proof,
        Err(_) => return false,
    };
    let acceptable = AcceptableOptions::OptionSet(vec![options.clone()]);
    verify::<SqAir, Hasher, Coin>(proof, inputs.clone(), &acceptable).is_ok()
}


fn honest_accepted(n: usize, k: usize) -> bool {
    let options = ProofOptions::new(32, 8, 0, FieldExtension::None, 4, 7);
    let start = BaseElement::new(3);
    let honest = build_column(n, start, None);
    let inputs = SqInputs { start, checkpoint: honest[n - k - 1], exemptions: k as u32 };
    assert!(is_valid(&honest, &inputs));
    prove_and_verify(honest, &inputs, &options)
}

#[test]
fn honest_proof_k1() {
    assert!(honest_accepted(16, 1));
}

#[test]
fn honest_proof_k2_degree2() {
    // composition polynomial degree = 2(n-1) - (n-2) = n: needs n + 1 coefficients, i.e. two columns
    assert!(honest_accepted(16, 2), "honest proof with 2 exemptions and a degree-2 constraint rejected");
}

#[test]
fn honest_proof_k3() {
    assert!(honest_accepted(16, 3));
}
