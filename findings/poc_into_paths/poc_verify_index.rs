use math::fields::f128::BaseElement;
use winter_crypto::{hashers::Blake3_256, Hasher, MerkleTree};
type H = Blake3_256<BaseElement>;
#[test]
fn verify_huge_index_is_an_error_not_a_panic() {
    let leaves: Vec<<H as Hasher>::Digest> = (0..8u8).map(|i| H::hash(&[i])).collect();
    let tree = MerkleTree::<H>::new(leaves).unwrap();
    let path = tree.prove(3).unwrap();
    assert!(MerkleTree::<H>::verify(*tree.root(), 3, &path).is_ok());
    let r = MerkleTree::<H>::verify(*tree.root(), usize::MAX, &path);
    assert!(r.is_err());
}
