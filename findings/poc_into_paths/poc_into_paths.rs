use winter_crypto::{hashers::Blake3_256, BatchMerkleProof, MerkleTree};
use math::fields::f128::BaseElement;
type H = Blake3_256<BaseElement>;
#[test]
fn into_paths_huge_index() {
    let leaves: Vec<<H as winter_crypto::Hasher>::Digest> = (0..8u8).map(|i| <H as winter_crypto::Hasher>::hash(&[i])).collect();
    let tree = MerkleTree::<H>::new(leaves).unwrap();
    let proof: BatchMerkleProof<H> = tree.prove_batch(&[3]).unwrap();
    let r = proof.into_paths(&[usize::MAX]);
    assert!(r.is_err());
}
