use math::fields::f128::BaseElement;
use winter_crypto::{hashers::Blake3_256, BatchMerkleProof, Hasher, MerkleTree};
type H = Blake3_256<BaseElement>;
#[test]
fn recompress_unsorted_positions() {
    let leaves: Vec<<H as Hasher>::Digest> = (0..8u8).map(|i| H::hash(&[i])).collect();
    let tree = MerkleTree::<H>::new(leaves).unwrap();
    for idx in [vec![2usize, 5], vec![5usize, 2], vec![7, 0, 3]] {
        let proof = tree.prove_batch(&idx).unwrap();
        assert!(MerkleTree::<H>::verify_batch(tree.root(), &idx, &proof).is_ok());
        let paths = tree.prove_batch(&idx).unwrap().into_paths(&idx).unwrap();
        for (p, &i) in paths.iter().zip(idx.iter()) {
            assert!(MerkleTree::<H>::verify(*tree.root(), i, p).is_ok());
        }
        let again = BatchMerkleProof::<H>::from_paths(&paths, &idx);
        let same = again.leaves == proof.leaves && again.nodes == proof.nodes && again.depth == proof.depth;
        let verifies = MerkleTree::<H>::verify_batch(tree.root(), &idx, &again).is_ok();
        println!("{idx:?}: recompressed == original: {same}; recompressed verifies: {verifies}");
        assert!(same && verifies, "positions {idx:?}");
    }
}
