use std::io::Read;
use winter_utils::{ByteReader, ReadAdapter, SliceReader, DeserializationError};

struct Chunked<'a> { data: &'a [u8], pos: usize, chunks: Vec<usize>, ci: usize }
impl<'a> Read for Chunked<'a> {
    fn read(&mut self, buf: &mut [u8]) -> std::io::Result<usize> {
        if self.pos >= self.data.len() { return Ok(0); }
        let c = self.chunks[self.ci % self.chunks.len()].max(1); self.ci += 1;
        let n = c.min(buf.len()).min(self.data.len() - self.pos);
        buf[..n].copy_from_slice(&self.data[self.pos..self.pos + n]);
        self.pos += n; Ok(n)
    }
}
struct Rng(u64);
impl Rng { fn next(&mut self) -> u64 { self.0 ^= self.0 << 13; self.0 ^= self.0 >> 7; self.0 ^= self.0 << 17; self.0 } }

fn main() {
    let mut rng = Rng(0x9E3779B97F4A7C15);
    let mut mism = 0; let mut total = 0;
    for iter in 0..20000 {
        let len = (rng.next() % 1200) as usize;
        let data: Vec<u8> = (0..len).map(|_| rng.next() as u8).collect();
        let nch = 1 + (rng.next() % 4) as usize;
        let chunks: Vec<usize> = (0..nch).map(|_| match rng.next() % 4 { 0 => 1, 1 => (rng.next() % 16) as usize + 1, 2 => (rng.next() % 300) as usize + 1, _ => 256 }).collect();
        let mut src = Chunked { data: &data, pos: 0, chunks: chunks.clone(), ci: 0 };
        let mut a = ReadAdapter::new(&mut src);
        let mut s = SliceReader::new(&data);
        let mut log = vec![];
        for _ in 0..(rng.next() % 60) {
            let op = rng.next() % 11;
            let (ra, rs): (String, String) = match op {
                0 => (format!("{:?}", a.read_u8()), format!("{:?}", s.read_u8())),
                1 => (format!("{:?}", a.peek_u8()), format!("{:?}", s.peek_u8())),
                2 => (format!("{:?}", a.read_u16()), format!("{:?}", s.read_u16())),
                3 => (format!("{:?}", a.read_u32()), format!("{:?}", s.read_u32())),
                4 => (format!("{:?}", a.read_u64()), format!("{:?}", s.read_u64())),
                5 => (format!("{:?}", a.read_u128()), format!("{:?}", s.read_u128())),
                6 => { let n = (rng.next() % 400) as usize; (format!("{:?}", a.read_slice(n).map(|x| x.to_vec())), format!("{:?}", s.read_slice(n).map(|x| x.to_vec()))) },
                7 => (format!("{:?}", a.has_more_bytes()), format!("{:?}", s.has_more_bytes())),
                8 => { let n = (rng.next() % 40) as usize; (format!("{:?}", a.read_vec(n)), format!("{:?}", s.read_vec(n))) },
                9 => (format!("{:?}", a.read_array::<33>()), format!("{:?}", s.read_array::<33>())),
                _ => { // check_eor: adapter may be optimistic (Ok) when slice says Err, never the reverse
                    let n = (rng.next() % 300) as usize;
                    let ra = a.check_eor(n); let rs = s.check_eor(n);
                    if rs.is_ok() && ra.is_err() { (format!("{:?}", ra), format!("{:?}", rs)) } else { (String::new(), String::new()) }
                },
            };
            total += 1;
            log.push((op, ra.clone(), rs.clone()));
            if ra != rs {
                mism += 1;
                if mism < 6 { println!("MISMATCH iter {iter} chunks {:?} len {len} op {op}: adapter={} slice={} (after {} ops)", chunks, &ra[..ra.len().min(80)], &rs[..rs.len().min(80)], log.len()); }
                break;
            }
            if ra.starts_with("Err") { break; }
        }
    }
    println!("total ops {total} mismatches {mism}");
    let _ = DeserializationError::UnexpectedEOF;
}
