// Regression test: a proof which carries a GKR proof component although the AIR has no Lagrange
// kernel auxiliary column must be rejected by the verifier.
//
// `Proof::gkr_proof` is only consumed by the verifier when the AIR declares a Lagrange kernel
// column. For every other AIR the component is bound to nothing (it is neither hashed into the
// public coin nor checked), so an honest proof with an arbitrary `Some(bytes)` attached must not
// verify: otherwise many distinct byte strings are accepted as "the same" proof (malleability).
//
// Two AIRs are exercised:
//   * `WorkAir`  - single-segment trace (no auxiliary segment at all);
//   * `AuxAir`   - two-segment trace with an auxiliary column but NO Lagrange kernel column.
// For each, the edit is applied both through the public field of `Proof` and by byte surgery on
// `Proof::to_bytes()` followed by `Proof::from_bytes()`.

use std::panic::{catch_unwind, AssertUnwindSafe};

use winterfell::{
    crypto::{hashers::Blake3_256, DefaultRandomCoin},
    math::{fields::f128::BaseElement, ExtensionOf, FieldElement, ToElements},
    matrix::ColMatrix,
    AcceptableOptions, Air, AirContext, Assertion, AuxRandElements,
    ConstraintCompositionCoefficients, DefaultConstraintEvaluator, DefaultTraceLde,
    EvaluationFrame, FieldExtension, Proof, ProofOptions, Prover, StarkDomain, Trace, TraceInfo,
    TracePolyTable, TraceTable, TransitionConstraintDegree, VerifierError,
};

type Hasher = Blake3_256<BaseElement>;
type Coin = DefaultRandomCoin<Hasher>;

const UNSOLICITED_GKR_PROOF: [u8; 3] = [1, 2, 3];

// HELPERS
// ================================================================================================

fn options() -> ProofOptions {
    ProofOptions::new(32, 8, 0, FieldExtension::None, 8, 31)
}

fn acceptable() -> AcceptableOptions {
    AcceptableOptions::MinConjecturedSecurity(95)
}

/// Returns a copy of `proof` (round-tripped through bytes, as `Proof` is not required to be
/// `Clone` by this test).
fn copy(proof: &Proof) -> Proof {
    Proof::from_bytes(&proof.to_bytes()).expect("honest proof must round-trip")
}

/// Attaches the unsolicited GKR proof through the public field.
fn edit_via_field(proof: &Proof) -> Proof {
    let mut edited = copy(proof);
    assert!(edited.gkr_proof.is_none(), "honest proof for this AIR must not carry a GKR proof");
    edited.gkr_proof = Some(UNSOLICITED_GKR_PROOF.to_vec());
    edited
}

/// Attaches the unsolicited GKR proof by rewriting the tail of the serialized proof: the honest
/// encoding ends with the `None` tag (a single 0 byte) of `Option<Vec<u8>>`; it is replaced by
/// the encoding of `Some(vec![1, 2, 3])` produced by the library's own serializer.
fn edit_via_bytes(proof: &Proof) -> Proof {
    use winterfell::Serializable;

    let mut bytes = proof.to_bytes();
    let none_encoding = Option::<Vec<u8>>::None.to_bytes();
    let some_encoding = Some(UNSOLICITED_GKR_PROOF.to_vec()).to_bytes();
    assert!(bytes.ends_with(&none_encoding), "honest proof must end with an absent GKR proof");
    bytes.truncate(bytes.len() - none_encoding.len());
    bytes.extend_from_slice(&some_encoding);

    let edited = Proof::from_bytes(&bytes).expect("edited bytes must still parse as a Proof");
    assert_eq!(edited.gkr_proof.as_deref(), Some(&UNSOLICITED_GKR_PROOF[..]));
    assert_ne!(edited.to_bytes(), proof.to_bytes(), "edited proof must differ from the honest one");
    edited
}

/// Asserts the correct behaviour: `verify` neither panics nor accepts.
fn assert_rejected(label: &str, outcome: std::thread::Result<Result<(), VerifierError>>) {
    match outcome {
        Err(_) => panic!("{label}: verify() panicked on a proof with an unsolicited GKR proof"),
        Ok(Ok(())) => panic!(
            "{label}: verify() ACCEPTED a proof carrying gkr_proof = Some([1, 2, 3]) although \
             the AIR has no Lagrange kernel column"
        ),
        Ok(Err(err)) => println!("{label}: rejected with {err:?}"),
    }
}

// SINGLE-SEGMENT AIR (the "do work" example of the crate documentation)
// ================================================================================================

struct WorkInputs {
    start: BaseElement,
    result: BaseElement,
}

impl ToElements<BaseElement> for WorkInputs {
    fn to_elements(&self) -> Vec<BaseElement> {
        vec![self.start, self.result]
    }
}

struct WorkAir {
    context: AirContext<BaseElement>,
    start: BaseElement,
    result: BaseElement,
}

impl Air for WorkAir {
    type BaseField = BaseElement;
    type PublicInputs = WorkInputs;
    type GkrProof = ();
    type GkrVerifier = ();

    fn new(trace_info: TraceInfo, pub_inputs: WorkInputs, options: ProofOptions) -> Self {
        let degrees = vec![TransitionConstraintDegree::new(3)];
        WorkAir {
            context: AirContext::new(trace_info, degrees, 2, options),
            start: pub_inputs.start,
            result: pub_inputs.result,
        }
    }

    fn evaluate_transition<E: FieldElement + From<Self::BaseField>>(
        &self,
        frame: &EvaluationFrame<E>,
        _periodic_values: &[E],
        result: &mut [E],
    ) {
        let next_state = frame.current()[0].exp(3u32.into()) + E::from(42u32);
        result[0] = frame.next()[0] - next_state;
    }

    fn get_assertions(&self) -> Vec<Assertion<Self::BaseField>> {
        let last_step = self.trace_length() - 1;
        vec![Assertion::single(0, 0, self.start), Assertion::single(0, last_step, self.result)]
    }

    fn context(&self) -> &AirContext<Self::BaseField> {
        &self.context
    }
}

struct WorkProver {
    options: ProofOptions,
}

impl Prover for WorkProver {
    type BaseField = BaseElement;
    type Air = WorkAir;
    type Trace = TraceTable<BaseElement>;
    type HashFn = Hasher;
    type RandomCoin = Coin;
    type TraceLde<E: FieldElement<BaseField = BaseElement>> = DefaultTraceLde<E, Hasher>;
    type ConstraintEvaluator<'a, E: FieldElement<BaseField = BaseElement>> =
        DefaultConstraintEvaluator<'a, WorkAir, E>;

    fn get_pub_inputs(&self, trace: &Self::Trace) -> WorkInputs {
        let last_step = trace.length() - 1;
        WorkInputs {
            start: trace.get(0, 0),
            result: trace.get(0, last_step),
        }
    }

    fn options(&self) -> &ProofOptions {
        &self.options
    }

    fn new_trace_lde<E: FieldElement<BaseField = BaseElement>>(
        &self,
        trace_info: &TraceInfo,
        main_trace: &ColMatrix<BaseElement>,
        domain: &StarkDomain<BaseElement>,
    ) -> (Self::TraceLde<E>, TracePolyTable<E>) {
        DefaultTraceLde::new(trace_info, main_trace, domain)
    }

    fn new_evaluator<'a, E: FieldElement<BaseField = BaseElement>>(
        &self,
        air: &'a WorkAir,
        aux_rand_elements: Option<AuxRandElements<E>>,
        composition_coefficients: ConstraintCompositionCoefficients<E>,
    ) -> Self::ConstraintEvaluator<'a, E> {
        DefaultConstraintEvaluator::new(air, aux_rand_elements, composition_coefficients)
    }
}

fn work_proof() -> (Proof, BaseElement, BaseElement) {
    let start = BaseElement::new(3);
    let n = 1024;
    let mut trace = TraceTable::new(1, n);
    trace.fill(
        |state| state[0] = start,
        |_, state| state[0] = state[0].exp(3u32.into()) + BaseElement::new(42),
    );
    let result = trace.get(0, n - 1);
    let proof = WorkProver { options: options() }.prove(trace).expect("honest proving failed");
    (proof, start, result)
}

fn verify_work(
    proof: Proof,
    start: BaseElement,
    result: BaseElement,
) -> std::thread::Result<Result<(), VerifierError>> {
    catch_unwind(AssertUnwindSafe(|| {
        winterfell::verify::<WorkAir, Hasher, Coin>(
            proof,
            WorkInputs { start, result },
            &acceptable(),
        )
    }))
}

#[test]
fn single_segment_control_honest_proof_verifies() {
    let (proof, start, result) = work_proof();
    assert!(proof.gkr_proof.is_none());
    let outcome = verify_work(copy(&proof), start, result).expect("verify() panicked");
    assert_eq!(outcome, Ok(()), "honest proof must verify");
    // also after a serialization round trip which does not change anything
    let outcome = verify_work(proof, start, result).expect("verify() panicked");
    assert_eq!(outcome, Ok(()), "honest proof must verify");
}

#[test]
fn single_segment_unsolicited_gkr_proof_set_via_field_is_rejected() {
    let (proof, start, result) = work_proof();
    let edited = edit_via_field(&proof);
    assert_rejected("single-segment/field", verify_work(edited, start, result));
}

#[test]
fn single_segment_unsolicited_gkr_proof_set_via_bytes_is_rejected() {
    let (proof, start, result) = work_proof();
    let edited = edit_via_bytes(&proof);
    assert_rejected("single-segment/bytes", verify_work(edited, start, result));
}

// TWO-SEGMENT AIR WITHOUT A LAGRANGE KERNEL COLUMN
// ================================================================================================
// main column: 0, 1, 2, ...; auxiliary column: r * main where r is the auxiliary random element.

#[derive(Clone, Debug)]
struct AuxTrace {
    main_trace: ColMatrix<BaseElement>,
    info: TraceInfo,
}

impl AuxTrace {
    fn new(trace_len: usize) -> Self {
        let column: Vec<BaseElement> = (0..trace_len).map(|i| BaseElement::from(i as u32)).collect();
        Self {
            main_trace: ColMatrix::new(vec![column]),
            info: TraceInfo::new_multi_segment(1, 1, 1, trace_len, vec![]),
        }
    }
}

impl Trace for AuxTrace {
    type BaseField = BaseElement;

    fn info(&self) -> &TraceInfo {
        &self.info
    }

    fn main_segment(&self) -> &ColMatrix<BaseElement> {
        &self.main_trace
    }

    fn read_main_frame(&self, row_idx: usize, frame: &mut EvaluationFrame<BaseElement>) {
        let next_row_idx = (row_idx + 1) % self.main_trace.num_rows();
        self.main_trace.read_row_into(row_idx, frame.current_mut());
        self.main_trace.read_row_into(next_row_idx, frame.next_mut());
    }
}

struct AuxAir {
    context: AirContext<BaseElement>,
}

impl Air for AuxAir {
    type BaseField = BaseElement;
    type PublicInputs = ();
    type GkrProof = ();
    type GkrVerifier = ();

    fn new(trace_info: TraceInfo, _pub_inputs: (), options: ProofOptions) -> Self {
        Self {
            context: AirContext::new_multi_segment(
                trace_info,
                vec![TransitionConstraintDegree::new(1)],
                vec![TransitionConstraintDegree::new(1)],
                1,
                1,
                None, // no Lagrange kernel column
                options,
            ),
        }
    }

    fn context(&self) -> &AirContext<BaseElement> {
        &self.context
    }

    fn evaluate_transition<E: FieldElement<BaseField = BaseElement>>(
        &self,
        frame: &EvaluationFrame<E>,
        _periodic_values: &[E],
        result: &mut [E],
    ) {
        result[0] = frame.next()[0] - frame.current()[0] - E::ONE;
    }

    fn get_assertions(&self) -> Vec<Assertion<BaseElement>> {
        vec![Assertion::single(0, 0, BaseElement::ZERO)]
    }

    fn evaluate_aux_transition<F, E>(
        &self,
        _main_frame: &EvaluationFrame<F>,
        aux_frame: &EvaluationFrame<E>,
        _periodic_values: &[F],
        aux_rand_elements: &[E],
        result: &mut [E],
    ) where
        F: FieldElement<BaseField = BaseElement>,
        E: FieldElement<BaseField = BaseElement> + ExtensionOf<F>,
    {
        result[0] = aux_frame.next()[0] - aux_frame.current()[0] - aux_rand_elements[0];
    }

    fn get_aux_assertions<E: FieldElement<BaseField = BaseElement>>(
        &self,
        _aux_rand_elements: &[E],
    ) -> Vec<Assertion<E>> {
        vec![Assertion::single(0, 0, E::ZERO)]
    }
}

struct AuxProver {
    options: ProofOptions,
}

impl Prover for AuxProver {
    type BaseField = BaseElement;
    type Air = AuxAir;
    type Trace = AuxTrace;
    type HashFn = Hasher;
    type RandomCoin = Coin;
    type TraceLde<E: FieldElement<BaseField = BaseElement>> = DefaultTraceLde<E, Hasher>;
    type ConstraintEvaluator<'a, E: FieldElement<BaseField = BaseElement>> =
        DefaultConstraintEvaluator<'a, AuxAir, E>;

    fn get_pub_inputs(&self, _trace: &Self::Trace) {}

    fn options(&self) -> &ProofOptions {
        &self.options
    }

    fn new_trace_lde<E: FieldElement<BaseField = BaseElement>>(
        &self,
        trace_info: &TraceInfo,
        main_trace: &ColMatrix<BaseElement>,
        domain: &StarkDomain<BaseElement>,
    ) -> (Self::TraceLde<E>, TracePolyTable<E>) {
        DefaultTraceLde::new(trace_info, main_trace, domain)
    }

    fn new_evaluator<'a, E: FieldElement<BaseField = BaseElement>>(
        &self,
        air: &'a AuxAir,
        aux_rand_elements: Option<AuxRandElements<E>>,
        composition_coefficients: ConstraintCompositionCoefficients<E>,
    ) -> Self::ConstraintEvaluator<'a, E> {
        DefaultConstraintEvaluator::new(air, aux_rand_elements, composition_coefficients)
    }

    fn build_aux_trace<E: FieldElement<BaseField = BaseElement>>(
        &self,
        main_trace: &Self::Trace,
        aux_rand_elements: &AuxRandElements<E>,
    ) -> ColMatrix<E> {
        let r = aux_rand_elements.rand_elements()[0];
        let column = main_trace
            .main_segment()
            .get_column(0)
            .iter()
            .map(|value| r.mul_base(*value))
            .collect();
        ColMatrix::new(vec![column])
    }
}

fn aux_proof() -> Proof {
    AuxProver { options: options() }
        .prove(AuxTrace::new(1024))
        .expect("honest proving failed")
}

fn verify_aux(proof: Proof) -> std::thread::Result<Result<(), VerifierError>> {
    catch_unwind(AssertUnwindSafe(|| {
        winterfell::verify::<AuxAir, Hasher, Coin>(proof, (), &acceptable())
    }))
}

#[test]
fn aux_segment_control_honest_proof_verifies() {
    let proof = aux_proof();
    assert!(proof.gkr_proof.is_none());
    let outcome = verify_aux(proof).expect("verify() panicked");
    assert_eq!(outcome, Ok(()), "honest proof must verify");
}

#[test]
fn aux_segment_unsolicited_gkr_proof_set_via_field_is_rejected() {
    let edited = edit_via_field(&aux_proof());
    assert_rejected("aux-segment/field", verify_aux(edited));
}

#[test]
fn aux_segment_unsolicited_gkr_proof_set_via_bytes_is_rejected() {
    let edited = edit_via_bytes(&aux_proof());
    assert_rejected("aux-segment/bytes", verify_aux(edited));
}
