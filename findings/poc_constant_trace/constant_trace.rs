//! Completeness on degenerate-but-valid traces: constant columns.
//!
//! A trace whose columns are constant satisfies `x' = x` and any assertion that names the
//! constant, so the honest prover must produce a proof and the verifier must accept it (also after
//! a serialization round trip). Every case runs the whole pipeline under `catch_unwind`, so a
//! panic anywhere in the prover or verifier is reported as a failure of that case, together with
//! the panic message and the source location it came from.

use std::{
    cell::RefCell,
    panic::{self, AssertUnwindSafe},
    sync::Once,
};

use winterfell::{
    crypto::{hashers::Blake3_256, DefaultRandomCoin},
    math::{fields::f128::BaseElement, FieldElement, ToElements},
    matrix::ColMatrix,
    verify, AcceptableOptions, Air, AirContext, Assertion, AuxRandElements,
    ConstraintCompositionCoefficients, DefaultConstraintEvaluator, DefaultTraceLde,
    EvaluationFrame, FieldExtension, Proof, ProofOptions, Prover, StarkDomain, TraceInfo,
    TracePolyTable, TraceTable, TransitionConstraintDegree,
};

const TRACE_LENGTH: usize = 64;
const CONSTANT: u128 = 3;

type Hasher = Blake3_256<BaseElement>;
type Coin = DefaultRandomCoin<Hasher>;

fn options() -> ProofOptions {
    ProofOptions::new(20, 8, 0, FieldExtension::None, 4, 7)
}

// COMPUTATION
// ================================================================================================

/// What is asserted about every constant column.
#[derive(Clone, Copy, Debug, PartialEq, Eq)]
enum ConstAssertion {
    /// `Assertion::single(col, 0, 3)`
    Single,
    /// `Assertion::sequence(col, 0, 8, [3; 8])`
    Sequence,
}

/// Shape of the computation; doubles as the public inputs.
///
/// Columns `0..num_const` obey `x' = x`; if `counter` is set, one more column obeys `c' = c + 1`
/// and is asserted to be 0 at step 0 and `TRACE_LENGTH - 1` at the last step.
#[derive(Clone, Copy, Debug)]
struct Shape {
    num_const: usize,
    counter: bool,
    assertion: ConstAssertion,
}

impl Shape {
    fn width(&self) -> usize {
        self.num_const + usize::from(self.counter)
    }

    fn build_trace(&self) -> TraceTable<BaseElement> {
        let mut columns = Vec::new();
        for _ in 0..self.num_const {
            columns.push(vec![BaseElement::new(CONSTANT); TRACE_LENGTH]);
        }
        if self.counter {
            columns.push((0..TRACE_LENGTH as u128).map(BaseElement::new).collect());
        }
        TraceTable::init(columns)
    }
}

impl ToElements<BaseElement> for Shape {
    fn to_elements(&self) -> Vec<BaseElement> {
        vec![
            BaseElement::new(self.num_const as u128),
            BaseElement::new(self.counter as u128),
            BaseElement::new(self.assertion as u128),
        ]
    }
}

struct ShapeAir {
    context: AirContext<BaseElement>,
    shape: Shape,
}

impl Air for ShapeAir {
    type BaseField = BaseElement;
    type PublicInputs = Shape;
    type GkrProof = ();
    type GkrVerifier = ();

    fn new(trace_info: TraceInfo, shape: Shape, options: ProofOptions) -> Self {
        assert_eq!(shape.width(), trace_info.width());
        let degrees = vec![TransitionConstraintDegree::new(1); shape.width()];
        let num_assertions = shape.num_const + 2 * usize::from(shape.counter);
        ShapeAir {
            context: AirContext::new(trace_info, degrees, num_assertions, options),
            shape,
        }
    }

    fn evaluate_transition<E: FieldElement + From<Self::BaseField>>(
        &self,
        frame: &EvaluationFrame<E>,
        _periodic_values: &[E],
        result: &mut [E],
    ) {
        let (current, next) = (frame.current(), frame.next());
        for i in 0..self.shape.num_const {
            result[i] = next[i] - current[i];
        }
        if self.shape.counter {
            let i = self.shape.num_const;
            result[i] = next[i] - current[i] - E::ONE;
        }
    }

    fn get_assertions(&self) -> Vec<Assertion<Self::BaseField>> {
        let value = BaseElement::new(CONSTANT);
        let mut assertions = Vec::new();
        for column in 0..self.shape.num_const {
            assertions.push(match self.shape.assertion {
                ConstAssertion::Single => Assertion::single(column, 0, value),
                ConstAssertion::Sequence => Assertion::sequence(column, 0, 8, vec![value; 8]),
            });
        }
        if self.shape.counter {
            let column = self.shape.num_const;
            let last_step = self.trace_length() - 1;
            assertions.push(Assertion::single(column, 0, BaseElement::ZERO));
            assertions.push(Assertion::single(column, last_step, BaseElement::new(last_step as u128)));
        }
        assertions
    }

    fn context(&self) -> &AirContext<Self::BaseField> {
        &self.context
    }
}

struct ShapeProver {
    options: ProofOptions,
    shape: Shape,
}

impl Prover for ShapeProver {
    type BaseField = BaseElement;
    type Air = ShapeAir;
    type Trace = TraceTable<BaseElement>;
    type HashFn = Hasher;
    type RandomCoin = Coin;
    type TraceLde<E: FieldElement<BaseField = Self::BaseField>> = DefaultTraceLde<E, Self::HashFn>;
    type ConstraintEvaluator<'a, E: FieldElement<BaseField = Self::BaseField>> =
        DefaultConstraintEvaluator<'a, Self::Air, E>;

    fn get_pub_inputs(&self, _trace: &Self::Trace) -> Shape {
        self.shape
    }

    fn options(&self) -> &ProofOptions {
        &self.options
    }

    fn new_trace_lde<E: FieldElement<BaseField = Self::BaseField>>(
        &self,
        trace_info: &TraceInfo,
        main_trace: &ColMatrix<Self::BaseField>,
        domain: &StarkDomain<Self::BaseField>,
    ) -> (Self::TraceLde<E>, TracePolyTable<E>) {
        DefaultTraceLde::new(trace_info, main_trace, domain)
    }

    fn new_evaluator<'a, E: FieldElement<BaseField = Self::BaseField>>(
        &self,
        air: &'a Self::Air,
        aux_rand_elements: Option<AuxRandElements<E>>,
        composition_coefficients: ConstraintCompositionCoefficients<E>,
    ) -> Self::ConstraintEvaluator<'a, E> {
        DefaultConstraintEvaluator::new(air, aux_rand_elements, composition_coefficients)
    }
}

// PANIC CAPTURE
// ================================================================================================

thread_local! {
    /// Message and location of the last panic raised on this thread.
    static LAST_PANIC: RefCell<Option<String>> = const { RefCell::new(None) };
}

/// Installs (once) a panic hook which records `message @ file:line` of a panic for the panicking
/// thread, and then defers to the previously installed hook.
fn install_panic_recorder() {
    static ONCE: Once = Once::new();
    ONCE.call_once(|| {
        let previous = panic::take_hook();
        panic::set_hook(Box::new(move |info| {
            let payload = info.payload();
            let message = if let Some(s) = payload.downcast_ref::<&str>() {
                (*s).to_string()
            } else if let Some(s) = payload.downcast_ref::<String>() {
                s.clone()
            } else {
                "<non-string panic payload>".to_string()
            };
            let location = info
                .location()
                .map(|l| format!("{}:{}", l.file(), l.line()))
                .unwrap_or_else(|| "<unknown location>".to_string());
            let message = message.replace('\n', " ");
            LAST_PANIC.with(|slot| *slot.borrow_mut() = Some(format!("{message} @ {location}")));
            previous(info);
        }));
    });
}

/// Runs `f`, turning a panic into `Err("<stage> panicked: <message> @ <file:line>")`.
fn guarded<T>(stage: &str, f: impl FnOnce() -> T) -> Result<T, String> {
    install_panic_recorder();
    LAST_PANIC.with(|slot| *slot.borrow_mut() = None);
    panic::catch_unwind(AssertUnwindSafe(f)).map_err(|_| {
        let details = LAST_PANIC
            .with(|slot| slot.borrow_mut().take())
            .unwrap_or_else(|| "<panic on another thread>".to_string());
        format!("{stage} panicked: {details}")
    })
}

// CASE RUNNER
// ================================================================================================

/// prove -> verify -> serialize -> deserialize -> verify; reports the first stage that fails.
fn run_case(shape: Shape) -> Result<(), String> {
    let acceptable = AcceptableOptions::OptionSet(vec![options()]);

    let proof = guarded("prove", || {
        let prover = ShapeProver { options: options(), shape };
        prover.prove(shape.build_trace())
    })?
    .map_err(|err| format!("prove returned an error: {err}"))?;

    let bytes = proof.to_bytes();

    guarded("verify", || verify::<ShapeAir, Hasher, Coin>(proof, shape, &acceptable))?
        .map_err(|err| format!("verify rejected the proof: {err}"))?;

    let restored = guarded("Proof::from_bytes", || Proof::from_bytes(&bytes))?
        .map_err(|err| format!("Proof::from_bytes failed: {err}"))?;
    if restored.to_bytes() != bytes {
        return Err("proof bytes changed across a serialization round trip".to_string());
    }

    guarded("verify (round-tripped proof)", || {
        verify::<ShapeAir, Hasher, Coin>(restored, shape, &acceptable)
    })?
    .map_err(|err| format!("verify rejected the round-tripped proof: {err}"))?;

    Ok(())
}

fn check(name: &str, shape: Shape) {
    let profile = if cfg!(debug_assertions) { "debug" } else { "release" };
    match run_case(shape) {
        Ok(()) => println!("CASE {name} [{profile}]: ok"),
        Err(reason) => {
            println!("CASE {name} [{profile}]: FAILED: {reason}");
            panic!("case {name} [{profile}] failed: {reason}");
        },
    }
}

// CASES
// ================================================================================================

/// Control: no constant column at all; this must pass on any build.
#[test]
fn control_counter_only() {
    check(
        "control_counter_only",
        Shape { num_const: 0, counter: true, assertion: ConstAssertion::Single },
    );
}

#[test]
fn one_constant_column_single_assertion() {
    check(
        "one_constant_column_single_assertion",
        Shape { num_const: 1, counter: false, assertion: ConstAssertion::Single },
    );
}

#[test]
fn one_constant_column_sequence_assertion() {
    check(
        "one_constant_column_sequence_assertion",
        Shape { num_const: 1, counter: false, assertion: ConstAssertion::Sequence },
    );
}

#[test]
fn two_constant_columns() {
    check(
        "two_constant_columns",
        Shape { num_const: 2, counter: false, assertion: ConstAssertion::Single },
    );
}

#[test]
fn constant_column_next_to_counter() {
    check(
        "constant_column_next_to_counter",
        Shape { num_const: 1, counter: true, assertion: ConstAssertion::Single },
    );
}

#[test]
fn two_constant_columns_next_to_counter_sequence_assertion() {
    check(
        "two_constant_columns_next_to_counter_sequence_assertion",
        Shape { num_const: 2, counter: true, assertion: ConstAssertion::Sequence },
    );
}
